"""C15 -- HTML escaping neutralises all markup; URL and base64 codecs are exact inverses."""
import os, re, base64, urllib.parse, itertools, html.parser
import vlib
from vlib import hexs, unhex

META = dict(
    property_id='C15',
    design_ref='DESIGN.md section 4, C15',
    technique='Coq proof (induction + 256/65536-point sweeps over source-generated loop bodies) + extracted-model correspondence',
    level_text=('Theorems in coq/C15/Props.v, for all byte strings: escape output has no < > quote chars, every & opens one of '
                'five entities, unescape(escape s)=s, escape commutes with concatenation, a failing sink gets exactly the prefix that fits and failure is '
                'reported (return value / stream state) iff the output did not fit, also through the template filters; a filter on an already failed '
                'stream writes nothing; for sinks whose failure is not permanent (arbitrary accept-function of call index, bytes so far, request): success reported -> '
                'the sink holds the whole text, failure -> exactly the writes before the first refused one, nothing after it (escape, urlencode, and through the '
                'template filters for values of any length); a value streamed '
                'in any pieces through the 128-byte filter buffer of the template filters = the filter of the whole value; a rendered '
                'attribute/text slot cannot be terminated by its value; urlencode alphabet, urldecode(urlencode s)=s, exact behaviour of '
                'urldecode on every malformed escape, re-encoding stability; base64url alphabet, decode(encode s)=s, exact sizes, '
                'canonical-form characterisation (accepted string is an encoding iff canonical; non-canonical accepted strings exhibited). '
                'Tie: the loop BODIES of escape (string and streambuf overloads), urlencode_impl, urldecode (with its two-byte lookahead), '
                'bencode, bdecode, encode_8_to_6, xdigit, the table and the size formulas are regenerated from the current source by '
                'tools/cxx2v.py (some after a textual pre-processing step in checks/C15.py) and the loops built from them are proved equal '
                'to the model functions for all inputs.'),
    level_note=('Trusted: Coq kernel + vm_compute; cxx2v translator and clang AST; the textual pre-processor prep_tu of checks/C15.py '
                '(occurrence-counted rewrites, listed in docs/C15.md section 5) incl. its 3-line model of sscanf("%x") on two hex digits; '
                'the loop skeletons of coq/C15/LinkLoops.v (how a body is iterated); extraction with ExtrOcamlBasic and ExtrOcamlString (ascii -> char, '
                'string -> char list, used only for the HTML literals of the widget skeleton). By correspondence only: the failing-sink behaviour '
                'and status reporting of escape/urlencode(streambuf), filterbuf/steal_buffer (models fb_run, fbs_run, fbs_run_failed vs the real filters on '
                'pieces, with an accepting sink, a failing sink and an already failed stream; stream state and release() value), the '
                'std::string wrappers, form-widget rendering (slot content, slot context and complete HTML of 19 slots x 4 render modes).'),
)


C15X_TU = os.path.join(vlib.WORK, 'C15', 'c15x.cpp')   # written by prep_tu below on every run
GEN = {
    'Gen_b64': dict(src='src/base64.cpp',
                    arrays=[('encode_6_to_8', 'g_b64_alphabet')],
                    functions=[('encode_8_to_6', 'g_b64_dec6'), ('encoded_size', 'g_b64_encoded_size'),
                               ('decoded_size', 'g_b64_decoded_size')]),
    'Gen_util': dict(src='src/util.cpp',
                     functions=[('xdigit', 'g_xdigit')],
                     transducers=[('escape', 'g_escape_step'), ('urlencode_impl', 'g_urlencode_step')]),
    'Gen_c15x': dict(src=C15X_TU,
                     arrays=[('encode_6_to_8', 'gx_alphabet')],
                     functions=[('xdigit', 'gx_xdigit'), ('c15_hexv', 'gx_hexv'), ('c15_sscanf_hex2', 'gx_hex2'),
                                ('gx_ud_emit', 'gx_ud_emit'), ('gx_ud_skip', 'gx_ud_skip'), ('encode_8_to_6', 'gx_dec6')]
                               + [('gx_benc_o%d' % k, 'gx_benc_o%d' % k) for k in range(4)] + [('gx_benc_n', 'gx_benc_n')]
                               + [('gx_bdec_o%d' % k, 'gx_bdec_o%d' % k) for k in range(3)] + [('gx_bdec_n', 'gx_bdec_n')],
                     transducers=[('gx_escape_sb', 'gx_escape_sb_step')]),
}
SPECIAL = b'<>&"\''

# ---- pre-processor: loop bodies that are outside the cxx2v subset are rewritten (textually, with exact occurrence counts) into
# loop-free leaf functions / a per-byte transducer in a scratch translation unit; any change of shape of the source raises
# PrepError = broken tie.  What each rewrite assumes is listed in docs/C15.md section 5.
class PrepError(Exception):
    pass

def _body(txt, header_re, what):
    """text between the braces of the first function whose header matches header_re"""
    m = re.search(header_re, txt)
    if not m:
        raise PrepError('cannot find %s' % what)
    i = txt.index('{', m.end() - 1)
    depth, j = 0, i
    while j < len(txt):
        if txt[j] == '{':
            depth += 1
        elif txt[j] == '}':
            depth -= 1
            if depth == 0:
                return txt[i + 1:j]
        j += 1
    raise PrepError('unbalanced braces in %s' % what)

def _sub(pat, repl, txt, count, what):
    out, n = re.subn(pat, repl, txt, flags=re.S)
    if n != count:
        raise PrepError('%s: expected %d occurrence(s) of /%s/, found %d (the source no longer has the shape the pre-processor understands)' % (what, count, pat, n))
    return out

def prep_tu(repo):
    util = open(os.path.join(repo, 'src/util.cpp')).read()
    b64 = open(os.path.join(repo, 'src/base64.cpp')).read()
    util = re.sub(r'//[^\n]*', '', util)
    b64 = re.sub(r'//[^\n]*', '', b64)
    out = ['// GENERATED by checks/C15.py (prep_tu) from src/util.cpp and src/base64.cpp -- loop bodies rewritten into the cxx2v subset',
           '#include <string>', '#include <stddef.h>', '#include <stdio.h>', '#include "http_protocol.h"',
           'using cppcms::http::protocol::xdigit;', '']
    # ---- escape(begin,end,streambuf&): sputn("lit",n)==n / sputc(c)!=EOF  ->  append to a string
    esc = _body(util, r'int\s+escape\s*\(\s*char const \*begin\s*,\s*char const \*end\s*,\s*std::streambuf\s*&\s*output\s*\)\s*\{', 'escape(streambuf)')
    def sputn(m):
        lit, n, k = m.group(1), int(m.group(2)), int(m.group(3))
        if '\\' in lit or n != k or n > len(lit):
            raise PrepError('escape(streambuf): sputn(%r,%d)==%d is not "write the whole literal"' % (lit, n, k))
        return 'out += "%s";' % lit[:n]
    esc, n = re.subn(r'ok\s*=\s*output\.sputn\(\s*"([^"]*)"\s*,\s*(\d+)\s*\)\s*==\s*(\d+)\s*;', sputn, esc)
    if n != 5:
        raise PrepError('escape(streambuf): expected 5 sputn entities, found %d' % n)
    esc = _sub(r'ok\s*=\s*output\.sputc\(\s*c\s*\)\s*!=\s*EOF\s*;', 'out += c;', esc, 1, 'escape(streambuf) default')
    esc = _sub(r'bool\s+ok\s*;', '', esc, 1, 'escape(streambuf) ok')
    esc = _sub(r'if\s*\(\s*!\s*ok\s*\)\s*return\s*-1\s*;', '', esc, 1, 'escape(streambuf) failure exit')
    out += ['int gx_escape_sb(char const *begin,char const *end,std::string &out)', '{', esc, '}', '']
    # ---- urldecode: body of the for loop -> (emitted byte or -1, extra bytes consumed)
    ud = _body(util, r'std::string\s+urldecode\s*\(\s*char const \*begin\s*,\s*char const \*end\s*\)\s*\{', 'urldecode')
    m = re.search(r'for\s*\(\s*;\s*begin\s*<\s*end\s*;\s*begin\+\+\s*\)\s*\{', ud)
    if not m:
        raise PrepError('urldecode: loop header changed')
    loop = _body(ud[m.start():], r'for\s*\([^)]*\)\s*\{', 'urldecode loop')
    loop = _sub(r'char\s+c\s*=\s*\*begin\s*;', '', loop, 1, 'urldecode per-byte variable')
    loop = _sub(r'end\s*-\s*begin', 'avail', loop, 1, 'urldecode lookahead test')
    loop = _sub(r'http::protocol::xdigit', 'xdigit', loop, 2, 'urldecode xdigit')
    loop = _sub(r'char\s+buf\[3\]\s*=\s*\{\s*begin\[1\]\s*,\s*begin\[2\]\s*,\s*0\s*\}\s*;\s*int\s+value\s*;\s*sscanf\(\s*buf\s*,\s*"%x"\s*,\s*&value\s*\)\s*;',
                'int value = c15_sscanf_hex2(begin[1],begin[2]);', loop, 1, 'urldecode sscanf')
    loop = _sub(r'begin\[1\]', 'b1', loop, 2, 'urldecode begin[1]')
    loop = _sub(r'begin\[2\]', 'b2', loop, 2, 'urldecode begin[2]')
    emit = _sub(r'result\s*\+=\s*([^;]+);', r'return (unsigned char)(\1);', loop, 3, 'urldecode emissions')
    emit = _sub(r'begin\s*\+=\s*2\s*;', ';', emit, 1, 'urldecode skip')
    skip = _sub(r'result\s*\+=\s*([^;]+);', ';', loop, 3, 'urldecode emissions')
    skip = _sub(r'begin\s*\+=\s*2\s*;', 'return 2;', skip, 1, 'urldecode skip')
    if re.search(r'\b(begin|end|result)\b', emit + skip):
        raise PrepError('urldecode: loop body uses begin/end/result in a way the pre-processor does not understand')
    out += ['// model of sscanf(buf,"%x",&value) on a buffer of exactly two hex digits (libc; tied by the exhaustive %XY correspondence cases)',
            'int c15_hexv(char c) { return c<=\'9\' ? c-\'0\' : (c<=\'F\' ? c-\'A\'+10 : c-\'a\'+10); }',
            'int c15_sscanf_hex2(char a,char b) { return c15_hexv(a)*16+c15_hexv(b); }',
            'int gx_ud_emit(char c,long avail,char b1,char b2)', '{', emit, 'return -1;', '}',
            'int gx_ud_skip(char c,long avail,char b1,char b2)', '{', skip, 'return 0;', '}', '']
    # ---- base64: table, encode_8_to_6, bencode -> one function per output byte + count; same for bdecode
    m = re.search(r'const\s+unsigned\s+char\s+encode_6_to_8\s*\[\]\s*=\s*"[^"]*"\s*;', b64)
    if not m:
        raise PrepError('base64: table encode_6_to_8 not found')
    out += [m.group(0)]
    d6 = _body(b64, r'inline\s+unsigned\s+char\s+encode_8_to_6\s*\(\s*unsigned\s+char\s+c\s*\)\s*\{', 'encode_8_to_6')
    out += ['unsigned char encode_8_to_6(unsigned char c)', '{', d6, '}']
    be = _body(b64, r'bencode\s*\(\s*unsigned const char in\[3\]\s*,\s*unsigned char out\[4\]\s*,\s*size_t len\s*\)\s*\{', 'bencode')
    be = re.sub(r'\bin\[\s*(\d)\s*\]', r'in\1', be)
    if len(re.findall(r'out\[\s*\d\s*\]\s*=', be)) != 6 or re.search(r'\bin\b|\bfor\b|\bwhile\b', be):
        raise PrepError('bencode: shape changed')
    for k in range(4):
        t = re.sub(r'return\s+\d+\s*;', 'return -1;', be)
        t = re.sub(r'out\[\s*%d\s*\]\s*=\s*([^;]+);' % k, r'return \1;', t)
        t = re.sub(r'out\[\s*\d\s*\]\s*=\s*([^;]+);', ';', t)
        out += ['int gx_benc_o%d(unsigned char in0,unsigned char in1,unsigned char in2,size_t len)' % k, '{', t, '}']
    t = re.sub(r'out\[\s*\d\s*\]\s*=\s*([^;]+);', ';', be)
    out += ['size_t gx_benc_n(unsigned char in0,unsigned char in1,unsigned char in2,size_t len)', '{', t, '}']
    bd = _body(b64, r'bdecode\s*\(\s*unsigned const char in8\[4\]\s*,\s*unsigned char out\[3\]\s*,\s*size_t len\s*\)\s*\{', 'bdecode')
    bd = _sub(r'unsigned\s+char\s+in\[4\]\s*=\s*\{\s*0\s*\}\s*;\s*for\s*\(\s*unsigned\s+i\s*=\s*0\s*;\s*i\s*<\s*len\s*;\s*i\+\+\s*\)\s*in\[i\]\s*=\s*encode_8_to_6\(\s*in8\[i\]\s*\)\s*;',
              ' '.join('unsigned char in%d = %d < len ? encode_8_to_6(x%d) : 0;' % (i, i, i) for i in range(4)), bd, 1, 'bdecode input loop')
    bd = re.sub(r'\bin\[\s*(\d)\s*\]', r'in\1', bd)
    if len(re.findall(r'out\[\s*\d\s*\]\s*=', bd)) != 3 or re.search(r'\bin\b|\bin8\b|\bfor\b|\bwhile\b', bd):
        raise PrepError('bdecode: shape changed')
    for k in range(3):
        t = re.sub(r'return\s+\d+\s*;', 'return -1;', bd)
        t = re.sub(r'out\[\s*%d\s*\]\s*=\s*([^;]+);' % k, r'return \1;', t)
        t = re.sub(r'out\[\s*\d\s*\]\s*=\s*([^;]+);', ';', t)
        out += ['int gx_bdec_o%d(unsigned char x0,unsigned char x1,unsigned char x2,unsigned char x3,size_t len)' % k, '{', t, '}']
    t = re.sub(r'out\[\s*\d\s*\]\s*=\s*([^;]+);', ';', bd)
    out += ['size_t gx_bdec_n(unsigned char x0,unsigned char x1,unsigned char x2,unsigned char x3,size_t len)', '{', t, '}']
    return '\n'.join(out) + '\n'




def gen_cases(ctx):
    rng = ctx.rng
    cases = []
    allb = [bytes([i]) for i in range(256)]
    # exhaustive: all strings of length 0..2 for escape/urlencode/base64 and as decoder input
    small = [b''] + allb + [a + b for a in allb for b in allb]
    for s in small:
        h = hexs(s)
        cases.append('esc ' + h)
        cases.append('uenc ' + h)
        cases.append('benc ' + h)
        cases.append('bdec ' + h)
    # length 3: base64 block handling (sample in quick, dense in thorough)
    n3 = ctx.scale(60000, 1500000)
    for _ in range(n3):
        s = bytes(rng.getrandbits(8) for _ in range(3))
        cases.append('benc ' + hexs(s))
    # boundary grid for 3-byte blocks: all (a,b,c) with each in a small boundary set
    bset = [0, 1, 2, 3, 4, 15, 16, 17, 63, 64, 65, 127, 128, 191, 192, 252, 253, 254, 255]
    for a in bset:
        for b in bset:
            for c in bset:
                cases.append('benc ' + hexs(bytes([a, b, c])))
    # size formulas
    for n in list(range(0, 1025)) + [2 ** 20 + k for k in range(8)] + [2 ** 30 - 1 - k for k in range(8)]:
        cases.append('esz %d' % n)
        cases.append('dsz %d' % n)
    # decoders on independently encoded input
    alpha = b'ABCDEFGHIJKLMNOPQRSTUVWXYZabcdefghijklmnopqrstuvwxyz0123456789-_'
    for _ in range(ctx.scale(3000, 40000)):
        ln = rng.choice([0, 1, 2, 3, 4, 5, 6, 7, 8, 9, 15, 16, 17, 31, 32, 33, 63, 64, 65, 100, 255, 256, 257, 1000])
        s = bytes(rng.getrandbits(8) for _ in range(ln))
        enc = base64.urlsafe_b64encode(s).rstrip(b'=')
        cases.append('bdec ' + hexs(enc))
        cases.append('bdecp ' + hexs(enc))
        q = urllib.parse.quote_from_bytes(s, safe='').encode()
        if rng.random() < 0.5:
            q = q.lower() if rng.random() < 0.5 else q
        cases.append('udec ' + hexs(q))
        cases.append('udec ' + hexs(urllib.parse.quote_plus(s.decode('latin-1'), encoding='latin-1').encode()))
        cases.append('esc ' + hexs(s))
        cases.append('uenc ' + hexs(s))
        cases.append('benc ' + hexs(s))
    # malformed decoder input
    ua = [b'%', b'+', b'0', b'a', b'F', b'g', b'\x80', b' ']
    for ln in range(0, 6):
        for t in itertools.product(ua, repeat=ln):
            cases.append('udec ' + hexs(b''.join(t)))
    # every %XY (all 65536 byte pairs after the percent sign): the xdigit test and the sscanf value; and the same in the middle
    for x in range(256):
        for y in range(256):
            cases.append('udec 25%02x%02x' % (x, y))
    for _ in range(ctx.scale(4000, 60000)):
        x, y = rng.choice(b'09afAF/:@G`g%+\x00\xff'), rng.choice(b'09afAF/:@G`g%+\x00\xff')
        pre = bytes(rng.choice(b'a%+') for _ in range(rng.randrange(0, 3)))
        suf = bytes(rng.choice(b'a%+1F') for _ in range(rng.randrange(0, 3)))
        cases.append('udec ' + hexs(pre + b'%' + bytes([x, y]) + suf))
    # base64 tails: every last symbol (canonical and with stray bits) after 1 or 2 symbols, with 0..2 full blocks in front
    for last in alpha:
        for mid in alpha:
            for first in (alpha if not ctx.quick() else [rng.choice(alpha) for _ in range(4)]):
                cases.append('bdec ' + hexs(bytes([first, mid, last])))
        for k in range(ctx.scale(6, 60)):
            blocks = bytes(rng.choice(alpha) for _ in range(4 * rng.randrange(0, 3)))
            cases.append('bdec ' + hexs(blocks + bytes([rng.choice(alpha), last])))
            cases.append('bdec ' + hexs(blocks + bytes([rng.choice(alpha), rng.choice(alpha), last])))
            # one byte outside the alphabet somewhere (decodes like the letter A)
            t = bytearray(blocks + bytes([rng.choice(alpha), rng.choice(alpha), last]))
            t[rng.randrange(len(t))] = rng.choice(b'=+/ .~\x00\x80\xff@[`{')
            cases.append('bdec ' + hexs(bytes(t)))
    for _ in range(ctx.scale(3000, 40000)):
        ln = rng.randrange(0, 40)
        s = bytes(rng.choice(alpha + b'=+/%\x00\xff ') for _ in range(ln))
        cases.append('bdec ' + hexs(s))
        cases.append('bdecp ' + hexs(s))
        cases.append('udec ' + hexs(bytes(rng.choice(b'%+0123456789abcdefABCDEFxyz\xfe') for _ in range(ln))))
    # markup-dense strings, with and without a failing sink
    for _ in range(ctx.scale(3000, 40000)):
        ln = rng.randrange(0, 60)
        s = bytes(rng.choice(SPECIAL + b'ab;#39ltgmpquo\x00\xff') for _ in range(ln))
        cases.append('esc ' + hexs(s))
        room = rng.randrange(0, 6 * ln + 2)
        cases.append('escs %d %s' % (room, hexs(s)))
        cases.append('uencs %d %s' % (rng.randrange(0, 3 * ln + 2), hexs(s)))
    # values streamed through the filters in several pieces (the 128-byte filter buffer is the case split)
    edge = [0, 1, 2, 126, 127, 128, 129, 130, 255, 256, 257, 300]
    for op in ('esc', 'uenc', 'benc'):
        for a in edge:
            for b in edge:
                tot = a + b + rng.choice([0, 1, 5, 128, 200])
                s = bytes(rng.choice(SPECIAL + b'abc \x00\xff%+') for _ in range(tot))
                cases.append('pcs %s %d,%d %s' % (op, a, b, hexs(s)))
        # byte-wise put() across the buffer boundary, and a long write after bytes are already buffered
        for cuts in (','.join(['1'] * 130), '127,' + ','.join(['1'] * 4), '128,1,1', '1,128', '5,300', '129', '127,1,1,127,1,1'):
            tot = sum(int(x) for x in cuts.split(',')) + rng.choice([0, 1, 130])
            s = bytes(rng.choice(SPECIAL + b'abc \x00\xff%+') for _ in range(tot))
            cases.append('pcs %s %s %s' % (op, cuts, hexs(s)))
        for _ in range(ctx.scale(300, 5000)):
            k = rng.randrange(1, 6)
            cuts = [rng.choice(edge + [3, 17, 64]) for _ in range(k)]
            tot = sum(cuts) + rng.choice([0, 1, 127, 128, 129])
            s = bytes(rng.choice(SPECIAL + b'abc \x00\xff%+') for _ in range(min(tot, 1500)))
            cases.append('pcs %s %s %s' % (op, ','.join(map(str, cuts)), hexs(s)))
    # the filters in front of a sink that fails after `room` bytes (rooms around the output length, the buffer size and inside entities)
    for op in ('esc', 'uenc', 'benc'):
        for _ in range(ctx.scale(500, 8000)):
            k = rng.randrange(0, 4)
            cuts = [rng.choice(edge + [3, 17, 64]) for _ in range(k)] or [0]
            tot = min(sum(cuts) + rng.choice([0, 1, 5, 127, 128, 129]), 700)
            s = bytes(rng.choice(SPECIAL + b'abc \x00\xff%+') for _ in range(tot))
            L = len(py_encode(op, s))
            room = max(0, rng.choice([0, 1, 2, 3, 5, L - 6, L - 2, L - 1, L, L + 1, 127, 128, 129, 130, 255, 256, 257, rng.randrange(0, L + 2)]))
            cases.append('pcsf %s %d %s %s' % (op, room, ','.join(map(str, cuts)), hexs(s)))
    # sinks whose failure is not permanent (all-or-nothing with a byte budget, one refused call, alternating, one partial call)
    def spec_for(ncalls, nbytes):
        k = rng.randrange(0, 5)
        if k == 0:
            return 'A%d' % rng.choice([0, 1, 2, 3, 4, 5, max(0, nbytes - 1), nbytes, rng.randrange(0, nbytes + 2)])
        if k == 1:
            return 'K%d' % rng.randrange(0, ncalls + 2)
        if k == 2:
            return 'T'
        if k == 3:
            return 'P%d.%d' % (rng.randrange(0, ncalls + 1), rng.randrange(0, 5))
        return 'B%d' % rng.randrange(0, nbytes + 2)
    for budget in range(0, 9):
        cases.append('escg A%d %s' % (budget, hexs(b'ab<c')))
        cases.append('uencg A%d %s' % (budget, hexs(b'a b')))
    for _ in range(ctx.scale(4000, 60000)):
        ln = rng.randrange(0, 24)
        s = bytes(rng.choice(SPECIAL + b'ab \x00\xff') for _ in range(ln))
        for op, g in (('esc', 'escg'), ('uenc', 'uencg')):
            rq = sink_requests(op, s)
            cases.append('%s %s %s' % (g, spec_for(len(rq), sum(map(len, rq))), hexs(s)))
    for op in ('esc', 'uenc', 'benc'):
        for _ in range(ctx.scale(700, 10000)):
            k = rng.randrange(0, 4)
            cuts = [rng.choice(edge + [3, 17, 64]) for _ in range(k)] or [0]
            tot = min(sum(cuts) + rng.choice([0, 1, 5, 127, 128, 129]), 600)
            s = bytes(rng.choice(SPECIAL + b'abcdefgh \x00\xff%+') for _ in range(tot))
            rq = sink_requests(op, s)
            cases.append('pcsg %s %s %s %s' % (op, spec_for(len(rq), sum(map(len, rq))), ','.join(map(str, cuts)), hexs(s)))
    for op in ('esc', 'uenc', 'benc'):
        for v in (b'', b'a', b'<a href="x">', b'a b&c'):
            cases.append('pcsb %s %s' % (op, hexs(v)))
            cases.append('strf %s %s' % (op, hexs(v)))
    # form widgets: every value / id / label / message slot of every widget kind, both doctypes and both list layouts
    payloads = [b'', b'<', b'>', b'&', b'"', b"'", b'<script>alert(1)</script>', b'" onmouseover="x', b"' x='", b'&amp;', b'&#39;<',
                b'a&b<c>d"e\'f', b'\x00<\xff>', b'</textarea><script>', b'</option></select><img src=x>', b'plain text']
    for _ in range(ctx.scale(40, 400)):
        ln = rng.randrange(1, 40)
        payloads.append(bytes(rng.choice(SPECIAL + b'ab;#39ltgmpquo\x01\xfe =/') for _ in range(ln)))
    for kind in FORM_KINDS:
        for mode in range(4):
            for pl in payloads:
                if kind in MESSAGE_KINDS:
                    # these slots hold a booster::locale::message: the text is first translated/charset-converted for the
                    # stream's locale (which drops bytes that are not valid in the target charset and stops at NUL) and
                    # only then escaped - so only 7-bit NUL-free payloads have a defined expected rendering
                    pl = bytes(b for b in pl if 0 < b < 128)
                cases.append('form %s %d %s' % (kind, mode, hexs(pl)))
    # complete HTML of the single-slot widgets against the rendering skeleton of the model
    for kind in FULL_KINDS:
        for mode in range(4):
            for pl in payloads:
                if kind in MESSAGE_KINDS:
                    pl = bytes(b for b in pl if 0 < b < 128)
                cases.append('formfull %s %d %s' % (kind, mode, hexs(pl)))
    # long random strings (up to 64 KiB)
    for ln in [1000, 4096, 65535, 65536] if ctx.quick() else [1000, 4096, 65535, 65536, 65537, 100000, 262144]:
        s = bytes(rng.getrandbits(8) for _ in range(ln))
        for op in ('esc', 'uenc', 'benc'):
            cases.append(op + ' ' + hexs(s))
        cases.append('bdec ' + hexs(base64.urlsafe_b64encode(s).rstrip(b'=')))
    return cases


FORM_KINDS = ['text_value', 'text_value_input', 'textarea_value', 'hidden_value', 'message', 'help', 'error_message',
              'checkbox_ident', 'submit_value', 'select_id', 'select_text', 'select_tr_text', 'multi_id', 'multi_text',
              'multi_tr_text', 'radio_id', 'radio_text', 'radio_tr_text', 'message_label']
FULL_KINDS = FORM_KINDS   # Defs.render_supported: all 19
MESSAGE_KINDS = {'message', 'message_label', 'help', 'error_message', 'submit_value', 'select_tr_text', 'multi_tr_text', 'radio_tr_text'}
ENT = {b'lt': b'<', b'gt': b'>', b'amp': b'&', b'quot': b'"', b'#39': b"'"}


def py_unescape(b):
    out = bytearray()
    i = 0
    while i < len(b):
        if b[i] == 0x26:
            m = re.match(rb'&(lt|gt|amp|quot|#39);', b[i:i + 6])
            if not m:
                return None
            out += ENT[m.group(1)]
            i += len(m.group(0))
        else:
            out.append(b[i])
            i += 1
    return bytes(out)


ESC = {60: b'&lt;', 62: b'&gt;', 38: b'&amp;', 34: b'&quot;', 39: b'&#39;'}


def py_encode(op, s):
    """independent encoders (used for output lengths and for the prefix a failing sink must have received)"""
    if op == 'esc':
        return b''.join(ESC.get(ch, bytes([ch])) for ch in s)
    if op == 'uenc':
        return urllib.parse.quote_from_bytes(s, safe='').encode()
    return base64.urlsafe_b64encode(s).rstrip(b'=')


def sink_requests(op, s):
    """the write requests the CORRECT code makes for input s, in order (one sputn per entity / one sputc per byte; urlencode:
    one sputc per output byte, lower-case hex as the code writes it; base64: one write per 4-symbol block)"""
    if op == 'esc':
        return [ESC.get(ch, bytes([ch])) for ch in s]
    if op == 'uenc':
        return [bytes([b]) for b in b''.join(bytes([ch]) if ch in UNRES else b'%%%02x' % ch for ch in s)]
    full = py_encode('benc', s)
    return [full[i:i + 4] for i in range(0, len(full), 4)]


def sink_simulate(spec, reqs):
    """what a sink of the harness (B room / A budget / K k / T / P k.m) holds when the requests are made until the first
    one is refused - the behaviour the property demands: stop at the first failure, report it"""
    mode, rest = spec[0], spec[1:]
    a = int(rest.split('.')[0]) if rest else 0
    m = int(rest.split('.')[1]) if '.' in rest else 0
    data = b''
    for idx, q in enumerate(reqs):
        n = len(q)
        k = {'B': min(n, max(0, a - len(data))), 'A': n if len(data) + n <= a else 0, 'K': 0 if idx == a else n,
             'T': 0 if idx & 1 else n, 'P': min(n, m) if idx == a else n}[mode]
        data += q[:k]
        if k < n:
            return data, False
    return data, True


class _HtmlEvents(html.parser.HTMLParser):
    """flat event list: ('s', tag, [(attr, value)...]) / ('e', tag) / ('d', text), adjacent text merged"""
    def __init__(self):
        super().__init__(convert_charrefs=True)
        self.ev = []

    def handle_starttag(self, tag, attrs):
        self.ev.append(('s', tag, attrs))

    def handle_endtag(self, tag):
        self.ev.append(('e', tag))

    def handle_data(self, d):
        if self.ev and self.ev[-1][0] == 'd':
            self.ev[-1] = ('d', self.ev[-1][1] + d)
        else:
            self.ev.append(('d', d))

    def handle_comment(self, d):
        self.ev.append(('c', d))

    def handle_decl(self, d):
        self.ev.append(('decl', d))

    def handle_pi(self, d):
        self.ev.append(('pi', d))


PLACEHOLDER = 'ZqPLACEHOLDERqZ'


def check_full_widget(kind, mode, payload, rendered, reference):
    """parse the complete rendering and the rendering of the same widget with a harmless placeholder value with Python's
    HTML parser: same elements, same attribute names, and every attribute value / text equals the reference with the
    placeholder (which occurs exactly once) replaced by the payload"""
    def events(b):
        txt = b.decode('latin-1')
        if kind == 'text_value_input':      # render_input(first part) alone leaves the tag open: close it for the parser
            txt += ' >'
        p = _HtmlEvents()
        p.feed(txt)
        p.close()
        return p.ev
    norm = lambda t: (t or '').replace('\r\n', '\n').replace('\r', '\n').replace('\x00', '\ufffd')
    pl = payload.decode('latin-1')
    a, r = events(rendered), events(reference)
    if [(e[0], e[1] if e[0] in 'se' else None) for e in a] != [(e[0], e[1] if e[0] in 'se' else None) for e in r]:
        # an empty payload makes an empty text node disappear: allowed only then
        if not (pl == '' and [e for e in a if e[0] != 'd'] == [e for e in r if e[0] != 'd']):
            return 'elements differ from the placeholder rendering: %s' % [(e[0], e[1]) for e in a if e[0] in 'se']
        return None
    seen = 0
    for ea, er in zip(a, r):
        if ea[0] == 's':
            if [n for n, _ in ea[2]] != [n for n, _ in er[2]]:
                return 'attributes of <%s>: %s instead of %s' % (ea[1], [n for n, _ in ea[2]], [n for n, _ in er[2]])
            pairs = [(va, vr) for (_, va), (_, vr) in zip(ea[2], er[2])]
        elif ea[0] == 'd':
            pairs = [(ea[1], er[1])]
        elif ea[0] == 'e':
            pairs = []
        else:
            return 'comment/declaration in the rendering'
        for va, vr in pairs:
            seen += (vr or '').count(PLACEHOLDER)
            if norm((vr or '').replace(PLACEHOLDER, pl)) != norm(va):
                return 'value %r instead of %r' % (va, (vr or '').replace(PLACEHOLDER, pl))
    if seen != 1:
        return 'placeholder occurs %d times in the reference rendering' % seen
    return None


UNRES = set(b'ABCDEFGHIJKLMNOPQRSTUVWXYZabcdefghijklmnopqrstuvwxyz0123456789-_.~')
B64STR = b'ABCDEFGHIJKLMNOPQRSTUVWXYZabcdefghijklmnopqrstuvwxyz0123456789-_'
B64 = set(B64STR)


def oracle(case, out):
    c = case.split()
    o = out.split()
    op = c[0]
    if out.startswith('<crash'):
        return ('crash-' + op, 'harness died on this input: ' + out)
    if len(o) < 2 or o[0] != op:
        return ('bad-output-' + op, 'unexpected harness answer ' + out[:200])
    if 'PATHS-DIFFER' in out:
        return (op + '-output-paths-differ', 'the output paths (string/stream/streambuf/filter; for udec: string, pointer range, pointer range followed by hex digits = read past the end) disagree')
    if 'OVERRUN' in out:
        return (op + '-writes-outside-buffer', 'pointer variant wrote a different number of bytes than the size function reports')
    if op == 'esc':
        s, r = unhex(c[1]), unhex(o[1])
        if any(ch in r for ch in b'<>"\''):
            return ('escape-leaves-markup', 'escaped text contains one of < > " \'')
        if py_unescape(r) != s:
            return ('escape-not-invertible', 'escaped text does not un-escape to the input (bare & or wrong entity)')
    elif op == 'pcs':
        s, r = unhex(c[3]), unhex(o[1])
        if c[1] == 'esc':
            if any(ch in r for ch in b'<>"\'') or py_unescape(r) != s:
                return ('escape-filter-pieces', 'escape filter over a value streamed in pieces %s: output does not un-escape to the value' % c[2])
        elif c[1] == 'uenc':
            if urllib.parse.unquote_to_bytes(r) != s or any(ch not in UNRES and ch not in b'%' for ch in r):
                return ('urlencode-filter-pieces', 'urlencode filter over a value streamed in pieces %s: output does not decode to the value' % c[2])
        else:
            if any(ch not in B64 for ch in r) or len(r) != (len(s) * 4 + 2) // 3 or base64.urlsafe_b64decode(r + b'=' * (-len(r) % 4)) != s:
                return ('base64-filter-pieces', 'base64_urlencode filter over a value streamed in pieces %s: output does not decode to the value' % c[2])
    elif op == 'pcsf':
        s, r = unhex(c[4]), unhex(o[1])
        room = int(c[2])
        full = py_encode(c[1], s)
        if len(r) != min(room, len(full)) or r.lower() != full[:len(r)].lower() or (c[1] != 'uenc' and r != full[:len(r)]):
            return (c[1] + '-filter-failing-sink-not-prefix', 'sink with room for %d bytes did not receive exactly the first bytes of the filtered value' % room)
        fits = '1' if len(full) <= room else '0'
        if o[3] != 'rel=' + fits:
            # uenc: regression of /repo dd45f86 (util::urlencode(b,e,streambuf&) must report the failing sink to the filter buffer)
            return ('urlencode-streambuf-failure-not-reported' if c[1] == 'uenc' else c[1] + '-filterbuf-release-status', 'release() of the filter buffer reported %s but %d bytes had to go into %d' % (o[3], len(full), room))
        if o[2] != 'st=' + fits:
            # esc, uenc: regression of /repo 80bcd05 (the failbit set by filterbuf::write must survive the rdbuf() re-seating in release())
            return ('filter-failing-sink-error-lost' if c[1] in ('esc', 'uenc') else 'base64-filter-failing-sink-status',
                    'the sink failed while the %s filter was writing (%d bytes into room for %d) but the stream is in good state afterwards' % (c[1], len(full), room))
    elif op == 'strf':
        if unhex(o[1]) or o[2] != 'st=0':
            return (c[1] + '-ostream-overload-writes-to-failed-stream', 'the std::ostream overload wrote to a stream that had already failed or cleared its state')
    elif op == 'pcsb':
        r = unhex(o[1])
        if r or o[2] != 'st=0':
            # regression of /repo 80bcd05: steal()/release() must keep the error state across the rdbuf() re-seating
            return ('filter-revives-failed-stream', 'a %s filter applied to a stream that had already failed wrote %d bytes and left the stream in good state' % (c[1], len(r)))
    elif op == 'formfull':
        why = check_full_widget(c[1], int(c[2]), unhex(c[3]), unhex(o[1]), unhex(o[2])) if len(o) == 3 else 'no rendering: ' + out[:100]
        if why:
            return ('form-widget-html-structure-' + c[1], 'complete widget HTML parsed by an independent parser: ' + why)
    elif op == 'form':
        if o[1] in ('NO-PLACEHOLDER', 'STRUCTURE-DIFFERS'):
            return ('form-widget-structure-' + c[1], 'rendering the widget with this value changes the markup around the value slot (value not confined to its slot): ' + out[:200])
        s, r = unhex(c[3]), unhex(o[1])
        if len(o) < 3 or o[2] not in ('A', 'E'):
            return ('form-widget-slot-context-' + c[1], 'widget slot %s is rendered neither inside a double-quoted attribute nor as element text (escape does not confine a value in any other context)' % c[1])
        if any(ch in r for ch in b'<>"\''):
            return ('form-widget-leaves-markup-' + c[1], 'widget slot %s rendered a value containing one of < > " \'' % c[1])
        if py_unescape(r) != s:
            return ('form-widget-not-invertible-' + c[1], 'widget slot %s: rendered text does not un-escape to the value' % c[1])
    elif op == 'escs':
        s, r, ok = unhex(c[2]), unhex(o[1]), o[2]
        room = int(c[1])
        full = b''.join({60: b'&lt;', 62: b'&gt;', 38: b'&amp;', 34: b'&quot;', 39: b'&#39;'}.get(ch, bytes([ch])) for ch in s)
        if not full.startswith(r) or (ok == '1' and r != full) or (ok == '0' and len(full) <= room and False):
            return ('escape-stream-not-prefix', 'failing sink received something that is not a prefix of the escaped text')
        if ok == '1' and len(full) > room:
            return ('escape-stream-false-success', 'sink too small but success reported')
    elif op in ('escg', 'uencg'):
        name = 'escape' if op == 'escg' else 'urlencode'
        s, r, ok = unhex(c[2]), unhex(o[1]), o[2] == '1'
        reqs = sink_requests('esc' if op == 'escg' else 'uenc', s)
        full = b''.join(reqs)
        if ok and r != full:
            return (name + '-success-reported-but-text-lost', 'the call reported success but the sink %s holds %d of %d bytes (a refused write was ignored)' % (c[1], len(r), len(full)))
        exp, exp_ok = sink_simulate(c[1], reqs)
        if not ok and (not full.startswith(r) or r != exp):
            return (name + '-continues-after-refused-write', 'failure reported, but the sink %s does not hold exactly the writes before the first refused one' % c[1])
        if ok != exp_ok:
            return (name + '-refused-write-not-reported', 'the sink %s refused a write but the call reported success' % c[1])
    elif op == 'pcsg':
        s, r = unhex(c[4]), unhex(o[1])
        reqs = sink_requests(c[1], s)
        full = b''.join(reqs)
        st, rel = o[2] == 'st=1', o[3] == 'rel=1'
        exp, exp_ok = sink_simulate(c[2], reqs)
        if st and r != full:
            return (c[1] + '-filter-success-reported-but-text-lost', 'the stream is good after the filter but the sink %s holds %d of %d bytes' % (c[2], len(r), len(full)))
        if st != exp_ok:
            return (c[1] + '-filter-refused-write-not-reported', 'the sink %s refused a write but the stream is good after the filter' % c[2])
        if not st and r != exp:
            # (a regression of /repo 4925ae6 shows here: the put area delivered a second time after a failed flush)
            return (c[1] + '-filter-continues-after-refused-write', 'failure reported, but the sink %s does not hold exactly the writes before the first refused one (%d bytes instead of %d)' % (c[2], len(r), len(exp)))
        if rel != exp_ok:
            return (c[1] + '-filterbuf-release-status', 'release() returned %s for the sink %s' % (o[3], c[2]))
    elif op == 'uencs':
        s, r, ok = unhex(c[2]), unhex(o[1]), o[2]
        room = int(c[1])
        full = py_encode('uenc', s)
        if len(r) != min(room, len(full)) or r.lower() != full[:len(r)].lower():
            return ('urlencode-stream-not-prefix', 'failing sink received something that is not a prefix of the encoded text')
        if (ok == '1') != (len(full) <= room):
            return ('urlencode-streambuf-failure-not-reported', 'urlencode(begin,end,streambuf&) returned %s for %d bytes into a sink with room for %d' % ('0' if ok == '1' else '-1', len(full), room))
    elif op == 'uenc':
        s, r = unhex(c[1]), unhex(o[1])
        if urllib.parse.unquote_to_bytes(r) != s:
            return ('urlencode-not-invertible', 'independent decoder does not recover the input')
        i = 0
        while i < len(r):
            if r[i] in UNRES:
                i += 1
            elif r[i] == 0x25 and re.match(rb'%[0-9a-fA-F]{2}', r[i:i + 3]):
                i += 3
            else:
                return ('urlencode-alphabet', 'output contains a byte that is neither unreserved nor %XX')
    elif op == 'udec':
        s, r = unhex(c[1]), unhex(o[1])
        if len(r) > len(s):
            return ('urldecode-expands', 'decoded text longer than input')
        # inputs that are a well-formed encoding must decode to what an independent decoder gives
        if re.fullmatch(rb'(?:[A-Za-z0-9\-_.~+]|%[0-9a-fA-F]{2})*', s):
            if urllib.parse.unquote_to_bytes(s.replace(b'+', b' ')) != r:
                return ('urldecode-wrong', 'well-formed input decoded differently from the independent decoder')
    elif op == 'benc':
        s, r = unhex(c[1]), unhex(o[1])
        if any(ch not in B64 for ch in r):
            return ('base64-alphabet', 'output outside the URL-safe alphabet (or padded)')
        if len(r) != (len(s) * 4 + 2) // 3:
            return ('base64-size', 'encoded length differs from the exact formula')
        if base64.urlsafe_b64decode(r + b'=' * (-len(r) % 4)) != s:
            return ('base64-not-invertible', 'independent decoder does not recover the input')
        if len(r) % 4 and B64STR.index(r[-1]) % (16 if len(r) % 4 == 2 else 4) != 0:
            return ('base64-encode-noncanonical', 'the unused low bits of the last symbol are not zero (two different texts for the same value)')
    elif op in ('bdec', 'bdecp'):
        s = unhex(c[1])
        if o[1] == 'invalid':
            if len(s) % 4 != 1:
                return ('base64-decode-rejects-valid-length', 'decode refused an input whose length is valid')
            return None
        r = unhex(o[1])
        if op == 'bdec' and len(s) % 4 == 1:
            return ('base64-decode-accepts-invalid-length', 'decode accepted len%4==1')
        if len(s) % 4 != 1 and len(r) != len(s) * 3 // 4:
            return ('base64-decoded-size', 'decoded length differs from the exact formula')
        if all(ch in B64 for ch in s) and len(s) % 4 != 1:
            ref = base64.urlsafe_b64decode(s + b'A' * (-len(s) % 4))[:len(s) * 3 // 4]
            if ref != r:
                return ('base64-decode-wrong', 'alphabet-only input decoded differently from the independent decoder')
        if op == 'bdec':
            # encode(decode s) == s exactly for the canonical strings (independent definition: alphabet, length, unused bits of the last symbol)
            canon = all(ch in B64 for ch in s) and (len(s) % 4 == 0 or B64STR.index(s[-1]) % (16 if len(s) % 4 == 2 else 4) == 0)
            if len(o) < 3 or o[2] != 'c=%d' % canon:
                return ('base64-reencode-canonical', 'encode(decode(s))==s is %s but s is %scanonical' % (o[2:], '' if canon else 'not '))
    elif op == 'esz':
        n = int(c[1])
        if int(o[1]) != (n * 4 + 2) // 3:
            return ('base64-encoded_size', 'encoded_size wrong')
    elif op == 'dsz':
        n = int(c[1])
        exp = -1 if n % 4 == 1 else n * 3 // 4
        if int(o[1]) != exp:
            return ('base64-decoded_size', 'decoded_size wrong')
    return None


def nontrivial(case, out):
    c = case.split()
    if c[0] in ('esz', 'dsz'):
        return True
    h = c[-1]
    if h == '-':
        return False
    s = unhex(h)
    if c[0] in ('uencs', 'escg', 'uencg', 'pcsg'):
        return True
    if c[0] in ('esc', 'escs', 'form', 'formfull'):
        return any(ch in SPECIAL for ch in s)
    if c[0] == 'uenc':
        return any(ch not in UNRES for ch in s)
    if c[0] == 'udec':
        return b'%' in s or b'+' in s
    return True


def classify(case, out):
    c = case.split()
    n = 0 if c[-1] == '-' else len(c[-1]) // 2
    if c[0] in ('esz', 'dsz'):
        return c[0]
    if c[0] in ('pcs', 'form', 'formfull'):
        return c[0] + ':' + c[1]
    if c[0] == 'pcsf':
        return 'pcsf:' + c[1] + (':sink-failed' if out.endswith('rel=0') else '')
    if c[0] in ('escg', 'uencg'):
        return c[0] + ':' + c[1][0] + (':refused' if out.endswith(' 0') else '')
    if c[0] == 'pcsg':
        return 'pcsg:' + c[1] + ':' + c[2][0] + (':refused' if 'st=0' in out else '')
    if c[0] in ('pcsb', 'strf'):
        return c[0] + ':' + c[1]
    b = 'len0' if n == 0 else 'len1-2' if n <= 2 else 'len3' if n == 3 else 'len4-64' if n <= 64 else 'len65-1024' if n <= 1024 else 'len>1024'
    return c[0] + ':' + b + (':invalid' if 'invalid' in out else '') + (':noncanonical' if out.endswith('c=0') else '')


def run(ctx):
    os.makedirs(os.path.dirname(C15X_TU), exist_ok=True)
    try:
        tu = prep_tu(vlib.REPO)
    except (PrepError, OSError) as e:
        ctx.broke('pre-processor for the loop bodies failed (tie to source broken)', str(e))
        tu = '#error C15 pre-processor failed\n'
    vlib.write_if_changed(C15X_TU, tu)
    errs = vlib.gen_coq(GEN)
    for n, e in errs:
        ctx.broke('translator cxx2v failed on %s (tie to source broken)' % n, e)
    res = vlib.coq_props('C15')
    ctx.proof(res)
    ctx.coverage['trusted_base'] = [
        'Coq 8.16.1 kernel, vm_compute (sweeps); no native_compute',
        'tools/cxx2v.py + clang 14 JSON AST (leaf functions and loop bodies regenerated from src/util.cpp, src/base64.cpp, private/http_protocol.h)',
        'extraction: ExtrOcamlBasic (Extract Inductive bool/option/unit/list/prod/sumbool/sumor, Extract Inlined Constant andb/orb/negb/fst/snd) + ExtrOcamlString (ascii -> char, string -> char list; only the HTML literals of the widget skeleton), OCaml 4.13.1',
        'harness/C15_codecs.cpp (incl. cppcms::widgets rendering through form_context, bounded/1-byte test stream buffers), ocaml/C15_driver.ml, checks/C15.py (generators, oracles using Python html.parser/urllib/base64)',
        'checks/C15.py prep_tu: textual rewrite of escape(streambuf)/urldecode/bencode/bdecode loop bodies into the cxx2v subset (exact occurrence counts; 3-line model of sscanf %x on two hex digits)',
        'loop skeletons of coq/C15/LinkLoops.v (flat_map of a per-byte body; urldecode lookahead loop; 3/4-byte block loops) and, by correspondence only: escape_stream (failing sink), fb_run (filterbuf<_,128>), std::string wrappers, widget slot contexts']
    ctx.assumptions = ['signed arithmetic in translated leaf functions does not overflow (UB in C++)',
                       'char is signed 8-bit on this target (x86-64), as clang reports']
    exe, err = vlib.build_harness('C15_codecs', ['C15_codecs.cpp'])
    if not exe:
        ctx.broke('harness build failed', err)
        return
    mexe, err = vlib.build_model('C15', 'C15_driver.ml', 'c15m')
    if not mexe:
        ctx.broke('model extraction/build failed', err)
    if ctx.replay_cases is not None:
        cases = ctx.replay_cases
    else:
        cases = vlib.corpus_cases('C15') + gen_cases(ctx)
    ctx.coverage['rule'] = ('cases: op + hex input. Exhaustive: all byte strings of length 0..2 through escape, urlencode, base64 encode and '
                            'base64 decode; all sizes 0..1024 through the size functions; all strings of length<=5 over {%,+,0,a,F,g,0x80,space} '
                            'through urldecode. Exhaustive: every %XY (65536) through urldecode; all strings of length<=5 over that 8-byte set. Every last symbol x every middle symbol of 3-symbol base64 tails. Random (seeded): 3-byte blocks, independently encoded decoder inputs, malformed decoder inputs, '
                            'markup-dense strings with a failing sink (escape and urlencode streambuf overloads), filters over values streamed in pieces around the 128-byte buffer '
                            'with and without a sink that fails after room bytes (rooms around the output length / 128 / inside entities), filters on an already failed stream, '
                            'escape / urlencode / the filters into sinks with non-permanent failure (all-or-nothing with a byte budget, k-th call refused once, alternating, one partial call), '
                            '19 widget slots x 4 render modes x payloads (slot content + slot context and complete HTML), strings up to 64 KiB. A case is non-trivial when the input is non-empty and '
                            'contains at least one byte the codec must transform (markup char / non-unreserved byte / % or +; any byte for base64); '
                            'distinct = distinct case lines.')
    ctx.coverage['exhaustive'] = False
    ctx.coverage['exhaustive_parts'] = ['all strings of length 0..2 (65793) x {esc,uenc,benc,bdec}', 'sizes 0..1024 x {esz,dsz}',
                                        'udec: % followed by every byte pair (65536)', 'udec: all strings of length<=5 over {%,+,0,a,F,g,0x80,space}']
    vlib.differential(ctx, cases, exe, mexe, oracle, nontrivial, classify)
