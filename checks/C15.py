"""C15 -- HTML escaping neutralises all markup; URL and base64 codecs are exact inverses."""
import os, re, base64, urllib.parse, itertools
import vlib
from vlib import hexs, unhex

META = dict(
    property_id='C15',
    design_ref='DESIGN.md section 4, C15',
    technique='Coq proof (induction + 256-point sweeps over source-generated leaf functions) + extracted-model correspondence',
    level_text=('Theorems in coq/C15/Props.v, for all byte strings: escape output has no < > quote chars, every & opens one of '
                'five entities, unescape(escape s)=s, escape commutes with concatenation (all chunked/stream paths), a failing '
                'sink gets a prefix; urlencode alphabet and urldecode(urlencode s)=s, urldecode total and non-expanding; base64url '
                'alphabet, decode(encode s)=s, exact encoded/decoded sizes. Leaf functions (escape switch, urlencode body, xdigit, '
                'encode_8_to_6, alphabet table, size formulas) are regenerated from the current source by tools/cxx2v.py and proved '
                'equal to the model leafs (256-point sweeps; size formulas for all n<2^30). The loop structure around the leafs is '
                'tied by running the extracted model and every C++ output path on the same inputs.'),
    level_note=('Trusted: Coq kernel + vm_compute; cxx2v translator and clang AST; ExtrOcamlBasic extraction; the C++ loops around '
                'the generated leaf functions are modelled by hand and tied by correspondence (exhaustive for length<=2), not verified; '
                'form-widget rendering (src/form.cpp) is tied by correspondence only: 18 value/id/label/message slots x 4 render modes.'),
)

GEN = {
    'Gen_b64': dict(src='src/base64.cpp',
                    arrays=[('encode_6_to_8', 'g_b64_alphabet')],
                    functions=[('encode_8_to_6', 'g_b64_dec6'), ('encoded_size', 'g_b64_encoded_size'),
                               ('decoded_size', 'g_b64_decoded_size')]),
    'Gen_util': dict(src='src/util.cpp',
                     functions=[('xdigit', 'g_xdigit')],
                     transducers=[('escape', 'g_escape_step'), ('urlencode_impl', 'g_urlencode_step')]),
}
SPECIAL = b'<>&"\''


def gen_cases(ctx):
    rng = ctx.rng
    cases = []
    allb = [bytes([i]) for i in range(256)]
    # exhaustive: all strings of length 0..2 for escape/urlencode/base64 and as decoder input
    small = [b''] + allb + [a + b for a in allb for b in allb]
    for s in small:
        h = hexs(s)
        cases.append('esc ' + h)
        cases.append('uenc ' + h)
        cases.append('benc ' + h)
        cases.append('bdec ' + h)
    # length 3: base64 block handling (sample in quick, dense in thorough)
    n3 = ctx.scale(60000, 1500000)
    for _ in range(n3):
        s = bytes(rng.getrandbits(8) for _ in range(3))
        cases.append('benc ' + hexs(s))
    # boundary grid for 3-byte blocks: all (a,b,c) with each in a small boundary set
    bset = [0, 1, 2, 3, 4, 15, 16, 17, 63, 64, 65, 127, 128, 191, 192, 252, 253, 254, 255]
    for a in bset:
        for b in bset:
            for c in bset:
                cases.append('benc ' + hexs(bytes([a, b, c])))
    # size formulas
    for n in list(range(0, 1025)) + [2 ** 20 + k for k in range(8)] + [2 ** 30 - 1 - k for k in range(8)]:
        cases.append('esz %d' % n)
        cases.append('dsz %d' % n)
    # decoders on independently encoded input
    alpha = b'ABCDEFGHIJKLMNOPQRSTUVWXYZabcdefghijklmnopqrstuvwxyz0123456789-_'
    for _ in range(ctx.scale(3000, 40000)):
        ln = rng.choice([0, 1, 2, 3, 4, 5, 6, 7, 8, 9, 15, 16, 17, 31, 32, 33, 63, 64, 65, 100, 255, 256, 257, 1000])
        s = bytes(rng.getrandbits(8) for _ in range(ln))
        enc = base64.urlsafe_b64encode(s).rstrip(b'=')
        cases.append('bdec ' + hexs(enc))
        cases.append('bdecp ' + hexs(enc))
        q = urllib.parse.quote_from_bytes(s, safe='').encode()
        if rng.random() < 0.5:
            q = q.lower() if rng.random() < 0.5 else q
        cases.append('udec ' + hexs(q))
        cases.append('udec ' + hexs(urllib.parse.quote_plus(s.decode('latin-1'), encoding='latin-1').encode()))
        cases.append('esc ' + hexs(s))
        cases.append('uenc ' + hexs(s))
        cases.append('benc ' + hexs(s))
    # malformed decoder input
    ua = [b'%', b'+', b'0', b'a', b'F', b'g', b'\x80', b' ']
    for ln in range(0, 5):
        for t in itertools.product(ua, repeat=ln):
            cases.append('udec ' + hexs(b''.join(t)))
    for _ in range(ctx.scale(3000, 40000)):
        ln = rng.randrange(0, 40)
        s = bytes(rng.choice(alpha + b'=+/%\x00\xff ') for _ in range(ln))
        cases.append('bdec ' + hexs(s))
        cases.append('bdecp ' + hexs(s))
        cases.append('udec ' + hexs(bytes(rng.choice(b'%+0123456789abcdefABCDEFxyz\xfe') for _ in range(ln))))
    # markup-dense strings, with and without a failing sink
    for _ in range(ctx.scale(3000, 40000)):
        ln = rng.randrange(0, 60)
        s = bytes(rng.choice(SPECIAL + b'ab;#39ltgmpquo\x00\xff') for _ in range(ln))
        cases.append('esc ' + hexs(s))
        room = rng.randrange(0, 6 * ln + 2)
        cases.append('escs %d %s' % (room, hexs(s)))
    # values streamed through the filters in several pieces (the 128-byte filter buffer is the case split)
    edge = [0, 1, 2, 126, 127, 128, 129, 130, 255, 256, 257, 300]
    for op in ('esc', 'uenc', 'benc'):
        for a in edge:
            for b in edge:
                tot = a + b + rng.choice([0, 1, 5, 128, 200])
                s = bytes(rng.choice(SPECIAL + b'abc \x00\xff%+') for _ in range(tot))
                cases.append('pcs %s %d,%d %s' % (op, a, b, hexs(s)))
        for _ in range(ctx.scale(300, 5000)):
            k = rng.randrange(1, 6)
            cuts = [rng.choice(edge + [3, 17, 64]) for _ in range(k)]
            tot = sum(cuts) + rng.choice([0, 1, 127, 128, 129])
            s = bytes(rng.choice(SPECIAL + b'abc \x00\xff%+') for _ in range(min(tot, 1500)))
            cases.append('pcs %s %s %s' % (op, ','.join(map(str, cuts)), hexs(s)))
    # form widgets: every value / id / label / message slot of every widget kind, both doctypes and both list layouts
    payloads = [b'', b'<', b'>', b'&', b'"', b"'", b'<script>alert(1)</script>', b'" onmouseover="x', b"' x='", b'&amp;', b'&#39;<',
                b'a&b<c>d"e\'f', b'\x00<\xff>', b'</textarea><script>', b'</option></select><img src=x>', b'plain text']
    for _ in range(ctx.scale(40, 400)):
        ln = rng.randrange(1, 40)
        payloads.append(bytes(rng.choice(SPECIAL + b'ab;#39ltgmpquo\x01\xfe =/') for _ in range(ln)))
    for kind in FORM_KINDS:
        for mode in range(4):
            for pl in payloads:
                if kind in MESSAGE_KINDS:
                    # these slots hold a booster::locale::message: the text is first translated/charset-converted for the
                    # stream's locale (which drops bytes that are not valid in the target charset and stops at NUL) and
                    # only then escaped - so only 7-bit NUL-free payloads have a defined expected rendering
                    pl = bytes(b for b in pl if 0 < b < 128)
                cases.append('form %s %d %s' % (kind, mode, hexs(pl)))
    # long random strings (up to 64 KiB)
    for ln in [1000, 4096, 65535, 65536] if ctx.quick() else [1000, 4096, 65535, 65536, 65537, 100000, 262144]:
        s = bytes(rng.getrandbits(8) for _ in range(ln))
        for op in ('esc', 'uenc', 'benc'):
            cases.append(op + ' ' + hexs(s))
        cases.append('bdec ' + hexs(base64.urlsafe_b64encode(s).rstrip(b'=')))
    return cases


FORM_KINDS = ['text_value', 'text_value_input', 'textarea_value', 'hidden_value', 'message', 'help', 'error_message',
              'checkbox_ident', 'submit_value', 'select_id', 'select_text', 'select_tr_text', 'multi_id', 'multi_text',
              'multi_tr_text', 'radio_id', 'radio_text', 'radio_tr_text']
MESSAGE_KINDS = {'message', 'help', 'error_message', 'submit_value', 'select_tr_text', 'multi_tr_text', 'radio_tr_text'}
ENT = {b'lt': b'<', b'gt': b'>', b'amp': b'&', b'quot': b'"', b'#39': b"'"}


def py_unescape(b):
    out = bytearray()
    i = 0
    while i < len(b):
        if b[i] == 0x26:
            m = re.match(rb'&(lt|gt|amp|quot|#39);', b[i:i + 6])
            if not m:
                return None
            out += ENT[m.group(1)]
            i += len(m.group(0))
        else:
            out.append(b[i])
            i += 1
    return bytes(out)


UNRES = set(b'ABCDEFGHIJKLMNOPQRSTUVWXYZabcdefghijklmnopqrstuvwxyz0123456789-_.~')
B64 = set(b'ABCDEFGHIJKLMNOPQRSTUVWXYZabcdefghijklmnopqrstuvwxyz0123456789-_')


def oracle(case, out):
    c = case.split()
    o = out.split()
    op = c[0]
    if out.startswith('<crash'):
        return ('crash-' + op, 'harness died on this input: ' + out)
    if len(o) < 2 or o[0] != op:
        return ('bad-output-' + op, 'unexpected harness answer ' + out[:200])
    if 'PATHS-DIFFER' in out:
        return (op + '-output-paths-differ', 'the output paths (string/stream/streambuf/filter) disagree')
    if 'OVERRUN' in out:
        return (op + '-writes-outside-buffer', 'pointer variant wrote a different number of bytes than the size function reports')
    if op == 'esc':
        s, r = unhex(c[1]), unhex(o[1])
        if any(ch in r for ch in b'<>"\''):
            return ('escape-leaves-markup', 'escaped text contains one of < > " \'')
        if py_unescape(r) != s:
            return ('escape-not-invertible', 'escaped text does not un-escape to the input (bare & or wrong entity)')
    elif op == 'pcs':
        s, r = unhex(c[3]), unhex(o[1])
        if c[1] == 'esc':
            if any(ch in r for ch in b'<>"\'') or py_unescape(r) != s:
                return ('escape-filter-pieces', 'escape filter over a value streamed in pieces %s: output does not un-escape to the value' % c[2])
        elif c[1] == 'uenc':
            if urllib.parse.unquote_to_bytes(r) != s or any(ch not in UNRES and ch not in b'%' for ch in r):
                return ('urlencode-filter-pieces', 'urlencode filter over a value streamed in pieces %s: output does not decode to the value' % c[2])
        else:
            if any(ch not in B64 for ch in r) or len(r) != (len(s) * 4 + 2) // 3 or base64.urlsafe_b64decode(r + b'=' * (-len(r) % 4)) != s:
                return ('base64-filter-pieces', 'base64_urlencode filter over a value streamed in pieces %s: output does not decode to the value' % c[2])
    elif op == 'form':
        if o[1] in ('NO-PLACEHOLDER', 'STRUCTURE-DIFFERS'):
            return ('form-widget-structure-' + c[1], 'rendering the widget with this value changes the markup around the value slot (value not confined to its slot): ' + out[:200])
        s, r = unhex(c[3]), unhex(o[1])
        if any(ch in r for ch in b'<>"\''):
            return ('form-widget-leaves-markup-' + c[1], 'widget slot %s rendered a value containing one of < > " \'' % c[1])
        if py_unescape(r) != s:
            return ('form-widget-not-invertible-' + c[1], 'widget slot %s: rendered text does not un-escape to the value' % c[1])
    elif op == 'escs':
        s, r, ok = unhex(c[2]), unhex(o[1]), o[2]
        room = int(c[1])
        full = b''.join({60: b'&lt;', 62: b'&gt;', 38: b'&amp;', 34: b'&quot;', 39: b'&#39;'}.get(ch, bytes([ch])) for ch in s)
        if not full.startswith(r) or (ok == '1' and r != full) or (ok == '0' and len(full) <= room and False):
            return ('escape-stream-not-prefix', 'failing sink received something that is not a prefix of the escaped text')
        if ok == '1' and len(full) > room:
            return ('escape-stream-false-success', 'sink too small but success reported')
    elif op == 'uenc':
        s, r = unhex(c[1]), unhex(o[1])
        if urllib.parse.unquote_to_bytes(r) != s:
            return ('urlencode-not-invertible', 'independent decoder does not recover the input')
        i = 0
        while i < len(r):
            if r[i] in UNRES:
                i += 1
            elif r[i] == 0x25 and re.match(rb'%[0-9a-fA-F]{2}', r[i:i + 3]):
                i += 3
            else:
                return ('urlencode-alphabet', 'output contains a byte that is neither unreserved nor %XX')
    elif op == 'udec':
        s, r = unhex(c[1]), unhex(o[1])
        if len(r) > len(s):
            return ('urldecode-expands', 'decoded text longer than input')
        # inputs that are a well-formed encoding must decode to what an independent decoder gives
        if re.fullmatch(rb'(?:[A-Za-z0-9\-_.~+]|%[0-9a-fA-F]{2})*', s):
            if urllib.parse.unquote_to_bytes(s.replace(b'+', b' ')) != r:
                return ('urldecode-wrong', 'well-formed input decoded differently from the independent decoder')
    elif op == 'benc':
        s, r = unhex(c[1]), unhex(o[1])
        if any(ch not in B64 for ch in r):
            return ('base64-alphabet', 'output outside the URL-safe alphabet (or padded)')
        if len(r) != (len(s) * 4 + 2) // 3:
            return ('base64-size', 'encoded length differs from the exact formula')
        if base64.urlsafe_b64decode(r + b'=' * (-len(r) % 4)) != s:
            return ('base64-not-invertible', 'independent decoder does not recover the input')
    elif op in ('bdec', 'bdecp'):
        s = unhex(c[1])
        if o[1] == 'invalid':
            if len(s) % 4 != 1:
                return ('base64-decode-rejects-valid-length', 'decode refused an input whose length is valid')
            return None
        r = unhex(o[1])
        if op == 'bdec' and len(s) % 4 == 1:
            return ('base64-decode-accepts-invalid-length', 'decode accepted len%4==1')
        if len(s) % 4 != 1 and len(r) != len(s) * 3 // 4:
            return ('base64-decoded-size', 'decoded length differs from the exact formula')
        if all(ch in B64 for ch in s) and len(s) % 4 != 1:
            ref = base64.urlsafe_b64decode(s + b'A' * (-len(s) % 4))[:len(s) * 3 // 4]
            if ref != r:
                return ('base64-decode-wrong', 'alphabet-only input decoded differently from the independent decoder')
    elif op == 'esz':
        n = int(c[1])
        if int(o[1]) != (n * 4 + 2) // 3:
            return ('base64-encoded_size', 'encoded_size wrong')
    elif op == 'dsz':
        n = int(c[1])
        exp = -1 if n % 4 == 1 else n * 3 // 4
        if int(o[1]) != exp:
            return ('base64-decoded_size', 'decoded_size wrong')
    return None


def nontrivial(case, out):
    c = case.split()
    if c[0] in ('esz', 'dsz'):
        return True
    h = c[-1]
    if h == '-':
        return False
    s = unhex(h)
    if c[0] in ('esc', 'escs', 'form'):
        return any(ch in SPECIAL for ch in s)
    if c[0] == 'uenc':
        return any(ch not in UNRES for ch in s)
    if c[0] == 'udec':
        return b'%' in s or b'+' in s
    return True


def classify(case, out):
    c = case.split()
    n = 0 if c[-1] == '-' else len(c[-1]) // 2
    if c[0] in ('esz', 'dsz'):
        return c[0]
    if c[0] in ('pcs', 'form'):
        return c[0] + ':' + c[1]
    b = 'len0' if n == 0 else 'len1-2' if n <= 2 else 'len3' if n == 3 else 'len4-64' if n <= 64 else 'len65-1024' if n <= 1024 else 'len>1024'
    return c[0] + ':' + b + (':invalid' if 'invalid' in out else '')


def run(ctx):
    errs = vlib.gen_coq(GEN)
    for n, e in errs:
        ctx.broke('translator cxx2v failed on %s (tie to source broken)' % n, e)
    res = vlib.coq_props('C15')
    ctx.proof(res)
    ctx.coverage['trusted_base'] = [
        'Coq 8.16.1 kernel, vm_compute (sweeps); no native_compute',
        'tools/cxx2v.py + clang 14 JSON AST (leaf functions regenerated from src/util.cpp, src/base64.cpp, private/http_protocol.h)',
        'extraction: ExtrOcamlBasic only (Extract Inductive bool/option/unit/list/prod/sumbool/sumor, Extract Inlined Constant andb/orb/negb/fst/snd), OCaml 4.13.1',
        'harness/C15_codecs.cpp (incl. cppcms::widgets rendering through form_context), ocaml/C15_driver.ml, checks/C15.py (generators, canonicalisation, oracles using Python html/urllib/base64)',
        'hand model of the loops around the generated leafs (coq/C15/Defs.v)']
    ctx.assumptions = ['signed arithmetic in translated leaf functions does not overflow (UB in C++)',
                       'char is signed 8-bit on this target (x86-64), as clang reports']
    exe, err = vlib.build_harness('C15_codecs', ['C15_codecs.cpp'])
    if not exe:
        ctx.broke('harness build failed', err)
        return
    mexe, err = vlib.build_model('C15', 'C15_driver.ml', 'c15m')
    if not mexe:
        ctx.broke('model extraction/build failed', err)
    if ctx.replay_cases is not None:
        cases = ctx.replay_cases
    else:
        cases = vlib.corpus_cases('C15') + gen_cases(ctx)
    ctx.coverage['rule'] = ('cases: op + hex input. Exhaustive: all byte strings of length 0..2 through escape, urlencode, base64 encode and '
                            'base64 decode; all sizes 0..1024 through the size functions; all strings of length<=4 over {%,+,0,a,F,g,0x80,space} '
                            'through urldecode. Random (seeded): 3-byte blocks, independently encoded decoder inputs, malformed decoder inputs, '
                            'markup-dense strings with a failing sink, strings up to 64 KiB. A case is non-trivial when the input is non-empty and '
                            'contains at least one byte the codec must transform (markup char / non-unreserved byte / % or +; any byte for base64); '
                            'distinct = distinct case lines.')
    ctx.coverage['exhaustive'] = False
    ctx.coverage['exhaustive_parts'] = ['all strings of length 0..2 (65793) x {esc,uenc,benc,bdec}', 'sizes 0..1024 x {esz,dsz}']
    vlib.differential(ctx, cases, exe, mexe, oracle, nontrivial, classify)
