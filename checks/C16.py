"""C16 -- digests, HMAC and CBC ciphers compute the standard functions for all inputs."""
import os, re, hashlib, hmac as pyhmac, subprocess, shutil, struct, zlib
import vlib
from vlib import hexs, unhex

META = dict(
    property_id='C16',
    design_ref='DESIGN.md section 4, C16',
    technique='Coq proof (refinement of the streaming MD5/SHA-1/HMAC/CBC objects to pad-then-fold specifications) + '
              'source-regenerated leaf functions and constant tables + extracted-model correspondence + independent oracle',
    level_text=('Theorems in coq/C16/Props.v (43, closed, no axioms): the bundled MD5 and SHA-1 objects, fed any list of chunks (empty ones '
                'included; MD5 chunks < 2^31 bytes), read out the RFC 1321 / FIPS 180-4 pad-then-fold digest of the concatenation; k messages '
                'through one object each get their own digest (reset after readout, from any state); the MD5 step table and IV of the code equal '
                'the RFC-formula ones; the 80-round SHA-1 function of the code equals FIPS 180-4 6.1.2 written from the standard; the HMAC object '
                'equals RFC 2104 for every key length, chunking and reuse given only streaming + reset of its digest object, instantiated for MD5 '
                'and SHA-1; CBC decryption inverts encryption over any block cipher with D(E b)=b for every split of the calls, and only block 1 '
                'depends on the decryptor IV; the whole cbc object (key, lazily expanded key schedules, running IVs), for every sequence of calls with '
                'any operands, answers exactly like an object given ONE key at birth - the first offered key of the right size; every later set_key is '
                'refused and changes nothing; AES written from FIPS-197 in Gallina: InvCipher inverts Cipher for every key and block, hence AES-CBC '
                'decrypt(encrypt(p)) = p on whole blocks and across two objects, closed, and the aes_encryptor.cpp cookie format with this cipher and HMAC-SHA1 is read back by any object with the same keys whatever the running IVs, closed; key::set_hex decodes exactly even-length hex strings; cbc serves '
                'calls iff key and IV were set; name dispatch is case-insensitive with digest_size <= block_size; hmac_cipher/aes_cipher (abstract MAC '
                'and cipher) decrypt their own output for any running IVs and accept only authentic bodies. coq/C16/Link.v (27 lemmas): MD5 T constants, F/G/H/I, '
                'ROTATE_LEFT (translated by cxx2v from the macros of the current src/md5.cpp), the 64 SET lines and md5_init constants '
                '(text extractor), the numbers of sha1.h process_block/reset (text extractor with a rigid shape check), left_rotate and key::from_hex are equal to the model leafs.'),
    level_note=('Trusted: Coq kernel + vm_compute; cxx2v + clang AST and the md5 step-table text extractor in checks/C16.py; extraction; the '
                'loops/buffering around the leafs (md5_append/finish, sha1 process_byte/get_digest, hmac, key, cbc wrappers) are hand-modelled '
                'and tied by correspondence on the block-boundary grid; the cbc object model with the FIPS-197 cipher is run against the real object '
                '(statuses and output bytes of every call); SHA-2 and AES are library code (OpenSSL): only the wrappers are in /repo, '
                'they are checked against Python hashlib/hmac, the libcrypto block primitive, a pure-Python FIPS-197 AES and the openssl CLI (oracle), '
                'AES-CBC additionally against the Gallina FIPS-197 cipher and a sample of the SHA-2 digest/HMAC lines against FIPS 180-4 in Gallina with computed constants (correspondence).'),
)

GEN = {
    # src/md5.cpp macros F G H I ROTATE_LEFT T1..T64, expanded in the probe TU harness/C16_md5probe.cpp (it #includes md5.cpp)
    'Gen_C16_md5': dict(src=os.path.join(vlib.VERIF, 'harness', 'C16_md5probe.cpp'),
                        incs=vlib.repo_incs() + [os.path.join(vlib.REPO, 'src')],
                        functions=[('c16_md5_F', 'g_md5_F'), ('c16_md5_G', 'g_md5_G'), ('c16_md5_H', 'g_md5_H'), ('c16_md5_I', 'g_md5_I'),
                                   ('c16_md5_rotl', 'g_md5_rotl'), ('c16_md5_T', 'g_md5_T')]),
    # key::from_hex and the left_rotate of private/sha1.h (included by crypto.cpp)
    'Gen_C16_crypto': dict(src='src/crypto.cpp', functions=[('from_hex', 'g_key_from_hex'), ('left_rotate', 'g_sha1_left_rotate')]),
}


class ExtractError(Exception):
    pass


def _norm(s):
    return re.sub(r'\s+', '', s)


def gen_md5_steps():
    """Text extractor for the parts of src/md5.cpp that cxx2v cannot translate (pointer code): the 64 SET lines of md5_process
    in source order with the SET macro in force, the register rotation, the final additions and the constants of md5_init.
    Writes coq/gen/Gen_C16_md5steps.v; Link.v proves the table equal to the model's md5_steps/md5_abcd0.  Every shape this
    extractor relies on is checked and reported as a broken tie when it is not found."""
    src = open(os.path.join(vlib.REPO, 'src', 'md5.cpp')).read()
    m = re.search(r'\nmd5_process\(md5_state_t \*pms, const md5_byte_t \*data[^)]*\)\s*\{(.*?)\n\}\n', src, re.S)
    if not m:
        raise ExtractError('md5_process not found')
    body = m.group(1)
    if _norm('md5_word_t a = pms->abcd[0], b = pms->abcd[1], c = pms->abcd[2], d = pms->abcd[3];') not in _norm(body):
        raise ExtractError('md5_process: initial a,b,c,d = abcd[0..3] not found')
    if not _norm(body).endswith(_norm('pms->abcd[0] += a; pms->abcd[1] += b; pms->abcd[2] += c; pms->abcd[3] += d;')):
        raise ExtractError('md5_process: final additions abcd[i] += a,b,c,d not found at the end')
    if '#define T_MASK ((md5_word_t)~0)' not in src:
        raise ExtractError('T_MASK definition changed')
    if _norm('#define ROTATE_LEFT(x, n) (((x) << (n)) | ((x) >> (32 - (n))))') not in _norm(body):
        raise ExtractError('ROTATE_LEFT definition changed')
    steps = []
    fn = None
    rot = ['a,b,c,d', 'd,a,b,c', 'c,d,a,b', 'b,c,d,a']
    for line in re.sub(r'/\*.*?\*/', '', body, flags=re.S).replace('\\\n', ' ').split('\n'):
        l = line.strip()
        d = re.match(r'#define SET\(a, b, c, d, k, s, Ti\)(.*)$', l)
        if d:
            mm = re.fullmatch(r't=a\+([FGHI])\(b,c,d\)\+X\[k\]\+Ti;a=ROTATE_LEFT\(t,s\)\+b', _norm(d.group(1)))
            if not mm:
                raise ExtractError('SET macro has an unexpected body: ' + l[:120])
            fn = 'FGHI'.index(mm.group(1))
            if fn != len(steps) // 16:
                raise ExtractError('round function %s used for round %d' % (mm.group(1), len(steps) // 16 + 1))
            continue
        if l.startswith('#undef SET'):
            fn = None
            continue
        u = re.match(r'SET\(\s*(\w)\s*,\s*(\w)\s*,\s*(\w)\s*,\s*(\w)\s*,\s*(\d+)\s*,\s*(\d+)\s*,\s*T(\d+)\s*\)\s*;$', l)
        if u:
            if fn is None:
                raise ExtractError('SET line outside a #define SET ... #undef SET region')
            regs = ','.join(u.group(i) for i in (1, 2, 3, 4))
            if regs != rot[len(steps) % 4]:
                raise ExtractError('step %d: registers %s, expected %s' % (len(steps) + 1, regs, rot[len(steps) % 4]))
            steps.append((fn, int(u.group(5)), int(u.group(6)), int(u.group(7))))
        elif 'SET' in l and not l.startswith('/*'):
            raise ExtractError('unrecognised line mentioning SET: ' + l[:120])
    if len(steps) != 64:
        raise ExtractError('%d SET lines found, expected 64' % len(steps))
    mi = re.search(r'\nmd5_init\(md5_state_t \*pms\)\s*\{(.*?)\n\}', src, re.S)
    if not mi:
        raise ExtractError('md5_init not found')
    ib = re.sub(r'/\*.*?\*/', '', mi.group(1), flags=re.S)
    if _norm('pms->count[0] = pms->count[1] = 0;') not in _norm(ib):
        raise ExtractError('md5_init: count reset not found')
    init = []
    for i in range(4):
        mm = re.search(r'pms->abcd\[%d\]\s*=\s*(T_MASK\s*\^\s*)?(0x[0-9a-fA-F]+)\s*;' % i, ib)
        if not mm:
            raise ExtractError('md5_init: abcd[%d] assignment not recognised' % i)
        v = int(mm.group(2), 16)
        init.append(v ^ 0xffffffff if mm.group(1) else v)
    txt = ('(* GENERATED by checks/C16.py (gen_md5_steps) from src/md5.cpp -- do not edit *)\n'
           'From Coq Require Import ZArith List.\nImport ListNotations.\nLocal Open Scope Z_scope.\n'
           '(* (round function 0..3 = F G H I, k, s, index i of Ti) for the 64 SET lines of md5_process in source order *)\n'
           'Definition g_md5_steps : list (Z * Z * Z * Z) :=\n  [%s].\n'
           '(* md5_init: abcd[0..3] *)\nDefinition g_md5_abcd0 : list Z := [%s].\n'
           % ('; '.join('(%d,%d,%d,%d)' % t for t in steps), '; '.join(str(v) for v in init)))
    with vlib.Lock('gen-Gen_C16_md5steps'):
        vlib.write_if_changed(os.path.join(vlib.COQ, 'gen', 'Gen_C16_md5steps.v'), txt)

AES_SET_KEY_SHAPE = _norm("""if(key_.size()!=0) throw booster::runtime_error("cppcms::crypto::aes can't set key more then once");
    if(k.size() != key_size()) throw booster::invalid_argument("cppcms::crypto::aes Invalid key size"); key_ = k;""")
AES_CHECK_SHAPE = _norm("""if(key_.size() == 0) throw booster::runtime_error("cppcms::crypto::aes: attempt to use cbc without key");
    if(!iv_initialized_) throw booster::runtime_error("cppcms::crypto::aes: attempt to use cbc without initial vector set");""")


def check_aes_shapes():
    """src/aes.cpp has two back ends (gcrypt, OpenSSL) and only the OpenSSL one is compiled here.  The guards the model relies on -
    set_key: twice-check THROWS, before the size check; check(): key then IV - must have exactly the modelled text in BOTH classes,
    so that an edit of the variant that is not compiled (e.g. losing the `throw` again) is reported as a broken tie for review."""
    src = open(os.path.join(vlib.REPO, 'src', 'aes.cpp')).read()
    src = re.sub(r'//[^\n]*', '', src)
    sk = re.findall(r'void set_key\(key const &k\)\s*\{(.*?)\n\t\t\}', src, re.S)
    ck = re.findall(r'void check\(\)\s*\{(.*?)\n\t\t\}', src, re.S)
    if len(sk) != 2 or len(ck) != 2:
        raise ExtractError('src/aes.cpp: expected two set_key and two check() bodies (gcrypt and OpenSSL classes), found %d / %d' % (len(sk), len(ck)))
    for i, b in enumerate(sk):
        if _norm(b) != AES_SET_KEY_SHAPE:
            raise ExtractError('src/aes.cpp: set_key of the %s class does not have the modelled guards (twice-check that throws, then size check, then key_ = k)' % ('gcrypt', 'OpenSSL')[i])
    for i, b in enumerate(ck):
        if _norm(b) != AES_CHECK_SHAPE:
            raise ExtractError('src/aes.cpp: check() of the %s class does not have the modelled guards (key, then IV)' % ('gcrypt', 'OpenSSL')[i])


SAN_SOURCES = ('aes_encryptor.cpp', 'hmac_encryptor.cpp', 'aes.cpp', 'crypto.cpp', 'md5.cpp')
ALGOS = ['md5', 'sha1', 'sha224', 'sha256', 'sha384', 'sha512']
BLOCK = {'md5': 64, 'sha1': 64, 'sha224': 64, 'sha256': 64, 'sha384': 128, 'sha512': 128}
DSZ = {'md5': 16, 'sha1': 20, 'sha224': 28, 'sha256': 32, 'sha384': 48, 'sha512': 64}
MODELLED = ('md5', 'sha1')


# ------------------------------------------------------------------------------------------------
# case construction helpers
# ------------------------------------------------------------------------------------------------
def msg_tok(chunks):
    """chunks: list of bytes -> message token ('.' = no append call at all)"""
    if not chunks:
        return '.'
    return ','.join(hexs(c) for c in chunks)


def parse_msg(tok):
    if tok == '.':
        return []
    return [unhex(x) for x in tok.split(',')]


def rbytes(rng, n):
    return rng.getrandbits(8 * n).to_bytes(n, 'little') if n else b''


def cut(data, points):
    pts = [0] + sorted(points) + [len(data)]
    return [data[pts[i]:pts[i + 1]] for i in range(len(pts) - 1)]


def rand_cuts(rng, data, k, empties=True):
    pts = [rng.randrange(0, len(data) + 1) for _ in range(k)]
    ch = cut(data, pts)
    if empties and rng.random() < 0.5:
        ch.insert(rng.randrange(0, len(ch) + 1), b'')
    return ch


def boundary_lengths(block, upto):
    """lengths around every multiple of the block size: padding fits / does not fit / block completes"""
    s = set()
    for base in range(0, upto + 1, block):
        for d in (-block // 8 - 1, -block // 8, -block // 8 + 1, -2, -1, 0, 1, 2):
            n = base + d
            if 0 <= n <= upto + 2:
                s.add(n)
    return sorted(s)


def gen_digest_cases(ctx, algos, model_side):
    """the grid of DESIGN.md: lengths, chunkings, object reuse. model_side=True keeps the volume modest."""
    rng = ctx.rng
    cases = []
    for a in algos:
        B = BLOCK[a]
        # every length 0..300 in one call, and fed byte by byte
        for n in range(0, 301):
            m = rbytes(rng, n)
            cases.append('dg %s %s' % (a, msg_tok([m] if n or rng.random() < 0.5 else [])))
        for n in list(range(0, 2 * B + 3)) + [3 * B - 1, 3 * B, 3 * B + 1]:
            m = rbytes(rng, n)
            cases.append('dg %s %s' % (a, msg_tok([m[i:i + 1] for i in range(n)])))
        # around every multiple of the block size up to 4 KiB
        bl = boundary_lengths(B, 4096)
        if model_side and ctx.quick():
            bl = [n for n in bl if n <= 1100 or n % 1024 < 3 or n % 1024 > 1010 or rng.random() < 0.06]
        for n in bl:
            m = rbytes(rng, n)
            cases.append('dg %s %s' % (a, msg_tok([m])))
            cases.append('dg %s %s' % (a, msg_tok(rand_cuts(rng, m, rng.randrange(1, 6)))))
        # all 2-cuts of messages up to 130 bytes (2 * 64 + 2; for the 128-byte algorithms up to 260 in thorough)
        top = 130 if (B == 64 or ctx.quick()) else 260
        lens = range(0, top + 1)
        if ctx.quick():
            keep = set(boundary_lengths(B, top)) | {0, 1, 2, 3, top}
            lens = [n for n in lens if n in keep or rng.random() < (0.12 if model_side else 0.3)]
        for n in lens:
            m = rbytes(rng, n)
            for c in range(0, n + 1):
                cases.append('dg %s %s' % (a, msg_tok(cut(m, [c]))))
        # random multi-cuts with empty chunks; cuts aimed at the internal buffer boundary
        for _ in range(ctx.scale(150, 1500) if model_side else ctx.scale(400, 4000)):
            n = rng.choice([rng.randrange(0, 3 * B + 2), rng.randrange(0, 1500), rng.choice(bl)])
            m = rbytes(rng, n)
            if rng.random() < 0.5:
                ch = rand_cuts(rng, m, rng.randrange(1, 9))
            else:
                pts = [p for p in (rng.choice([B - 1, B, B + 1, 2 * B - 1, 2 * B, 2 * B + 1, B // 2]) + rng.choice([0, B, 2 * B]) for _ in range(rng.randrange(1, 5))) if p <= n]
                ch = cut(m, pts)
            cases.append('dg %s %s' % (a, msg_tok(ch)))
        # object reuse: 2..4 messages through one object, boundary lengths, stale buffer content
        for _ in range(ctx.scale(120, 1200) if model_side else ctx.scale(300, 3000)):
            k = rng.randrange(2, 5)
            toks = []
            for _ in range(k):
                n = rng.choice([0, 0, 1, B // 2, B - 9, B - 8, B - 1, B, B + 1, 2 * B - 9, 2 * B - 8, 2 * B, rng.randrange(0, 400)])
                m = rbytes(rng, max(n, 0))
                toks.append(msg_tok(rand_cuts(rng, m, rng.randrange(0, 4), empties=rng.random() < 0.3) if rng.random() < 0.8 else ([m] if m else [])))
            cases.append('dg %s %s' % (a, ' '.join(toks)))
    return cases


def gen_hmac_cases(ctx, algos, model_side):
    rng = ctx.rng
    cases = []
    for a in algos:
        B = BLOCK[a]
        klens = [0, 1, DSZ[a] - 1, DSZ[a], DSZ[a] + 1, B - 1, B, B + 1, 2 * B - 1, 2 * B, 2 * B + 1, 3 * B]
        mlens = [0, 1, B - 9, B - 8, B - 1, B, B + 1, 2 * B - 8, 2 * B, 200, 300]
        for kl in klens:
            for ml in mlens:
                if model_side and ctx.quick() and rng.random() < 0.4 and ml not in (0, B - 8, B):
                    continue
                k, m = rbytes(rng, kl), rbytes(rng, ml)
                cases.append('hm %s %s %s' % (a, hexs(k), msg_tok(rand_cuts(rng, m, rng.randrange(0, 3)) if rng.random() < 0.6 else [m])))
        for _ in range(ctx.scale(100, 1000) if model_side else ctx.scale(300, 3000)):
            kl = rng.choice(klens + [rng.randrange(0, 3 * B + 1)])
            k = rbytes(rng, kl)
            toks = []
            for _ in range(rng.randrange(1, 5)):
                m = rbytes(rng, rng.choice(mlens + [rng.randrange(0, 600)]))
                toks.append(msg_tok(rand_cuts(rng, m, rng.randrange(0, 4)) if rng.random() < 0.8 else ([m] if m else [])))
            cases.append('hm %s %s %s' % (a, hexs(k), ' '.join(toks)))
    return cases


SHA1_BLOCK_SHAPE = (
    r'unsignedintw\[80\];for\(std::size_ti=0;i<16;\+\+i\)\{w\[i\]=\(block_\[i\*4\+0\]<<24\);w\[i\]\|=\(block_\[i\*4\+1\]<<16\);'
    r'w\[i\]\|=\(block_\[i\*4\+2\]<<8\);w\[i\]\|=\(block_\[i\*4\+3\]\);\}'
    r'for\(std::size_ti=16;i<80;\+\+i\)\{w\[i\]=left_rotate\(\(w\[i-(\d+)\]\^w\[i-(\d+)\]\^w\[i-(\d+)\]\^w\[i-(\d+)\]\),(\d+)\);\}'
    r'unsignedinta=h_\[0\];unsignedintb=h_\[1\];unsignedintc=h_\[2\];unsignedintd=h_\[3\];unsignedinte=h_\[4\];'
    r'for\(std::size_ti=0;i<80;\+\+i\)\{unsignedintf;unsignedintk;'
    r'if\(i<(\d+)\)\{f=\(b&c\)\|\(~b&d\);k=(0x[0-9A-Fa-f]+);\}'
    r'elseif\(i<(\d+)\)\{f=b\^c\^d;k=(0x[0-9A-Fa-f]+);\}'
    r'elseif\(i<(\d+)\)\{f=\(b&c\)\|\(b&d\)\|\(c&d\);k=(0x[0-9A-Fa-f]+);\}'
    r'else\{f=b\^c\^d;k=(0x[0-9A-Fa-f]+);\}'
    r'unsignedtemp=left_rotate\(a,(\d+)\)\+f\+e\+k\+w\[i\];e=d;d=c;c=left_rotate\(b,(\d+)\);b=a;a=temp;\}'
    r'h_\[0\]\+=a;h_\[1\]\+=b;h_\[2\]\+=c;h_\[3\]\+=d;h_\[4\]\+=e;')


def gen_sha1_consts():
    """Text extractor for private/sha1.h: process_block() must have exactly the known shape (any edit is reported as a broken
    tie for review); its numbers (schedule offsets and rotation, round thresholds, K constants, rotation amounts) and the
    constants of reset() go to coq/gen/Gen_C16_sha1consts.v; Link.v proves them equal to the model's."""
    src = open(os.path.join(vlib.REPO, 'private', 'sha1.h')).read()
    src = re.sub(r'//[^\n]*', '', src)
    m = re.search(r'inline void sha1::process_block\(\)\s*\{(.*?)\n\}', src, re.S)
    if not m:
        raise ExtractError('sha1::process_block() not found')
    mm = re.fullmatch(SHA1_BLOCK_SHAPE, _norm(m.group(1)))
    if not mm:
        raise ExtractError('sha1::process_block() does not have the expected shape')
    g = mm.groups()
    offs, srot = [int(x) for x in g[0:4]], int(g[4])
    thr = [int(g[5]), int(g[7]), int(g[9])]
    ks = [int(g[6], 16), int(g[8], 16), int(g[10], 16), int(g[11], 16)]
    rota, rotb = int(g[12]), int(g[13])
    r = re.search(r'inline void sha1::reset\(\)\s*\{(.*?)\n\}', src, re.S)
    if not r:
        raise ExtractError('sha1::reset() not found')
    rb = _norm(r.group(1))
    h = []
    for i in range(5):
        x = re.search(r'h_\[%d\]=(0x[0-9A-Fa-f]+);' % i, rb)
        if not x:
            raise ExtractError('sha1::reset(): h_[%d] not recognised' % i)
        h.append(int(x.group(1), 16))
    if 'block_byte_index_=0;byte_count_=0;' not in rb:
        raise ExtractError('sha1::reset(): counters not reset')
    L = lambda v: '[%s]' % '; '.join(str(x) for x in v)
    txt = ('(* GENERATED by checks/C16.py (gen_sha1_consts) from private/sha1.h -- do not edit *)\n'
           'From Coq Require Import ZArith List.\nImport ListNotations.\nLocal Open Scope Z_scope.\n'
           'Definition g_sha1_sched_offsets : list Z := %s.\nDefinition g_sha1_sched_rot : Z := %d.\n'
           'Definition g_sha1_thresholds : list Z := %s.\nDefinition g_sha1_K : list Z := %s.\n'
           'Definition g_sha1_rot_a : Z := %d.\nDefinition g_sha1_rot_b : Z := %d.\nDefinition g_sha1_h0 : list Z := %s.\n'
           % (L(offs), srot, L(thr), L(ks), rota, rotb, L(h)))
    with vlib.Lock('gen-Gen_C16_sha1consts'):
        vlib.write_if_changed(os.path.join(vlib.COQ, 'gen', 'Gen_C16_sha1consts.v'), txt)


HEXCH = b'0123456789abcdefABCDEF'


def gen_key_cases(ctx):
    rng = ctx.rng
    cases = []
    alpha = [b'0', b'9', b'a', b'f', b'A', b'F', b'g', b'G', b'/', b':', b'@', b'`', b' ', b'\n', b'\x00', b'\xff']
    import itertools
    for ln in range(0, 4):
        for t in itertools.product(alpha, repeat=ln):
            s = b''.join(t)
            cases.append('key ' + hexs(s))
            cases.append('keyf ' + hexs(s))
    for c in range(256):
        cases.append('key ' + hexs(bytes([c, 0x31])))
        cases.append('key ' + hexs(bytes([0x32, c])))
    for _ in range(ctx.scale(400, 4000)):
        n = rng.choice([0, 1, 2, 3, 16, 31, 32, 33, 40, 64, 65, rng.randrange(0, 200)])
        s = bytes(rng.choice(HEXCH) for _ in range(n))
        if rng.random() < 0.25 and n:
            i = rng.randrange(n)
            s = s[:i] + bytes([rng.choice(b'gG/:@` xyz\x00\x80')]) + s[i + 1:]
        cases.append('key ' + hexs(s))
        tail = bytes(rng.choice(b' \n\r\t') for _ in range(rng.randrange(0, 4)))
        if rng.random() < 0.1:
            tail += b'\x0b'          # vertical tab is not stripped
        cases.append('keyf ' + hexs(s + tail))
        cases.append('keyf ' + hexs(rbytes(rng, rng.randrange(0, 3)) + s + tail))
    return cases


def gen_hexkey_cases(ctx):
    rng = ctx.rng
    cases = ['hexkey -'] + ['hexkey %02x' % b for b in range(256)]
    for _ in range(ctx.scale(300, 3000)):
        cases.append('hexkey ' + hexs(rbytes(rng, rng.choice([1, 2, 15, 16, 20, 24, 32, 64, rng.randrange(1, 200)]))))
    return cases


def gen_name_cases(ctx):
    rng = ctx.rng
    cases = []
    names = ['md5', 'sha1', 'sha224', 'sha256', 'sha384', 'sha512', 'MD5', 'Sha1', 'SHA256', 'sHa512', 'sha', 'sha2', 'sha-1', 'md4', '',
             'sha1 ', ' md5', 'sha5120', 'md5\x00', 'SHA384', 'sha225', '\xcd\xc4\xb5', 'md\x15']
    for n in names:
        cases.append('name ' + hexs(n.encode('latin-1')))
    for _ in range(ctx.scale(200, 2000)):
        n = bytearray(rng.choice(names[:6]).encode())
        for i in range(len(n)):
            r = rng.random()
            if r < 0.3:
                n[i] = n[i] ^ 0x20
            elif r < 0.33:
                n[i] = rng.randrange(256)
        if rng.random() < 0.1:
            n += bytes([rng.randrange(256)])
        cases.append('name ' + hexs(bytes(n)))
    return cases


CBC_NAMES = {'aes': 16, 'AES': 16, 'aes128': 16, 'aes-128': 16, 'AES128': 16, 'AES-128': 16, 'aes192': 24, 'aes-192': 24, 'AES192': 24,
             'AES-192': 24, 'aes256': 32, 'aes-256': 32, 'AES256': 32, 'AES-256': 32}


def gen_cbcname_cases(ctx):
    rng = ctx.rng
    names = list(CBC_NAMES) + ['', 'Aes', 'aes 128', 'aes_128', 'aes-', 'aes1280', 'AES-128 ', 'aes512', 'aes64', 'des', 'aes\x00', 'Aes128', 'aES256', 'aes--128', '128', 'AES-192-cbc']
    cases = ['cbcname ' + hexs(n.encode('latin-1')) for n in names]
    for _ in range(ctx.scale(150, 1500)):
        n = bytearray(rng.choice(list(CBC_NAMES)).encode())
        r = rng.random()
        if r < 0.4:
            i = rng.randrange(len(n))
            n[i] = n[i] ^ 0x20 if rng.random() < 0.6 else rng.randrange(256)
        elif r < 0.55:
            n += bytes([rng.choice(b' 0-\x00c')])
        elif r < 0.7 and len(n) > 1:
            del n[rng.randrange(len(n))]
        cases.append('cbcname ' + hexs(bytes(n)))
    return cases


def gen_cbcst_cases(ctx):
    rng = ctx.rng
    cases = []
    import itertools
    for bits in (128, 192, 256):
        ks = bits // 8
        ops = ['k%d' % ks, 'k%d' % (ks - 1), 'k0', 'i16', 'i15', 'n', 'e', 'd']
        for ln in range(0, 4):
            for t in itertools.product(ops, repeat=ln):
                cases.append('cbcst %d %s' % (bits, ' '.join(t)))
        for _ in range(ctx.scale(100, 1000)):
            t = [rng.choice(ops + ['k16', 'k24', 'k32', 'k%d' % (ks + 1), 'i17', 'i0', 'i32']) for _ in range(rng.randrange(4, 9))]
            cases.append('cbcst %d %s' % (bits, ' '.join(t)))
    return cases


# NIST SP 800-38A F.2.1/F.2.3/F.2.5 (CBC-AES128/192/256 encrypt), plaintext shared
NIST_PT = '6bc1bee22e409f96e93d7e117393172aae2d8a571e03ac9c9eb76fac45af8e5130c81c46a35ce411e5fbc1191a0a52eff69f2445df4f9b17ad2b417be66c3710'
NIST_IV = '000102030405060708090a0b0c0d0e0f'
NIST = {
    128: ('2b7e151628aed2a6abf7158809cf4f3c',
          '7649abac8119b246cee98e9b12e9197d5086cb9b507219ee95db113a917678b273bed6b8e3c1743b7116e69e222295163ff1caa1681fac09120eca307586e1a7'),
    192: ('8e73b0f7da0e6452c810f32b809079e562f8ead2522c6b7b',
          '4f021db243bc633d7178183a9fa071e8b4d9ada9ad7dedf4e5e738763f69145a571b242012fb7ae07fa9baac3df102e008b0e27988598881d920a9e64f5615cd'),
    256: ('603deb1015ca71be2b73aef0857d77811f352c073b6108d72d9810a30914dff4',
          'f58c4c04d6e5f1ba779eabfb5f7bfbd69cfc4e967edb808d679f777bc6702c7d39f23369a9d9bacfa530e26304231461b2eb05e2c39be9fcda6c19078c6a9d1b'),
}


def gen_cbc_cases(ctx):
    rng = ctx.rng
    cases = []
    for bits, (k, _) in NIST.items():
        pt = unhex(NIST_PT)
        cases.append('cbc %d %s %s %s' % (bits, k, NIST_IV, msg_tok([pt])))
        cases.append('cbc %d %s %s %s' % (bits, k, NIST_IV, msg_tok(cut(pt, [16, 48]))))
        cases.append('cbc %d %s %s %s' % (bits, k, NIST_IV, msg_tok([pt[:16]])))
    for bits in (128, 192, 256):
        for nb in list(range(0, 12)) + [16, 31, 32, 33, 64, 255, 256]:
            for _ in range(ctx.scale(3, 20)):
                k, iv, p = rbytes(rng, bits // 8), rbytes(rng, 16), rbytes(rng, 16 * nb)
                pts = [16 * rng.randrange(0, nb + 1) for _ in range(rng.randrange(0, 4))]
                cases.append('cbc %d %s %s %s' % (bits, hexs(k), hexs(iv), msg_tok(cut(p, pts)) if nb else '.'))
        # structured plaintexts: zero blocks, repeated blocks, plaintext equal to the IV
        for _ in range(ctx.scale(10, 100)):
            k, iv = rbytes(rng, bits // 8), rbytes(rng, 16)
            b = rng.choice([bytes(16), iv, rbytes(rng, 16)])
            cases.append('cbc %d %s %s %s' % (bits, hexs(k), hexs(iv), msg_tok([b * rng.randrange(1, 6)])))
    return cases


def gen_big_cases(ctx):
    """messages long enough for the carries of the length counters: 2^29 bytes = 2^32 bits (md5 count[0] -> count[1],
    the 32-bit length field the bundled SHA-1 used to write)"""
    rng = ctx.rng
    n = 2 ** 29 + rng.randrange(0, 70)
    cases = ['big md5 %d %d' % (n, 2 ** 24 + rng.randrange(0, 64))]
    # one append call of 2^29 bytes or more: the only way to reach the high word update `count[1] += nbytes >> 29` of md5_append
    # (found missing by mutation testing: with 16 MiB chunks nbytes >> 29 is always 0); the harness needs a 512 MiB buffer for a moment
    cases.append('big md5 %d %d' % (2 ** 29 + 2 ** 22 + rng.randrange(0, 70), 2 ** 29 + rng.randrange(0, 64)))
    if not ctx.quick():
        cases.append('big sha1 %d %d' % (2 ** 29 + rng.randrange(0, 70), 2 ** 24 + rng.randrange(0, 64)))
        cases.append('big sha1 %d %d' % (2 ** 29 - 1, 2 ** 20))
        cases.append('big md5 %d %d' % (3 * 2 ** 29 + rng.randrange(0, 70), 2 ** 26 + rng.randrange(0, 64)))
        cases.append('big sha256 %d %d' % (2 ** 29 + rng.randrange(0, 70), 2 ** 24))
    return cases


BIG_PAT = bytes(range(251)) * 4177


def big_digest(algo, n):
    h = hashlib.new(algo)
    for _ in range(n // len(BIG_PAT)):
        h.update(BIG_PAT)
    h.update(BIG_PAT[:n % len(BIG_PAT)])
    return h.digest()


def gen_rekey_cases(ctx):
    rng = ctx.rng
    cases = []
    for bits in (128, 192, 256):
        for used in (0, 1):
            for _ in range(ctx.scale(4, 30)):
                k1, k2, iv = rbytes(rng, bits // 8), rbytes(rng, bits // 8), rbytes(rng, 16)
                cases.append('rekey %d %s %s %s %s %d' % (bits, hexs(k1), hexs(k2), hexs(iv), hexs(rbytes(rng, 16 * rng.randrange(1, 4))), used))
    return cases


def gen_cbcobj_cases(ctx):
    """one object, calls with real operands in any order: the first accepted key is THE key.  Aimed at: set_key before/after
    the first encrypt and the first decrypt (the key schedules are expanded lazily, once per direction), keys of the same and
    of other sizes, the same key again, the empty key, set_iv restarts, calls refused before key/IV, decrypting what the
    object (or its twin) encrypted."""
    rng = ctx.rng
    cases = []
    for bits in (128, 192, 256):
        ks = bits // 8
        k1, k2, iv = bytes(range(ks)), bytes(range(16, 16 + ks)), bytes(16)
        p = bytes.fromhex('00112233445566778899aabbccddeeff')
        K, I, E, D = (lambda x: 'k' + hexs(x)), (lambda x: 'i' + hexs(x)), (lambda x: 'e' + hexs(x)), (lambda x: 'd' + hexs(x))
        # the repaired defect and its neighbours
        fixed = [
            [K(k1), I(iv), E(p), K(k2), I(iv), E(p)],
            [K(k1), I(iv), D(p), K(k2), I(iv), D(p), E(p)],
            [K(k1), K(k2), I(iv), E(p), D(p)],
            [K(k1), I(iv), E(p), K(k2), D(p)],              # decrypt schedule expanded after the refused set_key
            [K(k1), I(iv), D(p), K(k2), E(p)],
            [K(k1), I(iv), E(p), K(k1), E(p)],
            [K(k1), I(iv), E(p), K(b''), E(p), K(k2[:-1]), E(p), K(k2 + b'x'), E(p)],
            [K(k2[:-1]), K(b''), K(k2), K(k1), I(iv), E(p)],
            [E(p), D(p), I(iv), E(p), K(k1), E(p)],
            [K(k1), E(p), I(iv[:-1]), E(p), I(iv + b'x'), D(p), I(iv), E(b''), E(p), E(p + p)],
        ]
        for ops in fixed:
            cases.append('cbcobj %d %s' % (bits, ' '.join(ops)))
        ref = aes_ref()
        for _ in range(ctx.scale(120, 1200)):
            keys = [rbytes(rng, ks), rbytes(rng, ks)]
            ops = []
            mode = rng.random()
            if mode < 0.75:
                ops = [K(keys[0]), I(rbytes(rng, 16))]
                if rng.random() < 0.3:
                    ops.reverse()
            cur_key, cur_iv, last_c = keys[0], None, None
            for _ in range(rng.randrange(2, 9)):
                r = rng.random()
                if r < 0.25:
                    ops.append(K(rng.choice([keys[1], keys[1], keys[0], rbytes(rng, rng.choice([0, 1, 15, 16, 17, 23, 24, 25, 31, 32, 33]))])))
                elif r < 0.4:
                    cur_iv = rbytes(rng, rng.choice([16, 16, 16, 15, 17, 0]))
                    ops.append(I(cur_iv))
                elif r < 0.72:
                    pl = rbytes(rng, 16 * rng.choice([0, 1, 1, 2, 3]))
                    if rng.random() < 0.3 and cur_iv is not None and len(cur_iv) == 16:
                        # remember what a one-key object makes of it right after set_iv, to feed it back to decrypt later
                        last_c = ref.cbc_encrypt(bits, cur_key, cur_iv, pl) if ops and ops[-1][0] == 'i' else last_c
                    ops.append(E(pl))
                else:
                    ops.append(D(last_c if (last_c and rng.random() < 0.5) else rbytes(rng, 16 * rng.choice([0, 1, 1, 2, 3]))))
            cases.append('cbcobj %d %s' % (bits, ' '.join(ops)))
    return cases


def gen_sess_cases(ctx):
    rng = ctx.rng
    cases = []
    for _ in range(ctx.scale(150, 1500)):
        a = rng.choice(ALGOS)
        k = rbytes(rng, rng.choice([16, 20, 32, 63, 64, 65, 128, 129, 200]))
        p = rbytes(rng, rng.choice([0, 1, 11, 12, 13, 27, 28, 29, 55, 56, 64, 100, rng.randrange(0, 300)]))
        cases.append('sess hmac %s %s %s' % (a, hexs(k), hexs(p)))
    for _ in range(ctx.scale(150, 1500)):
        bits = rng.choice([128, 192, 256])
        a = rng.choice(ALGOS)
        ck = rbytes(rng, bits // 8)
        mk = rbytes(rng, rng.choice([1, 16, DSZ[a], 64, 65, 129]))
        p = rbytes(rng, rng.choice([0, 1, 11, 12, 13, 27, 28, 29, 43, 44, 45, 100, rng.randrange(0, 300)]))
        cases.append('sess aes %s %s %s %s %s' % (rng.choice(['aes%d', 'AES%d', 'aes-%d', 'AES-%d']) % bits, a, hexs(ck), hexs(mk), hexs(p)))
    return cases


def make_aes_cookie(bits, ck, a, mk, iv, plain, size_field=None, pad_to=None, fill=0):
    """what aes_cipher::encrypt writes, built here with the reference AES and Python hmac; size_field / pad_to / fill let the
    generator make authentic cookies (valid MAC) whose inner length field or padding is unusual"""
    n = len(plain)
    body_len = pad_to if pad_to is not None else (n + 4 + 15) // 16 * 16 + 16
    inner = bytes(16) + struct.pack('<I', (n if size_field is None else size_field) & 0xffffffff) + plain
    inner = (inner + bytes([fill]) * body_len)[:body_len]
    body = aes_ref().cbc_encrypt(bits, ck, iv, inner)
    return body + pyhmac.new(mk, body, a).digest()


def gen_sessd_cases(ctx):
    """cookies made by the check and handed to hmac_cipher::decrypt / aes_cipher::decrypt: authentic ones at the boundaries of every
    test of decrypt (total size, whole blocks, at least two blocks, MAC, inner length field against the space available) and
    broken ones on the other side of each test.  md5/sha1 lines also run on the extracted model of the two decrypt functions."""
    rng = ctx.rng
    cases = []
    for _ in range(ctx.scale(120, 1200)):
        a = rng.choice(ALGOS if rng.random() < 0.5 else list(MODELLED))
        k = rbytes(rng, rng.choice([16, 17, 20, 64, 65, 100]))      # hmac_cipher refuses keys shorter than 16 bytes
        p = rbytes(rng, rng.choice([0, 1, 2, 15, 16, 17, 40, rng.randrange(0, 120)]))
        c = p + pyhmac.new(k, p, a).digest()
        r = rng.random()
        if r < 0.35:
            pass
        elif r < 0.5:
            c = c[:rng.randrange(0, len(c))]                      # truncated (shorter than the digest included)
        elif r < 0.65:
            i = rng.choice([0, len(c) - 1, len(c) - DSZ[a], max(0, len(c) - DSZ[a] - 1), rng.randrange(len(c))])
            c = c[:i] + bytes([c[i] ^ (1 << rng.randrange(8))]) + c[i + 1:]
        elif r < 0.75:
            c = p + pyhmac.new(k + b'x', p, a).digest()
        elif r < 0.85:
            c = c + bytes([rng.randrange(256)])
        else:
            c = rbytes(rng, rng.choice([0, DSZ[a] - 1, DSZ[a], DSZ[a] + 1]))
        cases.append('sessd hmac %s %s %s' % (a, hexs(k), hexs(c)))
    for _ in range(ctx.scale(260, 2600)):
        bits = rng.choice([128, 192, 256])
        a = rng.choice(ALGOS if rng.random() < 0.4 else list(MODELLED))
        d = DSZ[a]
        ck, mk, iv = rbytes(rng, bits // 8), rbytes(rng, rng.choice([1, 16, d, 64, 65])), rbytes(rng, 16)
        n = rng.choice([0, 1, 11, 12, 13, 27, 28, 29, rng.randrange(0, 100)])
        p = rbytes(rng, n)
        nat = (n + 4 + 15) // 16 * 16 + 16
        r = rng.random()
        if r < 0.22:
            c = make_aes_cookie(bits, ck, a, mk, iv, p)
        elif r < 0.32:
            # authentic, length field at / just beyond what the body can hold
            room = nat - 20
            c = make_aes_cookie(bits, ck, a, mk, iv, rbytes(rng, room), size_field=rng.choice([room, room, room + 1, room + 2, 2 ** 32 - 1, 2 ** 31, room + 16]), pad_to=nat)
        elif r < 0.40:
            # authentic, length field smaller than the text that is there, non-zero padding
            c = make_aes_cookie(bits, ck, a, mk, iv, p, size_field=rng.randrange(0, n + 1), fill=rng.randrange(256))
        elif r < 0.48:
            # authentic but too few blocks: only the IV block / IV block + nothing
            c = make_aes_cookie(bits, ck, a, mk, iv, b'', pad_to=rng.choice([16, 16, 0, 32]))
        elif r < 0.56:
            # authentic (MAC over the body) but the body is not made of whole blocks
            body = rbytes(rng, rng.choice([17, 31, 33, 47, nat - 1, nat + 1]))
            c = body + pyhmac.new(mk, body, a).digest()
        elif r < 0.66:
            c = make_aes_cookie(bits, ck, a, mk, iv, p)
            i = rng.choice([0, 15, 16, 19, 20, len(c) - 1, len(c) - d, len(c) - d - 1, rng.randrange(len(c))])
            c = c[:i] + bytes([c[i] ^ (1 << rng.randrange(8))]) + c[i + 1:]
        elif r < 0.74:
            c = make_aes_cookie(bits, ck, a, mk, iv, p)
            c = c[:rng.choice([0, 1, d, d + 15, d + 16, d + 17, len(c) - 16, len(c) - 1])]
        elif r < 0.82:
            c = make_aes_cookie(bits, ck, a, mk + b'y', iv, p)          # MAC under another key
        elif r < 0.90:
            # authentic cookie with extra whole blocks in front (first block is thrown away, the second must carry the length)
            c0 = make_aes_cookie(bits, ck, a, mk, iv, p)
            body = rbytes(rng, 16) + c0[:-d]
            c = body + pyhmac.new(mk, body, a).digest()
        else:
            c = rbytes(rng, rng.choice([0, 1, d + 15, d + 16, d + 32, d + 48]))
        cases.append('sessd aes %s %s %s %s %s' % (rng.choice(['aes%d', 'AES-%d']) % bits, a, hexs(ck), hexs(mk), hexs(c)))
    return cases


def gen_sessk_cases(ctx):
    """aes_factory(algo, key): ONE configured key.  |key| = cbc key size + 20: split; otherwise |key| >= cbc key size: both keys
    derived with HMAC-SHA256 (|key| <= 32) or HMAC-SHA512 of "0" / "\\1"; shorter: refused."""
    rng = ctx.rng
    cases = []
    for bits in (128, 192, 256):
        ks = bits // 8
        for kl in [0, 1, ks - 1, ks, ks + 1, ks + 19, ks + 20, ks + 21, 32, 33, 64, 65, 100]:
            for _ in range(ctx.scale(2, 10)):
                cases.append('sessk %s %s %s' % (rng.choice(['aes%d', 'aes-%d', 'AES%d']) % bits, hexs(rbytes(rng, kl)), hexs(rbytes(rng, rng.choice([0, 5, 12, 13, 40])))))
    cases.append('sessk aes512 %s 00' % hexs(bytes(64)))
    cases.append('sessk des %s 00' % hexs(bytes(36)))
    return cases


def gen_cases(ctx):
    """returns (cases run on both model and implementation, cases run on the implementation only)"""
    both = (gen_digest_cases(ctx, MODELLED, True) + gen_hmac_cases(ctx, MODELLED, True) + gen_key_cases(ctx) + gen_hexkey_cases(ctx)
            + gen_name_cases(ctx) + gen_cbcname_cases(ctx) + gen_cbcst_cases(ctx) + gen_cbc_cases(ctx) + gen_cbcobj_cases(ctx))
    sd = gen_sessd_cases(ctx)
    both += [l for l in sd if modelled(l)]
    impl = (gen_digest_cases(ctx, ALGOS, False) + gen_hmac_cases(ctx, ALGOS, False) + gen_rekey_cases(ctx) + gen_sess_cases(ctx) + [l for l in sd if not modelled(l)] + gen_sessk_cases(ctx) + gen_big_cases(ctx))
    # the sampled SHA-2 lines also run on the model (md5/sha1 have their own model-side grid above)
    sha2 = lambda l: l.split()[0] in ('dg', 'hm') and l.split()[1] not in MODELLED and modelled(l)
    both += [l for l in impl if sha2(l)]
    impl = [l for l in impl if not sha2(l)]
    rng = ctx.rng
    # long messages (implementation vs independent implementation only)
    for n in ([5000, 65535, 65536, 65537] if ctx.quick() else [5000, 65535, 65536, 65537, 262144, 1048576, 1048577, 3000001]):
        m = rbytes(rng, n)
        for a in ALGOS:
            impl.append('dg %s %s' % (a, msg_tok(rand_cuts(rng, m, rng.randrange(0, 5)))))
            impl.append('hm %s %s %s' % (a, hexs(rbytes(rng, rng.choice([20, 64, 129]))), msg_tok(rand_cuts(rng, m, 2))))
    return both, impl


# ------------------------------------------------------------------------------------------------
# independent references
# ------------------------------------------------------------------------------------------------
class PyAes:
    """FIPS-197 written here from the standard (S-box computed from the field inverse + affine map): reference of last resort
    and cross-check of the libcrypto primitive; slow, used on small volumes only"""
    def __init__(self):
        def xt(a):
            a <<= 1
            return (a ^ 0x11b) & 0xff if a & 0x100 else a
        def mul(a, b):
            r = 0
            while b:
                if b & 1:
                    r ^= a
                a = xt(a)
                b >>= 1
            return r
        self.mul = mul
        inv = [0] * 256
        for a in range(1, 256):
            for b in range(1, 256):
                if mul(a, b) == 1:
                    inv[a] = b
                    break
        rot = lambda x, n: ((x << n) | (x >> (8 - n))) & 0xff
        self.sbox = [inv[a] ^ rot(inv[a], 1) ^ rot(inv[a], 2) ^ rot(inv[a], 3) ^ rot(inv[a], 4) ^ 0x63 for a in range(256)]
        self.isbox = [0] * 256
        for a, b in enumerate(self.sbox):
            self.isbox[b] = a
        self.m = {c: [mul(x, c) for x in range(256)] for c in (2, 3, 9, 11, 13, 14)}
        self.cache = {}

    def expand(self, key):
        if key in self.cache:
            return self.cache[key]
        nk = len(key) // 4
        nr = nk + 6
        w = [list(key[4 * i:4 * i + 4]) for i in range(nk)]
        rc = 1
        for i in range(nk, 4 * (nr + 1)):
            t = list(w[i - 1])
            if i % nk == 0:
                t = [self.sbox[x] for x in t[1:] + t[:1]]
                t[0] ^= rc
                rc = self.mul(rc, 2)
            elif nk > 6 and i % nk == 4:
                t = [self.sbox[x] for x in t]
            w.append([a ^ b for a, b in zip(w[i - nk], t)])
        rk = [sum(w[4 * r:4 * r + 4], []) for r in range(nr + 1)]
        if len(self.cache) > 64:
            self.cache.clear()
        self.cache[key] = rk
        return rk

    def enc_block(self, key, b):
        rk = self.expand(key)
        nr = len(rk) - 1
        s = [x ^ k for x, k in zip(b, rk[0])]
        m2, m3 = self.m[2], self.m[3]
        for r in range(1, nr + 1):
            s = [self.sbox[x] for x in s]
            s = [s[(i + 4 * (i % 4)) % 16] for i in range(16)]          # ShiftRows on column-major state
            if r < nr:
                t = []
                for c in range(4):
                    a0, a1, a2, a3 = s[4 * c:4 * c + 4]
                    t += [m2[a0] ^ m3[a1] ^ a2 ^ a3, a0 ^ m2[a1] ^ m3[a2] ^ a3, a0 ^ a1 ^ m2[a2] ^ m3[a3], m3[a0] ^ a1 ^ a2 ^ m2[a3]]
                s = t
            s = [x ^ k for x, k in zip(s, rk[r])]
        return bytes(s)

    def dec_block(self, key, b):
        rk = self.expand(key)
        nr = len(rk) - 1
        m9, m11, m13, m14 = self.m[9], self.m[11], self.m[13], self.m[14]
        s = [x ^ k for x, k in zip(b, rk[nr])]
        for r in range(nr - 1, -1, -1):
            s = [s[(i - 4 * (i % 4)) % 16] for i in range(16)]          # InvShiftRows
            s = [self.isbox[x] for x in s]
            s = [x ^ k for x, k in zip(s, rk[r])]
            if r > 0:
                t = []
                for c in range(4):
                    a0, a1, a2, a3 = s[4 * c:4 * c + 4]
                    t += [m14[a0] ^ m11[a1] ^ m13[a2] ^ m9[a3], m9[a0] ^ m14[a1] ^ m11[a2] ^ m13[a3],
                          m13[a0] ^ m9[a1] ^ m14[a2] ^ m11[a3], m11[a0] ^ m13[a1] ^ m9[a2] ^ m14[a3]]
                s = t
        return bytes(s)


class AesRef:
    """CBC computed here from the single-block primitive of the system libcrypto (ctypes); the openssl
    command line is used as a second reference on a sample; both optional (NIST vectors always apply)."""
    def __init__(self):
        self.lib = None
        self.py = PyAes()
        # self-test of the reference written here: FIPS-197 appendix C.1, C.2, C.3
        for kl, ct in ((16, '69c4e0d86a7b0430d8cdb78070b4c55a'), (24, 'dda97ca4864cdfe06eaf70a0ec0d7191'), (32, '8ea2b7ca516745bfeafc49904b496089')):
            pt = bytes.fromhex('00112233445566778899aabbccddeeff')
            if self.py.enc_block(bytes(range(kl)), pt).hex() != ct or self.py.dec_block(bytes(range(kl)), bytes.fromhex(ct)) != pt:
                raise RuntimeError('PyAes self-test failed')
        self.cli = shutil.which('openssl')
        self.cli_budget = 0
        try:
            import ctypes, ctypes.util
            n = ctypes.util.find_library('crypto')
            lib = ctypes.CDLL(n) if n else None
            if lib is not None and hasattr(lib, 'AES_set_encrypt_key') and hasattr(lib, 'AES_encrypt'):
                self.ct = ctypes
                ks = ctypes.create_string_buffer(512)
                o = ctypes.create_string_buffer(16)
                # self-test with FIPS-197 appendix C.1
                lib.AES_set_encrypt_key(bytes(range(16)), 128, ks)
                lib.AES_encrypt(bytes.fromhex('00112233445566778899aabbccddeeff'), o, ks)
                if o.raw.hex() == '69c4e0d86a7b0430d8cdb78070b4c55a':
                    self.lib = lib
        except Exception:
            self.lib = None

    def py_cbc(self, key, iv, data, enc):
        out = b''
        prev = iv
        for i in range(0, len(data) - 15, 16):
            blk = data[i:i + 16]
            if enc:
                prev = self.py.enc_block(key, bytes(a ^ b for a, b in zip(blk, prev)))
                out += prev
            else:
                out += bytes(a ^ b for a, b in zip(self.py.dec_block(key, blk), prev))
                prev = blk
        return out

    def cbc_encrypt(self, bits, key, iv, plain):
        if self.lib is None:
            return self.py_cbc(key, iv, plain, True) if len(key) * 8 == bits else None
        ks = self.ct.create_string_buffer(512)
        self.lib.AES_set_encrypt_key(key, bits, ks)
        o = self.ct.create_string_buffer(16)
        out = b''
        prev = iv
        for i in range(0, len(plain), 16):
            x = bytes(a ^ b for a, b in zip(plain[i:i + 16], prev))
            self.lib.AES_encrypt(x, o, ks)
            prev = o.raw
            out += prev
        return out

    def cbc_decrypt(self, bits, key, iv, cipher):
        if self.lib is None or not hasattr(self.lib, 'AES_set_decrypt_key'):
            return self.py_cbc(key, iv, cipher, False) if len(key) * 8 == bits else None
        ks = self.ct.create_string_buffer(512)
        self.lib.AES_set_decrypt_key(key, bits, ks)
        o = self.ct.create_string_buffer(16)
        out = b''
        prev = iv
        for i in range(0, len(cipher), 16):
            self.lib.AES_decrypt(cipher[i:i + 16], o, ks)
            out += bytes(a ^ b for a, b in zip(o.raw, prev))
            prev = cipher[i:i + 16]
        return out

    def cli_encrypt(self, bits, key, iv, plain):
        if not self.cli or self.cli_budget <= 0 or not plain:
            return None
        self.cli_budget -= 1
        try:
            p = subprocess.run([self.cli, 'enc', '-aes-%d-cbc' % bits, '-nopad', '-K', key.hex(), '-iv', iv.hex()],
                               input=plain, capture_output=True, timeout=20)
            if p.returncode != 0 or len(p.stdout) != len(plain):
                return None
            return p.stdout
        except Exception:
            return None


AES = None
REFS_USED = {'libcrypto_block': 0, 'python_aes': 0, 'openssl_cli': 0, 'nist_vectors': 0, 'hashlib': 0}


def aes_ref():
    global AES
    if AES is None:
        AES = AesRef()
    return AES


def py_set_hex(s):
    if len(s) == 0:
        return 'ok -'
    if len(s) % 2:
        return 'odd'
    if not re.fullmatch(rb'[0-9a-fA-F]*', s):
        return 'badchar'
    return 'ok ' + hexs(bytes.fromhex(s.decode()))


def py_cbcst(bits, ops):
    """the rule: a key is accepted once (right size); every later set_key is refused, whatever it offers"""
    k = i = False
    out = []
    for op in ops:
        if op[0] == 'k':
            if k:
                out.append('keytwice')
            elif int(op[1:]) == bits // 8:
                k = True
                out.append('ok')
            else:
                out.append('badkey')
        elif op[0] == 'i':
            if int(op[1:]) == 16:
                i = True
                out.append('ok')
            else:
                out.append('badiv')
        elif op == 'n':
            i = True
            out.append('ok')
        else:
            out.append('nokey' if not k else 'noiv' if not i else 'ok')
    return out


def py_cbcobj(bits, ops):
    """what an object that uses the ONE key it was given must answer: statuses, and for every served encrypt/decrypt the CBC
    of the operand under the first accepted key with the running IV of that direction (reference AES, not the object)"""
    ref = aes_ref()
    key = ive = ivd = None
    out = []
    for op in ops:
        t, z = op[0], unhex(op[1:])
        if t == 'k':
            if key is not None:
                out.append('keytwice')
            elif len(z) != bits // 8:
                out.append('badkey')
            else:
                key = z
                out.append('ok')
        elif t == 'i':
            if len(z) != 16:
                out.append('badiv')
            else:
                ive = ivd = z
                out.append('ok')
        elif key is None:
            out.append('nokey')
        elif ive is None:
            out.append('noiv')
        elif t == 'e':
            r = ref.cbc_encrypt(bits, key, ive, z)
            if r:
                ive = r[-16:]
            out.append('ok:' + hexs(r))
        else:
            r = ref.cbc_decrypt(bits, key, ivd, z)
            if z:
                ivd = z[-16:]
            out.append('ok:' + hexs(r))
    return out


def oracle(case, out):
    c = case.split()
    o = out.split()
    op = c[0]
    if out.startswith('<crash'):
        return ('crash-' + op, 'harness died on this input: ' + out)
    if 'OVERRUN' in out:
        return (op + '-writes-outside-buffer', 'readout/encrypt wrote outside the digest_size()/len bytes it owns')
    if 'PATHS-DIFFER' in out:
        return (op + '-construction-paths-differ', 'objects of the same algorithm made in different ways disagree: ' + out[:300])
    if 'EXCEPTION' in out:
        return (op + '-unexpected-exception', out[:300])
    if not o or o[0] != op:
        return ('bad-output-' + op, 'unexpected harness answer ' + out[:200])
    if op == 'dg':
        a = c[1]
        msgs = c[2:]
        if len(o) != 2 + len(msgs) or o[1] != a:
            return ('bad-output-dg', 'unexpected harness answer ' + out[:200])
        REFS_USED['hashlib'] += 1
        for i, tok in enumerate(msgs):
            m = b''.join(parse_msg(tok))
            if unhex(o[2 + i]) != hashlib.new(a, m).digest():
                nch = len(parse_msg(tok))
                what = 'first message' if i == 0 else 'message %d through the same object (state after readout)' % (i + 1)
                return ('%s-digest-wrong%s' % (a, '-after-reuse' if i else ''),
                        '%s of %d bytes fed in %d chunk(s), %s: digest differs from the standard function' % (a, len(m), nch, what))
    elif op == 'hm':
        a = c[1]
        k = unhex(c[2])
        msgs = c[3:]
        if len(o) != 2 + len(msgs) or o[1] != a:
            return ('bad-output-hm', 'unexpected harness answer ' + out[:200])
        REFS_USED['hashlib'] += 1
        for i, tok in enumerate(msgs):
            m = b''.join(parse_msg(tok))
            if unhex(o[2 + i]) != pyhmac.new(k, m, a).digest():
                kc = 'longer than' if len(k) > BLOCK[a] else 'equal to' if len(k) == BLOCK[a] else 'shorter than'
                return ('hmac-%s-wrong%s' % (a, '-after-reuse' if i else ''),
                        'HMAC-%s, key of %d bytes (%s the block), message %d of %d bytes: differs from RFC 2104' % (a, len(k), kc, i + 1, len(m)))
    elif op == 'key':
        if ' '.join(o[1:]) != py_set_hex(unhex(c[1])):
            return ('key-set_hex-wrong', 'set_hex must accept exactly the even-length hexadecimal strings and decode them; got %s expected %s' % (' '.join(o[1:]), py_set_hex(unhex(c[1]))))
    elif op == 'hexkey':
        d = unhex(c[1])
        if len(o) != 3 or unhex(o[1]) != d.hex().encode() or o[2] != 'rt=1':
            return ('key-hex-writer-reader-disagree', 'tohex(%s) = %s, read back by key(std::string): %s' % (c[1], ' '.join(o[1:2]), o[-1]))
    elif op == 'keyf':
        s = unhex(c[1])
        exp = 'emptyfile' if not s else py_set_hex(s.rstrip(b' \n\r\t'))
        if ' '.join(o[1:]) != exp:
            return ('key-read_from_file-wrong', 'key file content parsed as %s, expected %s' % (' '.join(o[1:]), exp))
    elif op == 'name':
        n = unhex(c[1])
        low = bytes(ch + 32 if 65 <= ch <= 90 else ch for ch in n).decode('latin-1')
        exp = 'null' if low not in DSZ else '%s %d %d' % (low, DSZ[low], BLOCK[low])
        if ' '.join(o[1:]) != exp:
            return ('digest-name-dispatch-wrong', 'create_by_name answered %s, expected %s' % (' '.join(o[1:]), exp))
    elif op == 'cbcname':
        n = unhex(c[1]).decode('latin-1')
        exp = '%d 16' % CBC_NAMES[n] if n in CBC_NAMES else 'null'
        if ' '.join(o[1:]) != exp:
            return ('cbc-name-dispatch-wrong', 'cbc::create(%r) answered %s, expected %s' % (n, ' '.join(o[1:]), exp))
    elif op == 'cbcst':
        exp = py_cbcst(int(c[1]), c[2:])
        if o[1:] != exp:
            return ('cbc-status-wrong', 'cbc object accepted/refused calls as %s, expected %s' % (o[1:], exp))
    elif op == 'cbc':
        bits, key, iv = int(c[1]), unhex(c[2]), unhex(c[3])
        plain = b''.join(parse_msg(c[4]))
        if len(o) != 7:
            return ('bad-output-cbc', 'unexpected harness answer ' + out[:200])
        ciph = unhex(o[1])
        flags = dict(x.split('=') for x in o[2:])
        if len(ciph) != len(plain):
            return ('cbc-length', 'ciphertext length differs from plaintext length')
        if flags.get('rt') != '1' or flags.get('rtb') != '1':
            return ('cbc-roundtrip', 'decrypt(encrypt(p)) != p for %d whole blocks, aes-%d (%s)' % (len(plain) // 16, bits, o[2:]))
        if flags.get('chain') != '1':
            return ('cbc-chaining-across-calls', 'encrypting the chunks in separate calls differs from encrypting them in one call')
        if flags.get('reiv') != '1':
            return ('cbc-set_iv-does-not-restart', 'after set_iv the same plaintext encrypts differently')
        if flags.get('ivind') != '1':
            return ('cbc-iv-dependence', 'a decryptor with another IV must differ in block 1 and only there')
        ref = aes_ref()
        if plain and NIST.get(bits, ('', ''))[0] == c[2] and c[3] == NIST_IV and unhex(NIST_PT).startswith(plain):
            REFS_USED['nist_vectors'] += 1
            if unhex(NIST[bits][1])[:len(plain)] != ciph:
                return ('cbc-nist-vector', 'SP 800-38A CBC-AES%d vector not reproduced' % bits)
        r = ref.cbc_encrypt(bits, key, iv, plain)
        if r is not None:
            REFS_USED['libcrypto_block'] += 1
            if r != ciph:
                return ('cbc-ciphertext-wrong', 'ciphertext differs from CBC computed block by block with the raw AES primitive')
        if 0 < len(plain) <= 48 and len(key) * 8 == bits:
            REFS_USED['python_aes'] += 1
            if ref.py_cbc(key, iv, plain, True) != ciph:
                return ('cbc-ciphertext-wrong', 'ciphertext differs from CBC over the FIPS-197 cipher written in the check (pure Python)')
        r = ref.cli_encrypt(bits, key, iv, plain)
        if r is not None:
            REFS_USED['openssl_cli'] += 1
            if r != ciph:
                return ('cbc-ciphertext-wrong', 'ciphertext differs from `openssl enc -aes-%d-cbc -nopad`' % bits)
    elif op == 'big':
        a, n = c[1], int(c[2])
        if len(o) != 3 or unhex(o[2]) != big_digest(a, n):
            return ('%s-digest-wrong-long-message' % a,
                    '%s of %d bytes (>= 2^29: the bit count needs more than 32 bits) fed in chunks of %s: digest differs from the standard function' % (a, n, c[3]))
    elif op == 'rekey':
        flags = dict(x.split('=') for x in o[1:])
        if flags.get('threw') != '1':
            return ('cbc-second-set_key-not-refused',
                    'aes-%s object: a second set_key (%s the first use) did not throw; once a key is set every further set_key must be refused: %s'
                    % (c[1], 'after' if c[6] == '1' else 'before', ' '.join(o[1:])))
        if flags.get('old') != '1' or (c[2] != c[3] and (flags.get('new') == '1' or flags.get('decnew') == '1')):
            return ('cbc-object-not-under-its-one-key',
                    'aes-%s object: after a refused second set_key the object must go on encrypting/decrypting under its first key: %s' % (c[1], ' '.join(o[1:])))
    elif op == 'cbcobj':
        exp = py_cbcobj(int(c[1]), c[2:])
        REFS_USED['python_aes' if aes_ref().lib is None else 'libcrypto_block'] += 1
        if o[1:] != exp:
            i = next((j for j in range(min(len(exp), len(o) - 1)) if o[1 + j] != exp[j]), min(len(exp), len(o) - 1))
            got = o[1 + i] if 1 + i < len(o) else '<missing>'
            want = exp[i] if i < len(exp) else '<nothing>'
            if got.split(':')[0] != want.split(':')[0]:
                return ('cbcobj-status-wrong', 'call %d (%s...) of the sequence answered %s, expected %s' % (i + 1, c[2 + i][:9], got[:40], want[:40]))
            return ('cbcobj-not-cbc-under-its-one-key',
                    'aes-%s object, call %d (%s of %d bytes): output is not CBC of the operand under the first accepted key with the running IV'
                    % (c[1], i + 1, 'encrypt' if c[2 + i][0] == 'e' else 'decrypt', len(unhex(c[2 + i][1:]))))
    elif op == 'sess' and c[1] == 'hmac':
        a, k, p = c[2], unhex(c[3]), unhex(c[4])
        ciph = unhex(o[2])
        flags = dict(x.split('=') for x in o[3:])
        if ciph != p + pyhmac.new(k, p, a).digest():
            return ('session-hmac-format', 'hmac_cipher output is not plain || HMAC-%s(key, plain)' % a)
        if flags.get('dec') != '1' or flags.get('det') != '1':
            return ('session-hmac-roundtrip', 'hmac_cipher does not decrypt its own output: ' + ' '.join(o[3:]))
        if flags.get('forged') != '0':
            return ('session-hmac-accepts-forgery', 'a modified or truncated cookie was accepted')
    elif op == 'sess' and c[1] == 'aes':
        a, ck, mk, p = c[3], unhex(c[4]), unhex(c[5]), unhex(c[6])
        bits = int(re.sub(r'\D', '', c[2]))
        ciph = unhex(o[2])
        flags = dict(x.split('=') for x in o[3:])
        body = (len(p) + 4 + 15) // 16 * 16 + 16
        if len(ciph) != body + DSZ[a]:
            return ('session-aes-size', 'aes_cipher output size %d, expected %d' % (len(ciph), body + DSZ[a]))
        if ciph[body:] != pyhmac.new(mk, ciph[:body], a).digest():
            return ('session-aes-mac', 'aes_cipher trailer is not HMAC-%s(mac key, ciphertext)' % a)
        if flags.get('dec') != '1':
            return ('session-aes-roundtrip', 'aes_cipher does not decrypt its own output (other object, same keys)')
        if flags.get('fresh') != '1':
            return ('session-aes-not-randomised', 'two encryptions of the same plaintext are identical')
        if flags.get('forged') != '0':
            return ('session-aes-accepts-forgery', 'a modified or truncated cookie was accepted')
        d = aes_ref().cbc_decrypt(bits, ck, bytes(16), ciph[:body])
        if d is not None:
            REFS_USED['libcrypto_block'] += 1
            if d[16:20] != struct.pack('<I', len(p)) or d[20:20 + len(p)] != p:
                return ('session-aes-format', 'independent CBC decryption of the cookie does not give length || plain after the first block')
    elif op == 'sessd' and c[1] == 'hmac':
        a, k, ck = c[2], unhex(c[3]), unhex(c[4])
        d = DSZ[a]
        exp = 'fail'
        if len(ck) >= d and pyhmac.compare_digest(pyhmac.new(k, ck[:len(ck) - d], a).digest(), ck[len(ck) - d:]):
            exp = 'ok:' + hexs(ck[:len(ck) - d])
        if ' '.join(o[1:]) != exp:
            return ('session-hmac-decrypt-wrong', 'hmac_cipher::decrypt of a %d-byte cookie answered %s, expected %s' % (len(ck), ' '.join(o[1:])[:60], exp[:60]))
    elif op == 'sessd' and c[1] == 'aes':
        a, ckey, mk, ck = c[3], unhex(c[4]), unhex(c[5]), unhex(c[6])
        bits = int(re.sub(r'\D', '', c[2]))
        d = DSZ[a]
        exp, why = 'fail', ''
        real = len(ck) - d
        if len(ck) < d + 16:
            why = 'shorter than digest + one block'
        elif real % 16:
            why = 'body is not whole blocks'
        elif real // 16 < 2:
            why = 'fewer than two blocks'
        elif not pyhmac.compare_digest(pyhmac.new(mk, ck[:real], a).digest(), ck[real:]):
            why = 'MAC does not match'
        else:
            full = aes_ref().cbc_decrypt(bits, ckey, bytes(16), ck[:real])
            size = struct.unpack('<I', full[16:20])[0]
            if size > real - 20:
                why = 'authentic, but the inner length field %d exceeds the %d bytes available' % (size, real - 20)
            else:
                exp = 'ok:' + hexs(full[20:20 + size])
        if ' '.join(o[1:]) != exp:
            return ('session-aes-decrypt-wrong', 'aes_cipher::decrypt of a %d-byte cookie (%s) answered %s, expected %s'
                    % (len(ck), why or 'authentic and well formed', ' '.join(o[1:])[:60], exp[:60]))
    elif op == 'sessk':
        m = re.fullmatch(r'(?:aes|AES)-?(128|192|256)?', c[1])
        k, p = unhex(c[2]), unhex(c[3])
        if not m:
            exp = 'unsupported'
        else:
            bits = int(m.group(1) or 128)
            ks = bits // 8
            if len(k) == ks + 20:
                ck, mk = k[:ks], k[ks:]
            elif len(k) >= ks:
                h = 'sha256' if len(k) * 8 <= 256 else 'sha512'
                ck, mk = pyhmac.new(k, b'0', h).digest()[:ks], pyhmac.new(k, b'\x01', h).digest()[:20]
            else:
                ck = None
            exp = 'badkeylen' if ck is None else None
        if exp is not None:
            if o[1:] != [exp]:
                return ('session-aes-factory-key-rule', 'aes_factory(%s, key of %d bytes) answered %s, expected %s' % (c[1], len(k), ' '.join(o[1:])[:60], exp))
        else:
            if len(o) != 3 or o[2] != 'dec=1':
                return ('session-aes-factory-roundtrip', 'aes_factory(%s, key of %d bytes): second encryptor does not decrypt the first one-s output: %s' % (c[1], len(k), ' '.join(o[1:])[:80]))
            ck2 = unhex(o[1])
            body = (len(p) + 4 + 15) // 16 * 16 + 16
            if len(ck2) != body + 20 or ck2[body:] != pyhmac.new(mk, ck2[:body], 'sha1').digest():
                return ('session-aes-factory-mac-key', 'aes_factory(%s, key of %d bytes): trailer is not HMAC-SHA1 under the mac key derived by the documented rule' % (c[1], len(k)))
            full = aes_ref().cbc_decrypt(bits, ck, bytes(16), ck2[:body])
            if full[16:20] != struct.pack('<I', len(p)) or full[20:20 + len(p)] != p:
                return ('session-aes-factory-cbc-key', 'aes_factory(%s, key of %d bytes): body does not decrypt under the cbc key derived by the documented rule' % (c[1], len(k)))
    else:
        return ('bad-case', 'unknown case ' + case[:80])
    return None


def total_len(case):
    c = case.split()
    if c[0] == 'dg':
        return [len(b''.join(parse_msg(t))) for t in c[2:]]
    if c[0] == 'hm':
        return [len(b''.join(parse_msg(t))) for t in c[3:]]
    return []


def nontrivial(case, out):
    c = case.split()
    if c[0] in ('dg', 'hm'):
        return any(n > 0 for n in total_len(case))
    if c[0] == 'cbc':
        return c[4] != '.'
    if c[0] == 'cbcst':
        return len(c) > 2
    if c[0] == 'rekey':
        return c[2] != c[3]
    if c[0] == 'cbcobj':
        return ' ok:' in out and any(x[0] in 'ed' and len(x) > 2 for x in c[2:])
    if c[0] in ('key', 'keyf', 'name', 'hexkey', 'cbcname'):
        return c[1] != '-'
    return True


def classify(case, out):
    c = case.split()
    if c[0] in ('dg', 'hm'):
        a = c[1]
        B = BLOCK.get(a, 64)
        msgs = c[2:] if c[0] == 'dg' else c[3:]
        ls = total_len(case)
        n = ls[0] if ls else 0
        r = n % B
        pad = 'pad-2blocks' if r >= B - B // 8 else 'pad-1block'
        size = 'len0' if n == 0 else 'len<B' if n < B else 'len<=4B' if n <= 4 * B else 'len<=4K' if n <= 4096 else 'len>4K'
        nch = len(parse_msg(msgs[0])) if msgs else 0
        ch = 'chunks0-1' if nch <= 1 else 'chunks2' if nch == 2 else 'chunks3+'
        extra = ''
        if c[0] == 'hm':
            kl = len(unhex(c[2]))
            extra = ':key<B' if kl < B else ':key=B' if kl == B else ':key>B'
        return '%s:%s:%s:%s:%s:reuse%d%s' % (c[0], a, size, pad, ch, len(msgs), extra)
    if c[0] == 'cbc':
        return 'cbc:aes%s:%s' % (c[1], 'blocks0' if c[4] == '.' else 'blocks1' if len(b''.join(parse_msg(c[4]))) == 16 else 'blocks2+')
    if c[0] == 'sess':
        return 'sess:' + c[1]
    if c[0] == 'sessd':
        return 'sessd:%s:%s' % (c[1], 'accepted' if ' ok:' in out else 'refused')
    if c[0] == 'sessk':
        return 'sessk:' + ('made' if 'dec=' in out else 'refused')
    if c[0] == 'rekey':
        return 'rekey:used' + c[6]
    if c[0] == 'big':
        return 'big:' + c[1]
    if c[0] == 'cbcobj':
        nk = sum(1 for x in c[2:] if x[0] == 'k')
        return 'cbcobj:aes%s:%s:%s' % (c[1], 'keytwice' if 'keytwice' in out else 'keys%d' % min(nk, 2), 'served' if ' ok:' in out else 'none-served')
    if c[0] in ('key', 'keyf'):
        return c[0] + ':' + (out.split()[1] if len(out.split()) > 1 else '?')
    if c[0] == 'cbcname':
        return 'cbcname:' + ('null' if 'null' in out else 'found')
    if c[0] == 'name':
        return 'name:' + ('null' if 'null' in out else 'found')
    return c[0]


def run(ctx):
    errs = vlib.gen_coq(GEN)
    for n, e in errs:
        ctx.broke('translator cxx2v failed on %s (tie to source broken)' % n, e)
    for fn, genname in ((gen_md5_steps, 'Gen_C16_md5steps'), (gen_sha1_consts, 'Gen_C16_sha1consts')):
        try:
            fn()
        except (ExtractError, OSError) as e:
            ctx.broke('%s extractor failed (tie to source broken)' % fn.__name__, str(e))
            with vlib.Lock('gen-' + genname):
                vlib.write_if_changed(os.path.join(vlib.COQ, 'gen', genname + '.v'),
                                      '(* extractor failed: %s *)\nDefinition broken : False := I.\n' % re.sub(r'[^A-Za-z0-9 ,.:=+-]', ' ', str(e)))
    try:
        check_aes_shapes()
    except (ExtractError, OSError) as e:
        ctx.broke('src/aes.cpp guard shape check failed (tie to source broken)', str(e))
    res = vlib.coq_props('C16', extra_files=['C16/Link.v'])
    ctx.proof(res)
    ctx.coverage['trusted_base'] = [
        'Coq 8.16.1 kernel, vm_compute (table equalities, KAT examples); no native_compute',
        'extraction: ExtrOcamlBasic only, OCaml 4.13.1',
        'tools/cxx2v.py + clang AST (macro bodies of src/md5.cpp through harness/C16_md5probe.cpp, key::from_hex, left_rotate); gen_md5_steps text extractor (SET lines, md5_init)',
        'harness/C16_crypto.cpp, ocaml/C16_driver.ml, checks/C16.py (generators, oracles using Python hashlib/hmac, libcrypto AES block primitive via ctypes, openssl CLI, NIST SP 800-38A vectors)',
        'hand model of the buffering loops of md5_append / sha1 process_byte / get_digest and of the hmac, cbc, key wrappers (coq/C16/Defs.v); FIPS-197 transcription coq/C16/AesDefs.v (KATs C.1-C.3, SP 800-38A); FIPS 180-4 SHA-2 transcription coq/C16/Sha2Defs.v (KATs, RFC 4231)',
        'OpenSSL libcrypto (SHA-2, AES) is outside /repo: only its wrappers are checked',
        'sanitizer pass: g++ AddressSanitizer; src/{aes_encryptor,hmac_encryptor,aes,crypto,md5}.cpp compiled into the harness executable interpose the copies in libcppcms.so']
    ctx.assumptions = ['unsigned int is 32 bits and size_t 64 bits, little-endian host (x86-64): md5_process reads the block as little-endian words',
                       'size_t -> int conversion of the md5 append size is two-s-complement truncation (gcc/clang); chunks of 2^31 bytes or more are outside the proved domain',
                       'the digest handed to hmac::hmac(digest,key) is fresh (nothing appended yet)',
                       'generic CBC theorems: the block cipher satisfies D(E b) = b on 16-byte blocks (premise); the aes_* theorems have no cipher premise (FIPS-197 in Gallina, bytes < 256, key of at least 4 bytes); that OpenSSL computes FIPS-197 is checked by correspondence on the cbc/cbcobj cases, not proved',
                       'cbc object theorems: 0 < key_size() (16, 24, 32 in the code); set_nonce_iv randomness enters as operands of the ONonce operation',
                       'session-cipher theorems: abstract MAC with |mac m| = digest_size, block cipher with D(E b)=b and 16-byte blocks (no cipher premise in the *_real_cipher / session_cookie_* theorems), text shorter than 2^32 bytes; decrypt side extracted and run against the real decrypt functions (sessd), encrypt side (nonce IV inside the object) tied by reading + sess/sessk oracles',
                       'sha1_spec_is_fips180: bytes are < 256',
                       'HMAC theorem: the digest object satisfies the streaming and reset-after-readout facts (proved for MD5 and SHA-1, Section hypotheses for the OpenSSL SHA-2 objects)']
    exe, err = vlib.build_harness('C16_crypto', ['C16_crypto.cpp'])
    if not exe:
        ctx.broke('harness build failed', err)
        return
    # Extract.v imports C16/AesDefs.vo and C16/Sha2Defs.vo: both are dependencies of Props.v, built (make -k) by coq_props above
    mexe, err = vlib.build_model('C16', 'C16_driver.ml', 'c16m')
    if not mexe:
        ctx.broke('model extraction/build failed', err)
    ref = aes_ref()
    ref.cli_budget = ctx.scale(60, 400)
    ctx.coverage['rule'] = ('cases: dg/hm <algo> [key] <messages>, each message a list of append chunks, all messages through ONE object (readout after each). '
                            'Grid: every length 0..300; lengths block*k + {-B/8-1,-B/8,-B/8+1,-2,-1,0,1,2} up to 4 KiB (padding fits / spills / block completes); '
                            'byte-by-byte feeding up to 2 blocks; all 2-cuts of messages <= 130 bytes (quick: boundary lengths + sample); random multi-cuts with '
                            'empty chunks and cuts at the buffer boundary; reuse of one object for 2..4 messages; HMAC keys 0..3 blocks (shorter/equal/longer than the block, '
                            'around the digest size). md5/sha1 cases run on the extracted model too; all six algorithms against hashlib/hmac. key/keyf: all strings '
                            'of length<=3 over a 16-letter alphabet + random hex with faults; cbc: NIST SP 800-38A vectors, 0..256 blocks x 3 key sizes x call splits, '
                            'compared with CBC built from the raw libcrypto block primitive and the openssl CLI; cbcst: all op sequences of length<=3 over 8 ops (+ random longer ones); cbcobj: one real object through call sequences with real keys/IVs/blocks (second set_key before/after first encrypt/decrypt, other sizes, empty key, set_iv restarts), model = FIPS-197 object model, oracle = one-key rule recomputed with the raw block primitive; big: md5 (thorough: sha1, sha256 too) of 2^29+x generated bytes (bit-count carries); rekey: second set_key before/after use must throw and keep the first key; '
                            'sess: hmac_cipher/aes_cipher format, roundtrip, every single-bit forgery; sessd: cookies made by the check (authentic at every boundary of decrypt: inner length field =/> room, two blocks, IV block only, body not whole blocks, extra leading blocks; and broken ones) through the real decrypt functions, md5/sha1 lines also on the extracted hc_decrypt/ac_decrypt with the FIPS-197 cipher; sessk: aes_factory(algo,key) key split/stretch rule. Non-trivial = some message non-empty / some block / non-empty text; '
                            'distinct = distinct case lines.')
    ctx.coverage['exhaustive'] = False
    if ctx.replay_cases is not None:
        both = [l for l in ctx.replay_cases if modelled(l)]
        impl = [l for l in ctx.replay_cases if not modelled(l)]
    else:
        corp = vlib.corpus_cases('C16')
        both, impl = gen_cases(ctx)
        both = [l for l in corp if modelled(l)] + both
        impl = [l for l in corp if not modelled(l)] + impl
    if both:
        vlib.differential(ctx, both, exe, mexe, oracle, nontrivial, classify)
    if impl:
        vlib.differential(ctx, impl, exe, None, oracle, nontrivial, classify, what='implementation vs independent reference')
    # sanitizer pass: the anchored sources compiled INTO the harness with AddressSanitizer (they interpose the library's copies), so that
    # over-reads / over-writes that do not change an answer (e.g. a relaxed size check in aes_cipher::decrypt) still fail the check
    sexe, err = vlib.build_harness('C16_crypto_san', ['C16_crypto.cpp'] + [os.path.join(vlib.REPO, 'src', f) for f in SAN_SOURCES],
                                   extra=['-fsanitize=address', '-fno-omit-frame-pointer', '-Wl,--no-as-needed', '-lcrypto'])
    if not sexe:
        ctx.broke('sanitizer harness build failed (anchored sources no longer compile on their own?)', err)
    else:
        small = [l for l in both + impl if l.split()[0] not in ('big',) and len(l) < 3000]
        keep = [l for l in small if l.split()[0] in ('sessd', 'sess', 'sessk', 'cbcobj', 'rekey', 'keyf', 'hexkey')]
        rest = [l for l in small if l.split()[0] not in ('sessd', 'sess', 'sessk', 'cbcobj', 'rekey', 'keyf', 'hexkey')]
        step = max(1, len(rest) // ctx.scale(1500, 6000))
        san = keep + rest[::step]
        env = dict(os.environ, ASAN_OPTIONS='detect_leaks=0:abort_on_error=0:exitcode=77')
        vlib.differential(ctx, san, sexe, None, oracle, nontrivial, classify, impl_env=env, what='sanitizer run (ASan, anchored sources compiled into the harness)', parallel=False)
        ctx.coverage['sanitizer_cases'] = len(san)
    ctx.coverage['model_cases'] = len(both)
    ctx.coverage['oracle_only_cases'] = len(impl)
    ctx.coverage['references_used'] = dict(REFS_USED)
    if ref.lib is None:
        ctx.notes.append('libcrypto AES block primitive not loadable through ctypes: CBC ciphertexts compared with NIST vectors / openssl CLI only')
    if not ref.cli:
        ctx.notes.append('openssl command line tool not found: second CBC reference skipped')


def modelled(line):
    c = line.split()
    if not c:
        return False
    if c[0] in ('dg', 'hm'):
        if len(c) > 1 and c[1] in MODELLED:
            return True
        # the library-backed SHA-2 wrappers against FIPS 180-4 in Gallina (coq/C16/Sha2Defs.v; slow arithmetic): a fixed sample
        # (one line in 16) of the lines with at most 600 bytes of message and key (the boundary grid of both block sizes lies below that)
        return len(c) > 1 and c[1] in ALGOS and len(line) < 1300 and zlib.crc32(line.encode()) % 16 == 0
    if c[0] == 'sessd':
        return (c[2] if c[1] == 'hmac' else c[3]) in MODELLED
    return c[0] in ('key', 'keyf', 'name', 'cbcname', 'cbcst', 'hexkey', 'cbcobj', 'cbc')
