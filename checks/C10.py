"""C10 -- networked cache with local L1 never serves data another node replaced."""
import os, sys, struct, itertools
sys.path.insert(0, os.path.join(os.path.dirname(os.path.dirname(os.path.abspath(__file__))), 'lib'))   # when run as the harness wrapper
import vlib
from vlib import hexs, unhex

META = dict(
    property_id='C10',
    design_ref='DESIGN.md section 4, C10',
    technique=('Coq proof (refinement of one shared cache + invariant over all operation histories: per-server store log with '
               'pairwise distinct generations, L1 entries are log entries) + wire codec round-trip lemmas + hash step regenerated '
               'from the source + extracted-model correspondence against real tcp_cache_service / cache_over_ip instances on loopback'),
    level_text=('Theorems in coq/C10/Props.v about the executable model of cache_over_ip + tcp_cache + tcp_cache_service::session + '
                'mem_cache(limit 0) + tcp_connector::hash. For any number of servers > 0, any number of nodes each with or without L1, '
                'and every history of store/fetch/rise/clear/evict/stats/clock-tick operations by any nodes in any order (stores in the '
                'exact domain of the wire format): the values and deadlines returned by all fetches are exactly those of ONE shared '
                'mem_cache executing the same operations (network_cache_is_one_cache). For every history including raw frames of a foreign '
                'peer: a client fetch returns value v with deadline d iff the responsible server holds (v,d) unexpired at that moment '
                '(fetch_current); after a completed store / rise / clear by any node and any reads, no node fetches the replaced value '
                '(no_older_value_after_store, no_raised_value_after_rise, nothing_after_clear); on every server a generation is issued to at '
                'most one store event over the whole history (gen_injective) and an L1 record with the server\'s current generation is the '
                'server\'s current record (l1_coherent); header, store and fetch frames carry value, deadline and trigger set unchanged exactly '
                'when the key is non-empty and trigger names are non-empty and NUL-free (codec round trips, with refutation witnesses for the '
                'empty name, the empty key and names containing NUL = known finding); server_of k < n, a key is only ever stored on server_of n k, '
                'and the hash step regenerated from src/tcp_connector.cpp equals the model leaf for every state and byte. The length check of '
                'session::store is exact and complete for every frame (store_length_check_exact/_complete; a frame whose sum exceeds its payload is '
                'refused whatever the sum is modulo 2^32); across cache server restarts a fetch is current or the node\'s own L1 record with a colliding '
                'generation (fetch_across_restarts_*; nodes without L1 unaffected; restart harmless when no L1 holds a key of that server); messenger::transmit '
                'over any schedule of short transfers is the atomic RPC of the world model, and whole histories executed over schedules chosen per call by an '
                'adversary are the atomic histories when every frame fits the 32-bit header fields (history_over_any_transfer_schedules_is_the_atomic_history); its second attempt sends exactly the original request; under '
                'failures anywhere it returns the genuine answer to a first or second execution or throws, and one failure with a working reconnect is '
                'masked, and after any single failure point in the answer header or BODY the retry re-sends header and payload of the original request '
                '(transmit_*, retry_sends_exactly_the_original_request, retry_after_any_single_failure_resends_header_and_payload, one_failure_and_a_working_reconnect_are_masked); with servers down a fetch '
                'that returns is current, failed calls change no server (nstep theorems); different server list orders disagree on some key and a reversed '
                'list refutes the property (assumption shown necessary); field sizes/adjacency of tcp_operation_header from the source. The model is run '
                'against the real client/server code on the same histories (also with every readv/writev cut into 1..n byte transfers, with connections '
                'failing in mid-answer and with '
                'servers going down and up), raw frames, client-codec probes and mid-answer connection failures.'),
    level_note=('Trusted: Coq kernel + vm_compute; clang AST + the hash-step translation (cxx2v expression translator); extraction; '
                'the C++ around the modelled functions (booster::aio reactor, threads) is '
                'exercised by the harness, not modelled; mem_cache is modelled abstractly with limit 0 (no LRU eviction; L1 eviction '
                'is an explicit Evict operation); generation counter is unbounded in the model (uint64 in the code). Transfer schedules and failures '
                'are modelled for one RPC against one server cache (NetDefs.transmit) and lifted to the world\'s rpc for schedules without failures; the '
                'first-use connect of a node (all servers must be up) is not modelled. Known finding: trigger names (and keys, as triggers) that are empty '
                'or contain NUL are not carried by the wire format. Repaired in /repo and now demanded by the oracle: store frames whose length sum wraps '
                'are refused (b527961), the retry of messenger::transmit sends the request again (d350cd9).'),
)

GEN = {}   # the hash loop body needs its own small driver around cxx2v (state variable h): see gen_hash()


# ------------------------------------------------------------------------------------------------
# T-tie: tcp_connector::hash loop body -> coq/gen/Gen_tcphash.v
# ------------------------------------------------------------------------------------------------
def gen_hash():
    """translate the body of the for loop of tcp_connector::hash into  g_hash_step (h byte : Z) : Z  using the
    expression/statement translator of tools/cxx2v.py (the loop carries the state variable h, which the stock
    `transducers` entry point does not support)."""
    import cxx2v
    src = os.path.join(vlib.REPO, 'src/tcp_connector.cpp')
    out = os.path.join(vlib.COQ, 'gen', 'Gen_tcphash.v')
    try:
        objs = cxx2v.run_clang(src, 'cppcms::impl::tcp_connector::hash', vlib.repo_incs())
        hasbody = lambda n: any(c.get('kind') == 'CompoundStmt' for c in n.get('inner', []))
        fds = [f for f in cxx2v.find_decl(objs, 'CXXMethodDecl', 'hash', hasbody)]
        if not fds:
            raise cxx2v.Unsupported('tcp_connector::hash not found')
        fd = fds[0]
        body = [c for c in fd['inner'] if c.get('kind') == 'CompoundStmt'][0]
        # locate `unsigned h=0;`
        hdecl = []
        def walk(n):
            if isinstance(n, dict):
                if n.get('kind') == 'VarDecl' and n.get('name') == 'h':
                    hdecl.append(n)
                for c in n.get('inner', []) or []:
                    walk(c)
        walk(body)
        if len(hdecl) != 1 or cxx2v.tyinfo(hdecl[0]['type']) != ('u', 32):
            raise cxx2v.Unsupported('state variable h (unsigned) not found')
        init = cxx2v.const_int(hdecl[0]['inner'][0])
        loops = []
        cxx2v.find_loops(body, loops)
        if len(loops) != 1 or loops[0]['kind'] != 'ForStmt':
            raise cxx2v.Unsupported('expected exactly one for loop in hash')
        lbody = loops[0]['inner'][-1]
        tr = cxx2v.Tr('', {}, {})
        tr.consts = {}
        ss = tr.flatten(lbody)
        vd = ss[0]['inner'][0]
        if ss[0]['kind'] != 'DeclStmt' or cxx2v.tyinfo(vd['type']) != ('u', 8):
            raise cxx2v.Unsupported('loop body does not start with `unsigned char c=key[i]`')
        tr.ids[hdecl[0]['id']] = 'h_in'
        tr.ids[vd['id']] = 'c_in'
        ret = {'kind': 'ReturnStmt', 'inner': [{'kind': 'DeclRefExpr', 'type': hdecl[0]['type'],
                                                'referencedDecl': {'id': hdecl[0]['id'], 'name': 'h'}}]}
        code = tr.stmts(ss[1:] + [ret])
        # what follows the loop must be `return h % conns;` and what precedes `if(conns==1) return 0;` -- checked textually
        txt = open(src).read()
        flat = ''.join(txt.split())
        for frag in ('if(conns==1)return0;', 'returnh%conns;'):
            if frag not in flat:
                raise cxx2v.Unsupported('hash(): expected fragment %r not found' % frag)
        coq = ('(* GENERATED by checks/C10.py (cxx2v statement translator) from %s -- do not edit *)\n'
               'From Coq Require Import ZArith List Bool.\nFrom CppcmsV Require Import Base.CSem.\nLocal Open Scope Z_scope.\n\n'
               'Definition g_hash_init : Z := (%d).\n'
               'Definition g_hash_step (h_in : Z) (byte : Z) : Z :=\n  let c_in := wrapu 8 byte in %s.\n' % (src, init, code))
        with vlib.Lock('gen-Gen_tcphash'):
            vlib.write_if_changed(out, coq)
        return []
    except cxx2v.Unsupported as e:
        vlib.write_if_changed(out, '(* translator failed: %s *)\nDefinition broken : False := I.\n' % str(e).replace('*)', '* )').replace('"', "'"))
        return [('Gen_tcphash', str(e))]


def gen_proto():
    """opcode numbering (namespace opcodes of private/tcp_cache_protocol.h) and the layout of tcp_operation_header (sizeof /
    offsetof evaluated by clang in harness/C10_tu.cpp) -> coq/gen/Gen_tcpproto.v (g_op_<name>, g_<enumerator of c10_layout>)"""
    import cxx2v
    src = os.path.join(vlib.VERIF, 'harness', 'C10_tu.cpp')
    out = os.path.join(vlib.COQ, 'gen', 'Gen_tcpproto.v')
    try:
        def enumerators(filt):
            objs = cxx2v.run_clang(src, filt, vlib.repo_incs())
            res = []

            def value_of(n):
                if isinstance(n, dict):
                    if n.get('kind') == 'ConstantExpr' and 'value' in n:
                        return int(n['value'])
                    for c in n.get('inner', []) or []:
                        v = value_of(c)
                        if v is not None:
                            return v
                return None

            def walk(n):
                if isinstance(n, dict):
                    if n.get('kind') == 'EnumDecl':
                        nxt = 0
                        for c in n.get('inner', []) or []:
                            if c.get('kind') == 'EnumConstantDecl':
                                v = value_of(c) if c.get('inner') else None
                                if c.get('inner') and v is None:
                                    raise cxx2v.Unsupported('enumerator %s: value not evaluated by clang' % c.get('name'))
                                v = nxt if v is None else v
                                res.append((c['name'], v))
                                nxt = v + 1
                    for c in n.get('inner', []) or []:
                        walk(c)
            for o in objs:
                walk(o)
            return res
        ops = enumerators('opcodes')
        lay = enumerators('c10_layout')
        need_ops = ['fetch', 'rise', 'clear', 'store', 'stats', 'error', 'done', 'data', 'no_data', 'uptodate', 'out_stats']
        if not all(n in dict(ops) for n in need_ops):
            raise cxx2v.Unsupported('namespace opcodes: expected enumerators not found: %r' % (ops,))
        if len(lay) < 39:
            raise cxx2v.Unsupported('c10_layout enumerators not found')
        lines = ['(* GENERATED by checks/C10.py:gen_proto (clang AST of private/tcp_cache_protocol.h via harness/C10_tu.cpp) -- do not edit *)',
                 'From Coq Require Import ZArith List.', 'Import ListNotations.', 'Local Open Scope Z_scope.', '']
        for n, v in ops:
            lines.append('Definition g_op_%s : Z := (%d).' % (n, v))
        lines.append('Definition g_opcodes : list Z := [%s].' % '; '.join('(%d)' % v for _, v in ops))
        for n, v in lay:
            lines.append('Definition g_%s : Z := (%d).' % (n, v))
        with vlib.Lock('gen-Gen_tcpproto'):
            vlib.write_if_changed(out, '\n'.join(lines) + '\n')
        return []
    except cxx2v.Unsupported as e:
        vlib.write_if_changed(out, '(* translator failed: %s *)\nDefinition broken : False := I.\n' % str(e).replace('*)', '* )').replace('"', "'"))
        return [('Gen_tcpproto', str(e))]


# ------------------------------------------------------------------------------------------------
# generators
# ------------------------------------------------------------------------------------------------
def trigs_field(ts):
    return '_' if not ts else ','.join(hexs(t) for t in ts)


def hdr(op, size, u=b'', filler=b'\0' * 8):
    return (struct.pack('<II', op & 0xffffffff, size & 0xffffffff) + filler + u).ljust(40, b'\0')[:40]


def store_frame(k, v, trig_region, dl, kl=None, dlen=None, tl=None, size=None):
    data = k + v + trig_region
    kl = len(k) if kl is None else kl
    dlen = len(v) if dlen is None else dlen
    tl = len(trig_region) if tl is None else tl
    return hdr(3, len(data), struct.pack('<qIII', dl, kl, dlen, tl)), data


GOOD_TRIGS = [b't', b'u', b'tt', b'\xff\x80', b'k', b'trigger-with-a-long-name-' + b'x' * 40]
BAD_TRIGS = [b'', b'\0', b'a\0', b'\0a', b'a\0b', b'a\0\0b']
KEYS = [b'k', b'kk', b'\x80key', b'a\0b', b'\0', b'k\0', b'0123456789abcdef0123456789abcdef', b'\xff' * 9, b'key-7', b't']
VALS = [b'', b'v', b'\0', b'v\0w\0', b'\xff\xfe', b'x' * 300, b'k']


def rand_bytes(rng, n):
    return bytes(rng.getrandbits(8) for _ in range(n))


def gen_history(rng, bad_names=False, nops=None, raw=False, down=False):
    ns = rng.choice([1, 1, 2, 2, 3]) if not down else rng.choice([1, 2, 2, 2, 3])
    ncl = rng.choice([2, 2, 3])
    flags = ''.join(rng.choice('01') if rng.random() < 0.6 else '1' for _ in range(ncl))
    if ns == 1 and not down and rng.random() < 0.25:
        # with ONE server the order of the server list cannot matter: some nodes get the list "reversed"
        flags = ''.join({'0': 'r', '1': 'R'}[x] if rng.random() < 0.5 else x for x in flags)
    nkeys = rng.choice([1, 2, 3, 4])
    keys = rng.sample(KEYS, nkeys)
    if rng.random() < 0.3:
        keys[0] = rand_bytes(rng, rng.choice([1, 2, 7, 8, 9, 33]))
    trigs = rng.sample(GOOD_TRIGS, 3) + ([rng.choice(BAD_TRIGS)] if bad_names else [])
    if bad_names and rng.random() < 0.3:
        keys.append(b'')
    now = 1000
    ops = []
    n = nops if nops is not None else rng.randrange(3, 31)
    inject = (not down) and (not bad_names) and rng.random() < 0.12 and 'r' not in flags and 'R' not in flags
    # (not together with short transfers: the reconnect path of messenger::transmit does not set TCP_NODELAY again, and one-byte
    # writes on such a socket stall 40 ms each in Nagle / delayed-ACK - a performance matter only, but it makes the run slow)
    short = (not inject) and rng.random() < 0.3          # short transfers: every readv/writev moves at most 1..n bytes from some point on
    for _ in range(n):
        r = rng.random()
        c = rng.randrange(ncl)
        k = rng.choice(keys)
        if short and rng.random() < 0.15:
            ops.append('Y:%d' % rng.choice([1, 1, 2, 3, 7, 16, 39, 40, 41, 0]))
        if down and rng.random() < 0.14:
            ops.append('%s:%d' % (rng.choice('DDU'), rng.randrange(ns)))
        if inject and r < 0.65 and rng.random() < 0.25:
            # the next store / fetch loses its connection inside the answer header (after 0 bytes only before a fetch: whether the
            # server has executed a request whose answer was not read at all is a race)
            ops.append('Z:%d' % (rng.choice([0, 1, 4, 5, 8, 16, 39, 40, 41, 42, 43, 45, 48, 60, 339]) if r >= 0.30 else rng.choice([1, 2, 4, 5, 8, 16, 39])))
        if r < 0.30:
            v = rng.choice(VALS) if rng.random() < 0.6 else rand_bytes(rng, rng.randrange(0, 6))
            x = rng.random()
            if x < 0.75:
                dl = now + rng.choice([0, 1, 2, 3, 5, 50])
            elif x < 0.85:
                dl = now - rng.choice([1, 2, 1000])
            else:
                dl = rng.choice([0, -1, 2 ** 31 - 1, 2 ** 31, 2 ** 32 + 5, 2 ** 63 - 1, -2 ** 63, 2 ** 62])
            m = rng.choice([0, 0, 1, 1, 2, 3, len(trigs)])
            ts = rng.sample(trigs, min(m, len(trigs)))
            if rng.random() < 0.03:
                ts = [b'long-list-%d' % i for i in range(rng.choice([20, 64, 200]))]
            ops.append('S:%d:%s:%s:%d:%s' % (c, hexs(k), hexs(v), dl, trigs_field(ts)))
        elif r < 0.65:
            ops.append('%s:%d:%s' % ('F' if rng.random() < 0.85 else 'G', c, hexs(k)))
        elif r < 0.74:
            t = rng.choice(trigs + keys)
            ops.append('R:%d:%s' % (c, hexs(t)))
        elif r < 0.77:
            ops.append('C:%d' % c)
        elif r < 0.83:
            ops.append('E:%d:%s' % (c, hexs(k)))
        elif r < 0.92:
            d = rng.choice([1, 1, 2, 3, 5, 60])
            now += d
            ops.append('T:%d' % d)
        elif r < 0.96 or not raw:
            ops.append('X:%d' % c)
        else:
            h, p = gen_raw_frame(rng, keys, trigs, now)
            # a foreign peer that stores follows the key spread; other frames go anywhere
            sv = py_hash(p[:struct.unpack('<I', h[24:28])[0]], ns) if h[:4] == b'\x03\0\0\0' else rng.randrange(ns)
            ops.append('W:%d:%s:%s' % (sv, hexs(h), hexs(p)))
    return 'H %d %s %s' % (ns, flags, ' '.join(ops))


def gen_body_failure_history(rng):
    """the connection fails INSIDE the body of the answer to a fetch (failure point swept byte by byte over header end .. last byte)
    while the stored values are adversarial: the value of key A begins with the bytes of another stored key B of the same length,
    and B holds a different value. If anything of the half-received answer leaks into the retried request (the request string
    shares memory with the answer in messenger::transmit), fetch(A) asks for B. The fetching node then reads A and B again with
    no failure: its L1 must not have kept a wrong value."""
    ns = rng.choice([1, 1, 2, 3])
    flags = rng.choice(['10', '01', '11', '101', '00'])
    klen = rng.choice([1, 1, 2, 3, 5, 8])
    a = rand_bytes(rng, klen)
    b = rand_bytes(rng, klen)
    while b == a:
        b = rand_bytes(rng, klen)
    c3 = rand_bytes(rng, klen)
    va = b + rng.choice([b'', b'-of-A', a, rand_bytes(rng, rng.randrange(0, 9)), c3 + b'x' * rng.choice([0, 20])])
    vb = rng.choice([b'value-of-B', a + b'-of-B', rand_bytes(rng, rng.randrange(1, 6)), b''])
    trg = rng.choice([[], [], [b't'], [b't', b'u']])
    writer = rng.randrange(len(flags))
    ops = ['S:%d:%s:%s:2000:%s' % (writer, hexs(a), hexs(va), trigs_field(trg)),
           'S:%d:%s:%s:2000:_' % (rng.randrange(len(flags)), hexs(b), hexs(vb))]
    if rng.random() < 0.3:
        ops.append('S:%d:%s:%s:2000:_' % (writer, hexs(c3), hexs(b'value-of-C')))
    reader = rng.randrange(len(flags))
    if rng.random() < 0.5:
        ops.append('F:%d:%s' % (reader, hexs(a)))          # the reader has A (and maybe B) in its L1: the failing fetch is a revalidation
        if rng.random() < 0.5:
            ops.append('S:%d:%s:%s:2000:%s' % (writer, hexs(a), hexs(va + b'!'), trigs_field(trg)))
            va = va + b'!'
    # answer to F with triggers: 40 byte header, value, then key and trigger names NUL-terminated
    body = len(va) + len(a) + 1 + sum(len(t) + 1 for t in trg)
    pts = list(range(40, 40 + body))
    for n in (pts if len(pts) <= 14 else sorted(rng.sample(pts, 14))):
        op = 'F' if rng.random() < 0.8 else 'G'
        if flags[reader] == '1':
            # a node with L1 gets a body only when its copy is missing or out of date (else the answer is the bare `uptodate` header)
            x = rng.random()
            if x < 0.6:
                ops.append('E:%d:%s' % (reader, hexs(a)))
            elif x < 0.85:
                va = va[:-1] + bytes([(va[-1] + 1) % 256]) if va else va
                ops.append('S:%d:%s:%s:2000:%s' % (writer, hexs(a), hexs(va), trigs_field(trg)))
        ops.append('Z:%d' % n)
        ops.append('%s:%d:%s' % (op, reader, hexs(a)))
        if rng.random() < 0.5:
            ops.append('F:%d:%s' % (reader, hexs(rng.choice([a, b]))))
        if rng.random() < 0.15:
            ops.append('E:%d:%s' % (reader, hexs(a)))
    ops += ['F:%d:%s' % (reader, hexs(a)), 'F:%d:%s' % (reader, hexs(b)), 'F:%d:%s' % (reader, hexs(a))]
    return 'H %d %s %s' % (ns, flags, ' '.join(ops))


def gen_handshake_history(rng):
    """aimed at the generation handshake: few keys on one or two servers, one or two nodes with L1 that fetch again and
    again (so that their L1 records are revalidated and refilled many times), other nodes that keep replacing the values;
    every stored value is distinct, so any stale answer is visible. A refill that records a wrong generation (own counter,
    off by one, generation of another key) needs such a run of refills before a later store collides with it."""
    ns = rng.choice([1, 1, 1, 2])
    flags = rng.choice(['10', '10', '101', '110'])
    l1c = [i for i, f in enumerate(flags) if f == '1']
    other = [i for i, f in enumerate(flags) if f == '0']
    keys = rng.sample([b'k', b'l', b'kk', b'\x80key', b'a\0b', b't'], rng.choice([1, 2, 2, 3]))
    ops = []
    seq = [0]

    def store(c, k):
        seq[0] += 1
        ops.append('S:%d:%s:%s:%d:%s' % (c, hexs(k), hexs(b'v%d' % seq[0]), rng.choice([2000, 2000, 3000]),
                                        trigs_field(rng.sample([b't', b'u'], rng.choice([0, 0, 0, 1])))))

    def fetch(c, k):
        ops.append('%s:%d:%s' % ('F' if rng.random() < 0.9 else 'G', c, hexs(k)))

    for _ in range(rng.choice([1, 2])):          # fill the servers, fill every L1 (miss path), replace the values
        for k in keys:
            store(rng.choice(other), k)
    for c in l1c:
        for k in keys:
            fetch(c, k)
    for k in keys:
        store(rng.choice(other), k)
    for _ in range(rng.choice([1, 2, 3])):       # bursts of refills, then bursts of stores, then every L1 node reads every key
        for _ in range(rng.randrange(0, 7)):
            fetch(rng.choice(l1c), rng.choice(keys))
        if rng.random() < 0.15:
            ops.append('E:%d:%s' % (rng.choice(l1c), hexs(rng.choice(keys))))
        for _ in range(rng.randrange(1, 5)):
            store(rng.choice(other) if rng.random() < 0.9 else rng.choice(l1c), rng.choice(keys))
        if rng.random() < 0.1:
            ops.append('R:%d:%s' % (rng.randrange(len(flags)), hexs(rng.choice([b't', b'u']))))
        for c in l1c:
            for k in keys:
                fetch(c, k)
    return 'H %d %s %s' % (ns, flags, ' '.join(ops))


def gen_raw_frame(rng, keys, trigs, now):
    """a frame as a foreign peer might send it, also store frames whose length sum wraps modulo 2^32 (refused since /repo b527961)"""
    k = rng.choice(keys) or b'k'
    r = rng.random()
    if r < 0.45:
        v = rng.choice(VALS[:5])
        names = [rng.choice(trigs + [b'', b'x']) for _ in range(rng.randrange(0, 4))]
        region = b''.join(t + b'\0' for t in names)
        x = rng.random()
        if x < 0.15 and region:
            region = region[:-1]           # last name without terminator
        kw = {}
        y = rng.random()
        if y < 0.1:
            kw['kl'] = 0
        elif y < 0.2:
            kw['kl'] = len(k) + rng.choice([1, -1, 2 ** 31])
        elif y < 0.3:
            kw['dlen'] = len(v) + rng.choice([1, 2, 2 ** 16])
        elif y < 0.4:
            kw['tl'] = len(region) + rng.choice([1, 5])
        elif y < 0.5:
            # the three lengths add up to the frame size only modulo 2^32 (the frame that crashed the server before b527961 and its kin)
            size = len(k) + len(v) + len(region)
            w = rng.choice('AABCD')
            if w == 'A':
                kw = dict(kl=len(k), dlen=2 ** 32 - 1, tl=size - len(k) + 1)
            elif w == 'B':
                kw = dict(kl=2 ** 31 + len(k), dlen=2 ** 31 + len(v), tl=len(region))
            elif w == 'C':
                kw = dict(kl=len(k), dlen=size - len(k) + 1, tl=2 ** 32 - 1)
            elif (size + 2 ** 33) % 3 == 0:
                kw = dict(kl=(size + 2 ** 33) // 3, dlen=(size + 2 ** 33) // 3, tl=(size + 2 ** 33) // 3)
            else:
                kw = dict(kl=1, dlen=2 ** 32 - 1, tl=size)
        h, p = store_frame(k, v, region, now + rng.choice([0, 5, -1]), **kw)
        return h, p
    if r < 0.75:
        flags = rng.choice([0, 1, 2, 3, 3, 0xfffffffc, 0x80000001])
        gen = rng.choice([0, 0, 1, 2, 3, 5, 2 ** 32, 2 ** 64 - 1])
        kl = rng.choice([len(k), 0, 77])
        return hdr(0, len(k), struct.pack('<QII', gen, kl, flags), filler=rng.choice([b'\0' * 8, b'\xff' * 8])), k
    if r < 0.82:
        t = rng.choice(trigs + keys)
        return hdr(1, len(t), struct.pack('<I', rng.choice([len(t), 0]))), t
    if r < 0.85:
        return hdr(2, 0), b''
    if r < 0.90:
        return hdr(4, 0), b''
    op = rng.choice([5, 6, 7, 8, 9, 10, 11, 12, 13, 14, 15, 255, 2 ** 32 - 1])
    p = rand_bytes(rng, rng.choice([0, 0, 3, 32]))
    return hdr(op, len(p), rand_bytes(rng, 24)), p


def gen_cut_probe(rng):
    """failure in the middle of the answer: the fake server sends the first `cut` bytes of the answer and closes; cut values around
    the fields of the header object that the failed read overwrites (opcode 0..3, size 4..7, union 16..39) and inside the payload"""
    k = rng.choice([x for x in KEYS if x])
    if rng.random() < 0.65:
        tags = rng.choice('01')
        tif = rng.choice('01')
        gen = rng.choice([0, 1, 5, 2 ** 32, 2 ** 64 - 1])
        x = rng.random()
        if x < 0.7:
            v = rng.choice(VALS)
            names = [rng.choice(GOOD_TRIGS) for _ in range(rng.randrange(0, 4))] if tags == '1' else []
            region = b''.join(t + b'\0' for t in names)
            pl = v + region
            rh = hdr(7, len(pl), struct.pack('<QqII', rng.choice([0, 7, 2 ** 32]), rng.choice([0, 1005, -1, 2 ** 40]), len(v), len(region)))
        else:
            pl = b''
            rh = hdr(rng.choice([8, 9, 5]), 0)
        total = 40 + len(pl)
        cut = rng.choice([0, 0, 1, 2, 3, 4, 5, 6, 7, 8, 9, 15, 16, 17, 24, 39, 40, 41, total - 1, rng.randrange(total)])
        cut = min(cut, total - 1)
        return 'P Z F %s %d %s %s %d %s %s' % (hexs(k), gen, tags, tif, cut, hexs(rh), hexs(pl))
    v = rng.choice(VALS)
    ts = rng.sample(GOOD_TRIGS, rng.randrange(0, 3))
    rh = hdr(rng.choice([6, 6, 5]), 0)
    cut = rng.choice([0, 0, 1, 2, 3, 4, 5, 7, 8, 20, 39, rng.randrange(40)])
    return 'P Z S %s %s %d %s %d %s -' % (hexs(k), hexs(v), rng.choice([0, 1005, -1, 2 ** 40]), trigs_field(ts), cut, hexs(rh))


def gen_probe(rng):
    nd = hdr(rng.choice([8, 5, 6, 9, 10, 0]), 0)
    r = rng.random()
    k = rng.choice(KEYS + [b''])
    if r < 0.45:
        tags = rng.choice('01')
        tif = rng.choice('01')
        gen = rng.choice([0, 1, 5, 2 ** 32 - 1, 2 ** 32, 2 ** 63, 2 ** 64 - 1])
        x = rng.random()
        if x < 0.6:
            v = rng.choice(VALS)
            names = [rng.choice(GOOD_TRIGS + [b'', b'k']) for _ in range(rng.randrange(0, 5))] if tags == '1' else []
            region = b''.join(t + b'\0' for t in names)
            if region and rng.random() < 0.1:
                region = region[:-1]
            pl = v + region
            dl = rng.choice([0, 1, -1, 1005, 2 ** 31, 2 ** 63 - 1, -2 ** 63])
            g2 = rng.choice([0, 7, 2 ** 32, 2 ** 64 - 1])
            rh = hdr(7, len(pl), struct.pack('<QqII', g2, dl, len(v), len(region)), filler=rng.choice([b'\0' * 8, b'\xaa' * 8]))
            return 'P F %s %d %s %s %s %s' % (hexs(k), gen, tags, tif, hexs(rh), hexs(pl))
        return 'P F %s %d %s %s %s -' % (hexs(k), gen, tags, tif, hexs(nd))
    if r < 0.8:
        v = rng.choice(VALS)
        ts = rng.sample(GOOD_TRIGS + BAD_TRIGS, rng.randrange(0, 5))
        dl = rng.choice([0, 1, -1, 1005, 2 ** 31, 2 ** 63 - 1, -2 ** 63, rng.randrange(-2 ** 63, 2 ** 63)])
        return 'P S %s %s %d %s %s -' % (hexs(k), hexs(v), dl, trigs_field(ts), hexs(hdr(6, 0)))
    if r < 0.9:
        return 'P R %s %s -' % (hexs(rng.choice(GOOD_TRIGS + BAD_TRIGS + KEYS)), hexs(hdr(6, 0)))
    if r < 0.93:
        return 'P C %s -' % hexs(hdr(6, 0))
    return 'P X %s -' % hexs(hdr(rng.choice([10, 10, 5, 6]), 0, struct.pack('<II', rng.choice([0, 3, 2 ** 32 - 1]), rng.choice([0, 9, 2 ** 31]))))


def exhaustive_small(maxlen):
    """every history of length <= maxlen over: 2 clients with L1, 1 server, one key, two values, one trigger"""
    alpha = ['S:0:6b:7631:1002:74', 'S:1:6b:7632:1002:_', 'F:0:6b', 'F:1:6b', 'R:1:74', 'C:0', 'T:2', 'E:0:6b']
    out = []
    for n in range(1, maxlen + 1):
        for t in itertools.product(alpha, repeat=n):
            if not any(x[0] == 'F' for x in t):
                continue
            out.append('H 1 11 ' + ' '.join(t))
    return out


def gen_cases(ctx):
    rng = ctx.rng
    cases = []
    cases += exhaustive_small(ctx.scale(5, 6))
    # mixed L1 / no L1, 1-3 servers, binary keys / values / names, raw frames of a foreign peer
    for _ in range(ctx.scale(4000, 40000)):
        cases.append(gen_history(rng, raw=True))
    for _ in range(ctx.scale(500, 5000)):
        cases.append(gen_history(rng, bad_names=True))
    # the generation handshake: long runs of L1 refills against stores by other nodes
    for _ in range(ctx.scale(1500, 20000)):
        cases.append(gen_handshake_history(rng))
    for _ in range(ctx.scale(3000, 30000)):
        cases.append(gen_probe(rng))
    # servers going down and coming up again (connection refused): calls that need such a server must throw, nothing else changes
    for _ in range(ctx.scale(700, 5000)):
        cases.append(gen_history(rng, raw=rng.random() < 0.3, down=True))
    # the connection fails inside the BODY of the answer to a fetch, adversarial values (value of A begins with another stored key B)
    for _ in range(ctx.scale(400, 4000)):
        cases.append(gen_body_failure_history(rng))
    # the connection fails in the middle of an answer: what the second attempt of messenger::transmit sends
    for _ in range(ctx.scale(500, 5000)):
        cases.append(gen_cut_probe(rng))
    # real concurrency: one thread per node, 2 io threads per server; judged by the oracle alone
    for _ in range(ctx.scale(150, 1500)):
        cases.append('M %d %s %d %d %d' % (rng.choice([1, 2]), rng.choice(['11', '10', '110', '111', '101']), rng.getrandbits(30),
                                          rng.choice([20, 40, 80]), rng.choice([1, 2, 3])))
    # key spread: many keys, two and three servers, store on one client, fetch on another
    for _ in range(ctx.scale(150, 2000)):
        ns = rng.choice([2, 3])
        ops = []
        for i in range(12):
            k = rand_bytes(rng, rng.choice([1, 2, 3, 6, 7, 8, 12, 40]))
            ops.append('S:0:%s:%s:2000:_' % (hexs(k), hexs(bytes([i]))))
            ops.append('F:1:%s' % hexs(k))
        cases.append('H %d 01 %s' % (ns, ' '.join(ops)))
    return cases


# ------------------------------------------------------------------------------------------------
# oracle: the property evaluated on the implementation's answers only
# ------------------------------------------------------------------------------------------------
def py_hash(key, n):
    if n == 1:
        return 0
    h = 0
    for c in key:
        high = h & 0xf8000000
        h = (h << 5) & 0xffffffff
        h ^= high >> 27
        h ^= c
    return h % n


def parse_trigs(s):
    return set() if s == '_' else set(unhex(x) for x in s.split(','))


def parse_res(s, with_trigs, with_gen=False):
    """'0' | '1.val.dl[.trigs[.gen]]' -> None | dict"""
    if s == '0':
        return None
    f = s.split('.')
    d = {'v': unhex(f[1]), 'dl': int(f[2])}
    if with_trigs:
        d['t'] = parse_trigs(f[3])
    if with_gen:
        d['g'] = int(f[4])
    return d


def bad_name(t):
    return t == b'' or 0 in t


def oracle_history(c, out):
    ns = int(c[1])
    toks = out.split()[1:]
    ti = 0
    now = 1000
    spec = {}            # key -> (val, trigs incl. key, dl): what the cache holds if every completed operation took effect
    foreign = False
    restarted = False
    lossy = set()        # keys whose latest store the wire format cannot carry (empty key, or a trigger name that is empty or
                         # contains NUL): for these keys the server may differ from what the completed operations say
    l1flags = c[2]
    if ns > 1 and ('r' in l1flags or 'R' in l1flags) and any(x in l1flags for x in '01'):
        # nodes configured with different orders of the server list (never generated for more than one server; docs/C10_order.case):
        # the assumption "same list in the same order on every node" is violated, whatever fails is reported under one key
        r = oracle_history([c[0], c[1], l1flags.replace('r', '0').replace('R', '1')] + c[3:], out)
        return ('server-order-differs', 'nodes with different server list orders: ' + r[1]) if r else None
    seen_gen = [dict() for _ in range(ns)]   # server -> generation -> (key, value, dl)
    up = [True] * ns
    vals_of = {}
    inject = -1
    has_down = any(o.startswith('D:') for o in c[3:])

    def first_down():
        return ([i for i in range(ns) if not up[i]] + [ns])[0]

    for o in c[3:]:
        f = o.split(':')
        op = f[0]
        if op == 'Y':
            continue         # short transfers must not change any answer
        if op == 'Z':
            inject = int(f[1])   # the next call loses its connection after that many bytes of the answer
            continue
        injected, inject = inject, -1
        if op in ('D', 'U'):
            if int(f[1]) < ns:
                up[int(f[1])] = (op == 'U')
            continue
        # a call that needs a server that is down must throw (and say nothing); any other call must not throw
        if has_down and op in ('S', 'F', 'G', 'R', 'C', 'X', 'W'):
            if op in ('S', 'F', 'G'):
                must = not up[py_hash(unhex(f[2]), ns)]
            elif op == 'W':
                must = int(f[1]) < ns and not up[int(f[1])]
            else:
                must = first_down() < ns
            nxt = toks[ti] if ti < len(toks) else ''
            # (S, R, C print nothing when they return: a token !S can only be attributed to the call that must throw; a call that
            # throws without reason leaves a token over, which the end-of-history check below reports)
            did = must if op in ('S', 'R', 'C') and not must else nxt == '!' + op
            if must != did:
                return ('server-down-handling', 'operation %s: %s' % (o[:60], 'did not throw although a server it needs is down' if must
                                                                      else 'threw although every server it needs is up'))
            if did:
                ti += 1
                if op in ('R', 'C'):
                    # the broadcast reached the servers before the first one that is down
                    fd = first_down()
                    t = unhex(f[2]) if op == 'R' else None
                    for k in [k for k, e in spec.items() if py_hash(k, ns) < fd and (op == 'C' or t in e[1])]:
                        del spec[k]
                if op == 'W':
                    foreign = True
                continue
        if op == 'T':
            now += int(f[1])
        elif op == 'S':
            k, v, dl, ts = unhex(f[2]), unhex(f[3]), int(f[4]), parse_trigs(f[5])
            if k == b'' or any(bad_name(t) for t in ts):
                lossy.add(k)
            else:
                lossy.discard(k)
            spec[k] = (v, ts | {k}, dl)
            vals_of.setdefault(k, []).append(v)
        elif op == 'R':
            t = unhex(f[2])
            for k in [k for k, e in spec.items() if t in e[1]]:
                del spec[k]
        elif op == 'C':
            spec.clear()
            lossy.clear()
        elif op == 'B':
            # a restarted server has lost its records (and its generation counter): outside the property's quantifier, never generated
            sidx = int(f[1])
            restarted = True
            seen_gen[sidx] = {}
            for k in [k for k in spec if py_hash(k, ns) == sidx]:
                del spec[k]
        elif op == 'W':
            foreign = True   # a foreign peer may have changed the server: from here on only checks (1)-(3) apply
            ti += 1
        elif op == 'X':
            ti += 1
        elif op in ('F', 'G'):
            if ti >= len(toks):
                return ('bad-output', 'missing answer token')
            tok = toks[ti]
            ti += 1
            k = unhex(f[2])
            parts = tok[2:].split('|')
            if len(parts) != ns + 1 or tok[:2] != op.lower() + '=':
                return ('bad-output', 'unexpected token ' + tok[:80])
            cl = parse_res(parts[0], op == 'F')
            truth = [parse_res(x, True, True) for x in parts[1:]]
            idx = py_hash(k, ns)
            # (1) keys are spread consistently: the key lives only on the responsible server
            for i, t in enumerate(truth):
                if t is not None and i != idx:
                    return ('key-on-wrong-server', 'key %s found on server %d, responsible is %d' % (k.hex(), i, idx))
            sv = truth[idx]
            # (2) the statement: the client's answer is what the responsible server holds right now
            if restarted and ((cl is None) != (sv is None) or (cl is not None and (cl['v'] != sv['v'] or cl['dl'] != sv['dl']))):
                return ('stale-after-server-restart', 'after a cache server restart (generation counter back at 0) the client answered %s '
                        'but the server holds %s for key %s' % (cl and cl['v'][:40].hex(), sv and sv['v'][:40].hex(), k.hex()))
            if cl is not None and sv is None:
                others = [k2 for k2, e2 in spec.items() if k2 != k and e2[0] == cl['v'] and e2[2] >= now]
                if others and not any(e0 == cl['v'] for e0 in vals_of.get(k, ())):
                    return ('fetch-returns-other-keys-value', 'fetch(%s) returned %s, the current value of key %s, while the server holds nothing for the '
                            'requested key' % (hexs(k), hexs(cl['v'][:40]), hexs(others[0])))
            if (cl is None) != (sv is None):   # (also right after an injected connection failure: the retry must deliver the answer)
                return ('fetch-not-current', 'client %s but server %s for key %s' % (
                    'found' if cl else 'not found', 'holds a value' if sv else 'holds nothing', k.hex()))
            if cl is not None:
                if cl['v'] != sv['v']:
                    others = [k2 for k2, e2 in spec.items() if k2 != k and e2[0] == cl['v'] and e2[2] >= now]
                    if others and not any(e0 == cl['v'] for e0 in vals_of.get(k, ())):
                        return ('fetch-returns-other-keys-value', 'fetch(%s) by node %s returned %s, which is the current value of key %s (never a value of '
                                'the requested key); the server holds %s%s' % (hexs(k), f[1], hexs(cl['v'][:40]), hexs(others[0]), hexs(sv['v'][:40]),
                                                                               ' [right after an injected connection failure]' if injected >= 0 else ''))
                    return ('fetch-stale-value', 'client returned %s, the server holds %s (key %s)' % (cl['v'][:40].hex(), sv['v'][:40].hex(), k.hex()))
                if cl['dl'] != sv['dl']:
                    return ('fetch-stale-deadline', 'client deadline %d, server %d' % (cl['dl'], sv['dl']))
                if op == 'F':
                    # the trigger set comes back unchanged; a node with an L1 may add the triggers of its own older copy
                    # (superset: over-invalidation only). Names with NUL cannot be carried (known finding).
                    exact = l1flags[int(f[1])] in '0r'
                    if not (sv['t'] == cl['t'] if exact else sv['t'] <= cl['t']):
                        if any(bad_name(t) for t in sv['t']):
                            return ('name-with-nul-or-empty-not-carried', 'fetched trigger set differs from the server\'s: a name '
                                    'containing NUL (here possibly the key itself) is split on the wire')
                        return ('fetch-triggers-changed', 'client trigger set %s the trigger set the server holds' % (
                            'differs from' if exact else 'lacks a member of'))
            # (3) one generation = one store event on a server
            if sv is not None:
                old = seen_gen[idx].get(sv['g'])
                cur = (k, sv['v'], sv['dl'])
                if old is not None and old != cur:
                    return ('generation-reused', 'server %d generation %d stood for %r and now for %r' % (idx, sv['g'], old, cur))
                seen_gen[idx][sv['g']] = cur
            # (4) the server's content is what the completed operations say (every store/rise/clear took effect)
            e = spec.get(k)
            if e is not None and e[2] < now:
                e = None
            bad = None
            if (e is None) != (sv is None):
                bad = 'server %s, completed operations say %s' % ('holds a value' if sv else 'holds nothing', 'a value is current' if e else 'nothing is current')
            elif e is not None and (e[0] != sv['v'] or e[2] != sv['dl'] or e[1] != sv['t']):
                bad = 'server holds (%s,%d,%d triggers), completed operations say (%s,%d,%d triggers)' % (
                    sv['v'][:40].hex(), sv['dl'], len(sv['t']), e[0][:40].hex(), e[2], len(e[1]))
            if bad and not foreign:
                if k in lossy:
                    return ('name-with-nul-or-empty-not-carried', bad + ' [the latest store of this key had an empty key or a trigger name that is empty or contains NUL]')
                return ('completed-operation-lost', bad)
    if has_down and ti != len(toks):
        return ('server-down-handling', 'a call threw although every server it needs was up (answer tokens left over: %s)' % ' '.join(toks[ti:])[:200])
    return None


def split_frame(s):
    h, p = s.split('.')
    return unhex(h), unhex(p)


def walk(region):
    out = set()
    i = 0
    while i < len(region):
        j = region.find(b'\0', i)
        if j < 0:
            j = len(region)
        out.add(region[i:j])
        i = j + 1
    return out


def cut_probe_overread(c):
    """P Z case: (bytes the second attempt sends beyond the request payload, request payload length)"""
    kind = c[2]
    if kind == 'F':
        plen = len(unhex(c[3]))
    else:
        plen = len(unhex(c[3])) + len(unhex(c[4])) + sum(len(t) + 1 for t in parse_trigs(c[6]))
    cut = int(c[-3])
    rh = unhex(c[-2])
    size1 = struct.pack('<I', plen)
    n = max(0, min(cut, 8) - 4)
    size2 = struct.unpack('<I', rh[4:4 + n] + size1[n:])[0]
    return max(0, size2 - plen), plen


def oracle_cut_probe(c, out):
    """the connection failed after `cut` bytes of the answer and the reconnect works: the second attempt must send the request
    again, byte for byte, and the caller must get the genuine answer (one failure is masked)."""
    o = out.split()
    kind = c[2]
    cut = int(c[-3])
    rh, rp = unhex(c[-2]), unhex(c[-1])
    if len(o) < 3:
        return ('bad-output', 'probe answer too short: ' + out[:100])
    res = o[-1]
    if kind == 'F':
        tags, tif = c[5] == '1', c[6] == '1'
        ropc = struct.unpack('<I', rh[:4])[0]
        if tif and ropc == 9:
            genuine = 'r=-1'
        elif ropc != 7:
            genuine = 'r=0'
        else:
            g3, dl, dlen, tl = struct.unpack('<QqII', rh[16:40])
            ts = walk(rp[dlen:dlen + tl]) if tags else set()
            genuine = 'r=1.%s.%d.%s.%d' % (hexs(rp[:dlen]), dl, '_' if not ts else ','.join(hexs(t) for t in sorted(ts)), g3)
        if res != genuine:
            return ('fetch-after-connection-failure', 'after ONE connection failure (%d bytes into the answer) and a reconnect that worked, fetch '
                    'returned %s instead of the genuine answer %s' % (cut, res[:100], genuine[:100]))
    elif res != 'r':
        return ('store-after-connection-failure', 'store threw although the reconnect worked: ' + res[:60])
    if o[2] == 'NO-RETRY':
        return None if res == 'r=!' else ('bad-output', 'no second attempt but ' + res[:60])
    f1 = o[1].split('.')
    f2 = o[2].split('.')
    if len(f1) != 2 or len(f2) != 3:
        return ('bad-output', 'unexpected capture ' + out[:100])
    if f2[0] == f1[0] and int(f2[2]) == len(unhex(f1[1])) and f2[1] != f1[1]:
        return ('retry-sends-overwritten-payload', 'after a failure %d bytes into the answer the second attempt of messenger::transmit sent the payload %s '
                'instead of the request payload %s (the request string was overwritten by the half-received answer)' % (cut, f2[1][:80], f1[1][:80]))
    if f2[0] != f1[0] or int(f2[2]) != len(unhex(f1[1])):
        return ('retry-sends-overwritten-header', 'after a failure %d bytes into the answer the second attempt of messenger::transmit sent header %s '
                'with %s payload bytes instead of the request (%s, %d bytes)' % (cut, f2[0], f2[2], f1[0], len(unhex(f1[1]))))
    return None


def oracle_probe(c, out):
    if c[1] == 'Z':
        return oracle_cut_probe(c, out)
    o = out.split()
    kind = c[1]
    if len(o) < 3:
        return ('bad-output', 'probe answer too short: ' + out[:100])
    rqh, rqp = split_frame(o[1])
    res = o[-1]
    opc, size = struct.unpack('<II', rqh[:8])
    if size != len(rqp) or rqh[8:16] != b'\0' * 8:
        return ('frame-size-field', 'size field %d, payload %d bytes' % (size, len(rqp)))
    rh, rp = unhex(c[-2]), unhex(c[-1])
    if kind == 'S':
        k, v, dl, ts = unhex(c[2]), unhex(c[3]), int(c[4]), parse_trigs(c[5])
        dl2, kl, dlen, tl = struct.unpack('<qIII', rqh[16:36])
        if opc != 3 or kl + dlen + tl != len(rqp):
            return ('store-frame-lengths', 'store frame lengths inconsistent')
        if rqp[:kl] != k or rqp[kl:kl + dlen] != v or dl2 != dl:
            return ('store-frame-content', 'key, value or deadline changed in the store frame')
        if not any(bad_name(t) for t in ts) and walk(rqp[kl + dlen:]) != ts:
            return ('store-frame-triggers', 'trigger set changed in the store frame')
    elif kind == 'F':
        k, gen, tags, tif = unhex(c[2]), int(c[3]), c[4] == '1', c[5] == '1'
        g2, kl, fl = struct.unpack('<QII', rqh[16:32])
        if opc != 0 or rqp != k or kl != len(k) or fl != (1 if tags else 0) + (2 if tif else 0) or g2 != (gen if tif else 0):
            return ('fetch-frame', 'fetch request frame does not carry key/flags/generation')
        ropc = struct.unpack('<I', rh[:4])[0]
        exp = None
        if tif and ropc == 9:
            exp = 'r=-1'
        elif ropc != 7:
            exp = 'r=0'
        else:
            g3, dl, dlen, tl = struct.unpack('<QqII', rh[16:40])
            ts = walk(rp[dlen:dlen + tl]) if tags else set()
            exp = 'r=1.%s.%d.%s.%d' % (hexs(rp[:dlen]), dl, '_' if not ts else ','.join(hexs(t) for t in sorted(ts)), g3)
        if res != exp:
            return ('fetch-answer-decoding', 'decoded %s, reference decoder %s' % (res[:100], exp[:100]))
    elif kind == 'R':
        if opc != 1 or rqp != unhex(c[2]):
            return ('rise-frame', 'rise frame does not carry the trigger')
    elif kind == 'C':
        if opc != 2 or rqp:
            return ('clear-frame', 'clear frame wrong')
    elif kind == 'X':
        ropc, = struct.unpack('<I', rh[:4])
        k, t = struct.unpack('<II', rh[16:24])
        if opc != 4 or res != ('r=%d.%d' % (k, t) if ropc == 10 else 'r=0.0'):
            return ('stats', 'stats request or answer wrong')
    return None


def oracle_concurrent(c, out):
    """real concurrency (one thread per node): every read must be explained by a write that is not known to be overwritten:
    a fetch that returns the value of write w (or nothing: some rise/clear d, or the initial state) is stale when another
    write to the same key started after w ended and ended before the fetch started."""
    ev = []
    for tok in out.split()[1:]:
        f = tok.split('.')
        if len(f) != 6:
            return ('bad-output', 'unexpected event ' + tok[:60])
        ev.append((int(f[0]), f[1], int(f[2]), f[3], int(f[4]), int(f[5])))
    nkeys = int(c[5])
    writes = {k: [(None, -2, -1)] for k in range(nkeys)}      # key -> [(value or None, start, end)]
    for node, op, key, val, st, en in ev:
        if op == 'S':
            writes[key].append((val, st, en))
        elif op == 'R':
            writes[key].append((None, st, en))
        elif op == 'C':
            for k in writes:
                writes[k].append((None, st, en))
    for node, op, key, val, st, en in ev:
        if op != 'F':
            continue
        want = None if val == '-' else val
        ws = writes[key]
        cands = [w for w in ws if w[0] == want and w[1] < en]
        if not cands:
            return ('concurrent-value-never-written', 'node %d fetched %s for key %d which no store that had started wrote' % (node, val, key))
        if not any(not any(w2 is not w and w[2] < w2[1] and w2[2] < st for w2 in ws) for w in cands):
            return ('concurrent-stale-read', 'node %d fetched %s for key %d at [%d,%d] although a later store/rise/clear of that key had '
                    'completed before the fetch started' % (node, val, key, st, en))
    return None


def canon_case(case, out):
    """concurrent runs are not reproducible: they are judged by the oracle alone"""
    return 'M' if case.startswith('M ') and out.startswith('M ') and 'BAD-CASE' not in out and 'FAILED' not in out and 'EXCEPTION' not in out else out


def wrapping_store_frames(c):
    """raw store frames of a foreign peer whose length sum wraps: key_len+data_len+triggers_len != size as integers but equal modulo
    2^32. Before /repo b527961 session::store accepted them and read outside the frame; they must be answered `error`."""
    res = []
    down = set()
    for o in c[3:]:
        f = o.split(':')
        if f[0] in ('D', 'U'):
            (down.add if f[0] == 'D' else down.discard)(f[1])
        if f[0] == 'W' and len(f) == 4 and len(f[2]) == 80 and f[1] not in down:      # (a frame to a server that is down is never sent)
            h = unhex(f[2])
            opc, size = struct.unpack('<II', h[:8])
            kl, dlen, tl = struct.unpack('<III', h[24:36])
            if opc == 3 and kl and kl + dlen + tl != size and (kl + dlen + tl) % 2 ** 32 == size:
                res.append((kl, dlen, tl, size))
    return res


def oracle(case, out):
    c = case.split()
    if out.startswith('SKIPPED-AFTER-HANG') or out == '<missing>':
        return None          # the harness process hung or died on an earlier case of its chunk (that case carries the failure)
    if c[0] == 'H':
        wr = wrapping_store_frames(c)
        if wr:
            # the frame must be refused (`error`) and the server must live on; anything else is a regression of b527961
            toks = out.split()[1:]
            refused = [t for t in toks if t.startswith('w=') and unhex(t[2:].split('.')[0])[:4] == b'\x05\0\0\0']
            if out.startswith('<crash') or 'FAILED' in out or len(refused) < len(wr):
                return ('store-length-sum-wraps', 'a store frame with key_len=%d data_len=%d triggers_len=%d size=%d (sum wraps in uint32) was not '
                        'refused by tcp_cache_service::session::store: %s' % (wr[0] + (out[:200],)))
    if out.startswith('<crash') or out.startswith('EXCEPTION') or 'FAILED' in out or 'BAD-CASE' in out:
        return ('crash-or-io', 'harness could not complete the case: ' + out[:300])
    if c[0] == 'H':
        return oracle_history(c, out)
    if c[0] == 'P':
        return oracle_probe(c, out)
    if c[0] == 'M':
        return oracle_concurrent(c, out)
    return None


def nontrivial(case, out):
    c = case.split()
    if c[0] == 'H':
        return ' f=1.' in out or ' g=1.' in out
    if c[0] == 'M':
        return '.F.' in out
    return True


def classify(case, out):
    c = case.split()
    if c[0] == 'L':
        return 'layout-probe'
    if c[0] == 'P':
        return 'probe:' + c[1] + (':cut=0' if c[1] == 'Z' and c[-3] == '0' else '')
    if c[0] == 'M':
        return 'concurrent:srv%s:nodes%d' % (c[1], len(c[2]))
    n = len(c) - 3
    fl = c[2].replace('r', '0').replace('R', '1')
    if any(x.startswith('D:') for x in c[3:]):
        return 'hist:server-down:srv%s:%s' % (c[1], 'some-call-threw' if ' !' in out else 'no-call-threw')
    if any(x.startswith('Z:') for x in c[3:]):
        return 'hist:connection-failures:%s:srv%s' % ('in-body' if any(x.startswith('Z:') and int(x[2:]) >= 40 for x in c[3:]) else 'in-header', c[1])
    if any(x.startswith('Y:') for x in c[3:]):
        return 'hist:short-transfers:srv%s' % c[1]
    return 'hist:srv%s:l1=%s:%s' % (c[1], 'all' if '0' not in fl else 'none' if '1' not in fl else 'mixed',
                                    'len<=5' if n <= 5 else 'len<=15' if n <= 15 else 'len>15')


def asan_pass(ctx, cases, volume):
    """thorough tier / replay: the same harness built against the ASan+UBSan tree of the library, on a sample of the cases
    (every kind); a sanitizer abort or a property failure in its answers is a failure with the case as replay"""
    import time
    t0 = time.time()
    ok, err = vlib.build_repo(asan=True)
    if not ok:
        ctx.notes.append('ASan pass skipped: sanitizer build of the library failed: ' + err[-300:])
        return
    aexe, err = vlib.build_harness('C10_netcache', ['C10_netcache.cpp'], asan=True)
    if not aexe:
        ctx.notes.append('ASan pass skipped: sanitizer build of the harness failed: ' + err[-300:])
        return
    if len(cases) > volume:
        step = len(cases) / float(volume)
        sub = [cases[int(i * step)] for i in range(volume)]
    else:
        sub = list(cases)
    env = {'ASAN_OPTIONS': 'detect_leaks=0', 'UBSAN_OPTIONS': 'print_stacktrace=1'}
    import sys
    wrapped = [sys.executable, os.path.abspath(__file__), '--wrap', aexe]
    rc, out, err = vlib.run_lines_parallel(wrapped, sub, jobs=min(4, vlib.NCPU), env=env)
    bad = 0
    for c, o in zip(sub, out):
        if o.startswith('<crash'):
            bad += 1
            ctx.fail('sanitizer-abort', 'the harness built with -fsanitize=address,undefined died on this case: ' + o[:1400], c)
            continue
        r = oracle(c, o)
        if r:
            ctx.fail(r[0], r[1] + '\n  (sanitizer build) case: %s\n  impl: %s' % (c[:400], o[:400]), c)
    if len(out) != len(sub):
        ctx.broke('sanitizer pass: harness produced %d lines for %d cases' % (len(out), len(sub)), err[-2000:])
    ctx.coverage['asan_pass'] = {'cases': len(sub), 'aborted_cases': bad, 'wall_s': round(time.time() - t0, 1)}


def run(ctx):
    import time
    t0 = time.time()
    phase = ctx.coverage.setdefault('phase_wall_s', {})

    def mark(name):
        nonlocal t0
        phase[name] = round(time.time() - t0, 1)
        t0 = time.time()
    for n, e in vlib.gen_coq(GEN) + gen_hash() + gen_proto():
        ctx.broke('translator cxx2v failed on %s (tie to source broken)' % n, e)
    mark('translate_hash_step_and_protocol_constants')
    res = vlib.coq_props('C10')
    ctx.proof(res)
    mark('coq_proofs_incl_lock_wait')
    ctx.coverage['trusted_base'] = [
        'Coq 8.16.1 kernel, vm_compute',
        'clang 14 JSON AST + tools/cxx2v.py statement translator driven by checks/C10.py:gen_hash (hash loop body of src/tcp_connector.cpp)',
        'clang 14 constant evaluation of enumerators / sizeof / offsetof (checks/C10.py:gen_proto over harness/C10_tu.cpp -> opcode numbers, header layout)',
        'extraction: ExtrOcamlBasic, OCaml 4.13.1',
        'harness/C10_netcache.cpp (interposed time(), in-process tcp_cache_service on loopback, capturing fake server), ocaml/C10_driver.ml, checks/C10.py',
        'hand model of cache_over_ip / tcp_cache / tcp_cache_service::session / mem_cache(limit 0) in coq/C10/Defs.v, tied by correspondence',
        'booster::aio reactor and threads: exercised, not modelled; stream_socket::read/write loops and messenger::transmit modelled in coq/C10/NetDefs.v '
        '(tied by short-transfer histories through interposed readv/writev, by server-down histories and by mid-answer failure probes)']
    ctx.assumptions = [
        'every client is configured with the same server list in the same order',
        'each RPC is atomic on the server (one request of a connection at a time; mem_cache operations are serialised by its lock); that short transfers '
        'do not break this is proved per RPC and for whole histories (side condition: all frames fit their 32-bit fields)',
        'no server restart for the coherence theorems (a restart resets the generation counter; section 6 of Props.v states what holds across restarts)',
        'answers shorter than 2^32 bytes and generations below 2^64 (hdr_ok of the answer header) for the transport theorems',
        'fewer than 2^64 stores per server (generation counter does not wrap) and all frame length fields below 2^32',
        'all nodes share one clock',
        'raw frames of foreign peers have a payload of exactly the size their header announces (the harness sends such frames only)']
    ctx.notes += [
        'known finding name-with-nul-or-empty-not-carried: the wire format cannot carry an empty key, an empty trigger name or a name '
        'containing NUL (refused store = older value stays current; split name = raising it invalidates nothing); the theorems state the '
        'exact domain (store_ok) and codec_roundtrip_refuted_outside_domain gives the model witnesses; replays in corpus/C10',
        'observation: on an L1 hit that is not up to date cache_over_ip::fetch returns the union of the server trigger set and the stale L1 '
        'copy\'s (over-invalidation only); the oracle demands equality for nodes without L1 and superset for nodes with L1',
        'observation (outside the quantifier): a cache server restart resets its generation counter, after which an L1 record of an older '
        'incarnation can be confirmed as up to date; the theorems assume no restart',
        'repaired (/repo b527961, was finding store-length-sum-wraps): store frames of a foreign peer whose three lengths add up to the frame size only '
        'modulo 2^32 are generated and must be answered `error` with the server alive (corpus/C10/wrap_regress.case is the frame that crashed it)',
        'repaired (/repo d350cd9, was finding retry-sends-overwritten-header): after a connection failure in mid-answer the second attempt of '
        'messenger::transmit must send the request again byte for byte and deliver the genuine answer (probes P Z, histories with Z:n)',
        'failure points inside the BODY of a fetch answer are swept byte by byte with adversarial contents (the value of key A begins with another '
        'stored key B of the same length): a transmit that lets the half-received body reach the request string would ask for B on the retry '
        '(oracle keys fetch-returns-other-keys-value, retry-sends-overwritten-payload)',
        'observation: nodes configured with different orders of the server list do not see each other\'s stores (assumption shown necessary: '
        'reversed_server_order_refutes_the_property, docs/C10_order.case)',
        'the harness closes all its TCP sockets with RST (SO_LINGER 0 via an interposed socket()) to keep loopback TIME_WAIT entries low']
    exe, err = vlib.build_harness('C10_netcache', ['C10_netcache.cpp'])
    if not exe:
        ctx.broke('harness build failed', err)
        return
    mark('harness_build')
    mexe, err = vlib.build_model('C10', 'C10_driver.ml', 'c10m')
    if not mexe:
        ctx.broke('model extraction/build failed', err)
    mark('model_extraction_build_incl_lock_wait')
    if ctx.replay_cases is not None:
        cases = ctx.replay_cases
    else:
        cases = vlib.corpus_cases('C10') + gen_cases(ctx)
    ctx.coverage['rule'] = (
        'case = one history (H: n servers, L1 flag per client, list of store/fetch/rise/clear/evict/stats/tick/raw-frame operations) run '
        'against fresh tcp_cache_service instances and cache_over_ip clients, or one client-codec probe (P) against a capturing fake '
        'server. Exhaustive: every history of length <= 5 (quick) / 6 (thorough) over an 8-operation alphabet (2 clients with L1, one '
        'key, two values, one trigger, clock tick past the deadline, eviction) that contains a fetch. Random (seeded): histories of 3..30 '
        'operations aimed at the generation handshake (bursts of L1 refills against bursts of stores of distinct values by other nodes); histories of '
        'operations over 1-3 servers, 2-3 clients, binary keys/values/trigger names, deadlines around the clock and at int64 extremes, '
        'raw frames of a foreign peer (malformed lengths, empty names, unknown opcodes), a separate stream with names the wire format '
        'cannot carry; concurrent runs (M: one thread per node against 1-2 servers with 2 io threads each, 20-80 operations per node on 1-3 '
        'keys, judged by the oracle alone: no fetch may return a value that a completed later store/rise/clear had replaced). Histories with short '
        'transfers (Y:n: every readv/writev on a socket moves at most 1..n bytes), with servers going down and up (D:s / U:s: calls that need a server '
        'that is down must throw, all others must not, a broadcast reaches the servers before the first one that is down), probes with the connection '
        'closed after `cut` bytes of the answer (P Z), histories whose injected failure point Z:n sweeps the body of a fetch answer byte by byte with '
        'adversarial values (value of A begins with key B), nodes with the reversed server list on one server, a layout probe (L). A history is non-trivial when at least one fetch returned a value; distinct = distinct case lines.')
    ctx.coverage['exhaustive'] = False
    ctx.coverage['exhaustive_parts'] = ['all histories of length <= %d over the 8-operation alphabet that contain a fetch' % ctx.scale(5, 6)]
    mark('case_generation')
    import sys
    wrapped = [sys.executable, os.path.abspath(__file__), '--wrap', exe]
    vlib.differential(ctx, cases, wrapped, mexe, oracle, nontrivial, classify, jobs=min(8, vlib.NCPU), canon_case=canon_case)
    mark('differential_and_oracle')
    if not ctx.quick() or (ctx.replay_cases is not None and os.path.exists(os.path.join(vlib.BUILD_ASAN, 'build.ninja'))):
        asan_pass(ctx, cases, 20000)
        mark('asan_pass')


# ------------------------------------------------------------------------------------------------
# harness wrapper (python3 checks/C10.py --wrap <exe>): feeds the case lines to the harness; when the process dies on a case
# (segfault, sanitizer abort) that case is answered with a <crash ...> line and the remaining cases go to a fresh process, so
# that the failing input is identified exactly and the other cases are still evaluated
# ------------------------------------------------------------------------------------------------
def _wrap(exe):
    import sys, subprocess
    lines = sys.stdin.buffer.read().split(b'\n')
    if lines and lines[-1] == b'':
        lines.pop()
    i = 0
    crashes = 0
    w = sys.stdout.buffer
    while i < len(lines):
        p = subprocess.run([exe], input=b'\n'.join(lines[i:]) + b'\n', capture_output=True)
        out = p.stdout.split(b'\n')
        tail = out.pop() if out else b''          # text after the last newline: an unfinished line
        out = out[:len(lines) - i]
        for o in out:
            w.write(o + b'\n')
        i += len(out)
        if i < len(lines):
            crashes += 1
            err = p.stderr.decode(errors='replace')[-1500:].replace('\n', ' | ')
            w.write(('<crash rc=%s> %s\n' % (p.returncode, err)).encode())
            i += 1
            if crashes >= 20:                      # something is thoroughly wrong: do not restart for ever
                while i < len(lines):
                    w.write(b'<missing>\n')
                    i += 1
    w.flush()


if __name__ == '__main__':
    import sys
    if len(sys.argv) == 3 and sys.argv[1] == '--wrap':
        _wrap(sys.argv[2])
