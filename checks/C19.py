"""C19 -- serialized objects round-trip exactly; malformed archives are rejected safely.

Can also be run as `python3 checks/C19.py --wrap <exe>`: a line-protocol supervisor that restarts the harness after a
crash (sanitizer abort, signal) so that exactly the crashing input is reported as `<crash ...>`."""
import os, sys, struct, subprocess, re

if __name__ == '__main__' and len(sys.argv) >= 3 and sys.argv[1] == '--wrap':
    # ---- supervisor mode (no vlib import: must start fast and never fail) ----
    lines = sys.stdin.read().split('\n')
    if lines and lines[-1] == '':
        lines.pop()
    out = []
    pos = 0
    restarts = 0
    while pos < len(lines):
        if restarts > 40:
            out += ['<not-run>'] * (len(lines) - pos)
            break
        p = subprocess.run(sys.argv[2:], input=('\n'.join(lines[pos:]) + '\n').encode(), capture_output=True)
        got = p.stdout.decode(errors='replace').split('\n')
        if got and got[-1] == '':
            got.pop()
        if len(got) >= len(lines) - pos:
            out += got[:len(lines) - pos]
            break
        # the harness died while working on line pos+len(got)
        out += got
        err = p.stderr.decode(errors='replace')
        m = re.search(r'(ERROR: \w+: [^\n]*|runtime error: [^\n]*|terminate called[^\n]*)', err)
        out.append('<crash rc=%d> %s' % (p.returncode, (m.group(1) if m else err[-200:]).replace('\n', ' | ')))
        pos += len(got) + 1
        restarts += 1
    sys.stdout.write('\n'.join(out) + ('\n' if out else ''))
    sys.exit(0)

import vlib
from vlib import hexs, unhex

META = dict(
    property_id='C19',
    design_ref='DESIGN.md section 4, C19',
    technique=('Coq proof (structural induction over a type universe, size_t arithmetic mod 2^64) about an executable model of '
               'cppcms::archive + archive_traits; extracted-model correspondence and a direct property oracle on the real classes, '
               'with every truncation and every length-field mutation of valid archives (ASan/UBSan build in the thorough tier)'),
    level_text=('Theorems in coq/C19/Props.v over the model (type universe: PODs, strings, POD vectors, vector/list, set, map, pair / '
                'user class with fields, smart pointer, json with the parser as a parameter), for all types, values and byte strings: '
                'an accepted chunk lies inside the buffer (the repaired bounds test, mod 2^64); the loader never reads outside the '
                'buffer for any input and start position; it ends with a value that was read from inside the buffer and is not larger '
                'than the bytes consumed, or with one of the five archive exceptions; load(save v) = v ending exactly at the end, also '
                'embedded in a larger archive; every strict truncation of a valid archive is rejected; a length field that over-runs '
                'the rest of the archive is rejected by the chunk reader and by every loader that meets it; a successful load is '
                'unchanged by appended data. Session map format (session_interface save_data/load_data, which carries every object '
                'stored with store_data): load_data(save_data m) = m, the rebuilt map equals m for distinct keys, load_data of arbitrary '
                'bytes returns records that tile the buffer exactly or throws, never reads outside. The comparisons and pointer updates '
                'of archive::eof/next_chunk_size/read_chunk/read_chunk_as_string/write_chunk and the limits, bit-field widths and bounds '
                'tests of the session format are cut from the current source text, translated by cxx2v and proved equal to the model '
                '(Link.v: chunk reader and load_data assembled from the generated leafs = the model); everything else is tied '
                'by running the extracted model and the real archive classes (41 concrete C++ types incl. five user classes, also '
                'through session_interface / cache_interface store_data/fetch_data) on the same inputs.'),
    level_note=('Trusted: Coq kernel + vm_compute; ExtrOcamlBasic extraction; the hand model of archive.cpp / archive_traits.h (tied by '
                'correspondence on generated cases, not verified against the C++ text, except the leaf expressions named above; the regular-'
                'expression extraction of those expressions in checks/C19.py; bit-field allocation order of struct packed); the JSON parser is '
                'a parameter of the model (its verdicts on the chunks met are taken from the real parser, property C11); iteration order '
                'of sets/maps is canonicalised (sorted) on both sides; multiset/multimap are modelled as sequences printed sorted; '
                'json numbers with more than 16 significant '
                'digits do not survive the writer (C11) and are excluded from the round-trip domain (hypothesis json_fix).'),
)

LEAFS = ['c19_eof', 'c19_hdr_short', 'c19_overrun', 'c19_badlen', 'c19_rc_start', 'c19_rc_end', 'c19_rs_start', 'c19_rs_end', 'c19_wc_size',
         'c19_s_keylong', 'c19_s_vallong', 'c19_s_hdr', 'c19_s_fits', 'c19_s_more', 'c19_s_word']
LEAF_TU = os.path.join(vlib.WORK, 'C19', 'C19_archive_leafs.cpp')
GEN = {'Gen_C19': dict(src=LEAF_TU, incs=[], functions=[(n, 'g_' + n) for n in LEAFS])}


def function_body(src, header_re):
    m = re.search(header_re + r'\s*\{', src)
    if not m:
        return None
    i = m.end()
    depth = 1
    while i < len(src) and depth:
        depth += {'{': 1, '}': -1}.get(src[i], 0)
        i += 1
    return ' '.join(src[m.end():i - 1].split())


def session_leafs():
    """the same for session_interface.cpp: limits of the packed header, its bit-field widths, the two bounds tests of load_data"""
    src = open(os.path.join(vlib.REPO, 'src', 'session_interface.cpp')).read()
    src = re.sub(r'//[^\n]*', '', src)
    src = ' '.join(re.sub(r'/\*.*?\*/', '', src, flags=re.S).split())
    E = r'([^;{}]*?)'
    m1 = re.search(r'struct packed ?\{ ?uint32_t key_size ?: ?(\d+); ?uint32_t exposed ?: ?(\d+); ?uint32_t data_size ?: ?(\d+); ?packed\(\) ?\{ ?\}', src)
    m2 = re.search(r'packed\(unsigned ks, ?bool exp, ?unsigned ds\) ?\{ ?if ?\(' + E + r'\) ?throw cppcms_error\("session::save key too long"\); ?'
                   r'if ?\(' + E + r'\) ?throw cppcms_error\("session::save value too long"\); ?key_size ?= ?ks; ?exposed ?= ?exp ?\? ?1 ?: ?0; ?data_size ?= ?ds; ?\}', src)
    m3 = re.search(r'packed\(char const \*start, ?char const \*end\) ?\{ ?if ?\(' + E + r'\) ?\{ ?memcpy\(this, ?start, ?4\); ?\} ?else throw cppcms_error', src)
    m4 = re.search(r'while ?\(' + E + r'\) ?\{ ?packed p\(begin, ?end\); ?begin ?\+= ?sizeof\(p\); ?if ?\(' + E + r'\) ?\{ ?std::string key\(begin, ?begin ?\+ ?p\.key_size\); ?'
                   r'begin ?\+= ?p\.key_size; ?std::string val\(begin, ?begin ?\+ ?p\.data_size\); ?begin ?\+= ?p\.data_size;', src)
    if not (m1 and m2 and m3 and m4):
        return 'session_interface.cpp: struct packed / save_data / load_data no longer have the statement structure the model was written for (%s)' % \
            ','.join(n for n, m in (('bit-fields', m1), ('limits', m2), ('header test', m3), ('load loop', m4)) if not m)
    kb, eb, db = int(m1.group(1)), int(m1.group(2)), int(m1.group(3))
    fits = m4.group(2).replace('p.key_size', 'key_size').replace('p.data_size', 'data_size')
    for g in (m2.group(1), m2.group(2), m3.group(1), m4.group(1), fits):
        if re.search(r'[^\w\s<>=!+\-*()]', g) or re.search(r'\b(?!ks\b|ds\b|start\b|end\b|begin\b|key_size\b|data_size\b|int\b)[A-Za-z_]\w*', g):
            return 'session_interface.cpp: expression outside the translatable subset: ' + g
    return [
        '// from src/session_interface.cpp (pointers become byte offsets of type long; bit-field operands are passed as unsigned)',
        'bool c19_s_keylong(unsigned ks) { return %s; }' % m2.group(1),
        'bool c19_s_vallong(unsigned ds) { return %s; }' % m2.group(2),
        'bool c19_s_hdr(long start, long end) { return %s; }' % m3.group(1),
        'bool c19_s_fits(long begin, long end, unsigned key_size, unsigned data_size) { return %s; }' % fits,
        'bool c19_s_more(long begin, long end) { return %s; }' % m4.group(1),
        '// little-endian bit-field allocation of struct packed with the widths declared in the source: %d, %d, %d' % (kb, eb, db),
        'uint32_t c19_s_word(uint32_t ks, uint32_t ex, uint32_t ds) { return (ks & ((1u << %d) - 1)) | ((ex & ((1u << %d) - 1)) << %d) | ((ds & ((1u << %d) - 1)) << %d); }'
        % (kb, eb, kb, db, kb + eb)]


def make_leaf_tu():
    """cut the comparisons and pointer updates of the chunk reader/writer out of the CURRENT text of src/archive.cpp (verbatim, with
    buffer_.size() renamed to the parameter bsz) into a translation unit of loop-free integer functions for tools/cxx2v.py.
    Returns an error text when the functions no longer have the expected statement structure."""
    src = open(os.path.join(vlib.REPO, 'src', 'archive.cpp')).read()
    src = re.sub(r'//[^\n]*', '', src)
    src = re.sub(r'/\*.*?\*/', '', src, flags=re.S)
    E = r'([^;{}]*?)'
    shapes = [
        ('eof', r'bool\s+archive::eof\s*\(\s*\)', r'^return ' + E + r';$'),
        ('ncs', r'size_t\s+archive::next_chunk_size\s*\(\s*\)',
         r'^uint32_t size ?= ?0; if ?\( ?eof\(\) ?\) throw archive_error\("[^"]*"\); if ?\(' + E + r'\) ?\{? ?throw archive_error\("[^"]*"\); ?\}? ?'
         r'memcpy ?\( ?& ?size ?, ?buffer_\.c_str\(\) ?\+ ?ptr_ ?, ?4 ?\); if ?\(' + E + r'\) ?\{? ?throw archive_error\("[^"]*"\); ?\}? ?return size;$'),
        ('rc', r'void\s+archive::read_chunk\s*\(\s*void\s*\*\s*begin\s*,\s*size_t\s+len\s*\)',
         r'^size_t next ?= ?next_chunk_size\(\); if ?\(' + E + r'\) ?\{? ?throw archive_error\("[^"]*"\); ?\}? ?(ptr_ ?\+= ?[^;]*;) '
         r'(?:if ?\( ?len(?: ?> ?0| ?!= ?0)? ?\) ?)?memcpy ?\( ?begin ?, ?buffer_\.c_str\(\) ?\+ ?ptr_ ?, ?len ?\); (ptr_ ?\+= ?[^;]*;)$'),
        ('rs', r'std::string\s+archive::read_chunk_as_string\s*\(\s*\)',
         r'^size_t size ?= ?next_chunk_size\(\); std::string result ?\( ?buffer_\.c_str\(\) ?\+ ?' + E + r', ?size ?\); (ptr_ ?\+= ?[^;]*;) return result;$'),
        ('wc', r'void\s+archive::write_chunk\s*\(\s*void\s+const\s*\*\s*begin\s*,\s*size_t\s+len\s*\)',
         r'^(uint32_t size ?= ?len;) buffer_\.append ?\( ?reinterpret_cast<char \*> ?\(& ?size\) ?, ?4 ?\); '
         r'buffer_\.append ?\( ?reinterpret_cast<char const \*> ?\(begin\) ?, ?len ?\);$'),
    ]
    got = {}
    for name, hdr, body_re in shapes:
        body = function_body(src, hdr)
        if body is None:
            return 'archive::%s not found in src/archive.cpp' % name
        m = re.match(body_re, body)
        if not m:
            return 'archive::%s no longer has the statement structure the model was written for: %s' % (name, body[:300])
        got[name] = [g.replace('buffer_.size()', 'bsz').strip() for g in m.groups()]
    for name, parts in got.items():
        for g in parts:
            if 'buffer_' in g or '(' in g.replace('(bsz', '').replace('(ptr_', '').replace('(size', '').replace('(len', '').replace('(4', ''):
                return 'archive::%s: expression outside the translatable subset: %s' % (name, g)
    sess = session_leafs()
    if isinstance(sess, str):
        return sess
    tu = '\n'.join([
        '// GENERATED by checks/C19.py from src/archive.cpp (expressions copied verbatim; buffer_.size() -> bsz)',
        '#include <stddef.h>', '#include <stdint.h>',
        'bool c19_eof(size_t bsz, size_t ptr_) { return %s; }' % got['eof'][0],
        'bool c19_hdr_short(size_t bsz, size_t ptr_) { return %s; }' % got['ncs'][0],
        'bool c19_overrun(size_t bsz, size_t ptr_, uint32_t size) { return %s; }' % got['ncs'][1],
        'bool c19_badlen(size_t next, size_t len) { return %s; }' % got['rc'][0],
        'size_t c19_rc_start(size_t ptr_) { %s return ptr_; }' % got['rc'][1],
        'size_t c19_rc_end(size_t ptr_, size_t len) { %s %s return ptr_; }' % (got['rc'][1], got['rc'][2]),
        'size_t c19_rs_start(size_t ptr_) { return %s; }' % got['rs'][0],
        'size_t c19_rs_end(size_t ptr_, size_t size) { %s return ptr_; }' % got['rs'][1],
        'uint32_t c19_wc_size(size_t len) { %s return size; }' % got['wc'][0]] + sess + [''])
    vlib.write_if_changed(LEAF_TU, tu)
    return None

M32 = 1 << 32


# ------------------------------------------------------------------------------------------------
# type universe (spec strings as printed by the harness `types` command)
# ------------------------------------------------------------------------------------------------
TYPES = ['p4', 'p1', 'p8', 'p8', 's', 'v1', 'v2', 'v4', 'v8', 'Ls', 'LPp4s', 'Ss', 'Sp4', 'Msv4', 'Mp4Sp2', 'Os', 'LOLs', 'LLs',
         'Pp1p8', 'SPp4s', 'J', 'LJ', 'MsJ', 'Pp4Psv8', 'Pp8Pp12Pss', 'PsPp8PMp4sPOPp4Psv8PLPp8Pp12PssJ', 'MsPp4Psv8', 'OLp8',
         'LMp2Os', 'Lv4', 'Os', 'Ov4', 'Os', 'LOPp2s', 's', 'Bp4', 'Nsp2', 'OPp4s', 'p4', 'v16', 'Mp4Bs']
SERIALIZABLE = [23, 24, 25, 34]      # rec2, rec3, rec1: classes derived from serializable_base (session/cache store_data)


def parse_spec(s):
    pos = [0]

    def num():
        st = pos[0]
        while pos[0] < len(s) and s[pos[0]].isdigit():
            pos[0] += 1
        return int(s[st:pos[0]])

    def go():
        c = s[pos[0]]
        pos[0] += 1
        if c == 'u':
            return ('u',)
        if c == 'p':
            return ('p', num())
        if c == 's':
            return ('s',)
        if c == 'v':
            return ('v', num())
        if c in 'LSOB':
            return (c, go())
        if c in 'MPN':
            a = go()
            b = go()
            return (c, a, b)
        if c == 'J':
            return ('J',)
        raise ValueError('spec ' + s)
    t = go()
    if pos[0] != len(s):
        raise ValueError('spec trailing ' + s)
    return t


_spec_cache = {}


def spec_of(s):
    if s not in _spec_cache:
        _spec_cache[s] = parse_spec(s)
    return _spec_cache[s]


def plain(t):
    """only chunks whose bytes are returned verbatim: re-encoding the loaded value must give the consumed bytes"""
    k = t[0]
    if k in 'psvu':
        return True
    if k == 'L':
        return plain(t[1])
    if k == 'P':
        return plain(t[1]) and plain(t[2])
    return False


class Enc:
    def __init__(self):
        self.b = bytearray()
        self.h = []          # (offset of the 4-byte header, kind, chunk length)

    def chunk(self, data, kind):
        self.h.append((len(self.b), kind, len(data)))
        self.b += struct.pack('<I', len(data) & 0xffffffff)
        self.b += data


def enc(t, v, e):
    """independent encoder of the wire format (generator of valid archives and of header offsets)"""
    k = t[0]
    if k == 'p':
        e.chunk(v, 'pod')
    elif k == 's':
        e.chunk(v, 'str')
    elif k == 'v':
        e.chunk(v, 'podvec')
    elif k == 'J':
        e.chunk(v[1], 'json')
    elif k in 'LSB':
        e.chunk(struct.pack('<Q', len(v)), 'count')
        for x in v:
            enc(t[1], x, e)
    elif k in 'MN':
        e.chunk(struct.pack('<Q', len(v)), 'count')
        for a, b in v:
            enc(t[1], a, e)
            enc(t[2], b, e)
    elif k == 'P':
        enc(t[1], v[0], e)
        enc(t[2], v[1], e)
    elif k == 'O':
        if v is None:
            e.chunk(b'\x01', 'flag')
        else:
            e.chunk(b'\x00', 'flag')
            enc(t[1], v[1], e)
    elif k == 'u':
        pass
    else:
        raise ValueError(k)


def encode(t, v):
    e = Enc()
    enc(t, v, e)
    return bytes(e.b), e.h


def min_len(t, v):
    """lower bound of the archive bytes a loader must have consumed to return v (json text is re-generated: 4)"""
    k = t[0]
    if k in 'psv':
        return 4 + len(v)
    if k == 'J':
        return 4
    if k in 'LSB':
        return 12 + sum(min_len(t[1], x) for x in v)
    if k in 'MN':
        return 12 + sum(min_len(t[1], a) + min_len(t[2], b) for a, b in v)
    if k == 'P':
        return min_len(t[1], v[0]) + min_len(t[2], v[1])
    if k == 'O':
        return 5 + (0 if v is None else min_len(t[1], v[1]))
    return 0


def text(t, v):
    k = t[0]
    if k in 'psv':
        return hexs(v)
    if k == 'J':
        return 'j' + hexs(v[1])
    if k in 'LSB':
        return '[' + ','.join(text(t[1], x) for x in v) + ']'
    if k in 'MN':
        return '[' + ','.join('(' + text(t[1], a) + ',' + text(t[2], b) + ')' for a, b in v) + ']'
    if k == 'P':
        return '(' + text(t[1], v[0]) + ',' + text(t[2], v[1]) + ')'
    if k == 'O':
        return 'N' if v is None else '&' + text(t[1], v[1])
    if k == 'u':
        return '()'
    raise ValueError(k)


class BadText(Exception):
    pass


def parse_text(t, s):
    """value text printed by the harness -> python value (raises BadText)"""
    pos = [0]

    def peek():
        return s[pos[0]] if pos[0] < len(s) else ''

    def expect(c):
        if peek() != c:
            raise BadText('expected %r at %d' % (c, pos[0]))
        pos[0] += 1

    def tok():
        st = pos[0]
        while pos[0] < len(s) and s[pos[0]] in '0123456789abcdef-':
            pos[0] += 1
        if st == pos[0]:
            raise BadText('token at %d' % st)
        try:
            return unhex(s[st:pos[0]])
        except ValueError:
            raise BadText('hex')

    def go(t):
        k = t[0]
        if k in 'psv':
            return tok()
        if k == 'J':
            expect('j')
            return ('j', tok())
        if k in 'LSMBN':
            expect('[')
            items = []
            if peek() == ']':
                pos[0] += 1
                return items
            et = t[1] if k not in 'MN' else ('P', t[1], t[2])
            while True:
                items.append(go(et))
                if peek() == ',':
                    pos[0] += 1
                    continue
                expect(']')
                return items
        if k == 'P':
            expect('(')
            a = go(t[1])
            expect(',')
            b = go(t[2])
            expect(')')
            return (a, b)
        if k == 'O':
            if peek() == 'N':
                pos[0] += 1
                return None
            expect('&')
            return ('&', go(t[1]))
        if k == 'u':
            expect('(')
            expect(')')
            return ()
        raise BadText(k)
    v = go(t)
    if pos[0] != len(s):
        raise BadText('trailing')
    return v


def ckey(t, v):
    """C++ ordering of set elements / map keys of the harness types (signed integers, byte strings, pairs)"""
    k = t[0]
    if k == 'p':
        return int.from_bytes(v, 'little', signed=True)
    if k == 's':
        return v
    if k == 'P':
        return (ckey(t[1], v[0]), ckey(t[2], v[1]))
    raise ValueError('no ordering for ' + k)


# ------------------------------------------------------------------------------------------------
# value generators
# ------------------------------------------------------------------------------------------------
def rbytes(rng, n):
    return bytes(rng.getrandbits(8) for _ in range(n))


def gen_pod(rng, n):
    c = rng.randrange(6)
    if c == 0:
        return bytes(n)
    if c == 1:
        return b'\xff' * n
    if c == 2:
        return (rng.randrange(0, 300) % (1 << (8 * n))).to_bytes(n, 'little')
    if c == 3:
        return ((1 << (8 * n - 1)) - rng.randrange(0, 2)).to_bytes(n, 'little')
    return rbytes(rng, n)


STR_LENS = [0, 0, 1, 1, 2, 3, 4, 5, 7, 8, 9, 15, 16, 17, 31, 33]


def gen_str(rng):
    n = rng.choice(STR_LENS)
    c = rng.randrange(4)
    if c == 0:
        return bytes(rng.choice(b'abcxyz019 _') for _ in range(n))
    if c == 1:
        return bytes(rng.choice(b'\x00\x00a\xff\x01') for _ in range(n))
    return rbytes(rng, n)


JSON_STR_ATOMS = [b'a', b'b', b'z', b'0', b' ', b'_', b'/', b'\\"', b'\\\\', b'\\n', b'\\t', b'\\r', b'\\b', b'\\f', b'\\u0000',
                  b'\\u0001', b'\\u001f', b'\xc3\xa9', b'\xe2\x82\xac', b'\xf0\x9f\x98\x80', b'<', b'\x7f']


def gen_json_str(rng):
    return b'"' + b''.join(rng.choice(JSON_STR_ATOMS) for _ in range(rng.choice([0, 1, 2, 3, 5, 9]))) + b'"'


def gen_json(rng, depth=0):
    """compact json text that cppcms::json writes back identically (keys sorted and distinct, %.16g numbers)"""
    c = rng.randrange(10 if depth < 3 else 7)
    if c == 0:
        return b'null'
    if c == 1:
        return rng.choice([b'true', b'false'])
    if c in (2, 3):
        return rng.choice([b'0', b'1', b'-1', b'42', b'-17', b'1000000', b'0.5', b'-2.25', b'1e+20', b'123456789012', b'1e-07', b'3.125'])
    if c in (4, 5, 6):
        return gen_json_str(rng)
    if c in (7, 8):
        return b'[' + b','.join(gen_json(rng, depth + 1) for _ in range(rng.choice([0, 1, 2, 3]))) + b']'
    keys = {}
    for _ in range(rng.choice([0, 1, 2, 3])):
        k = gen_json_str(rng)
        keys[json_key_bytes(k)] = k
    return b'{' + b','.join(keys[k] + b':' + gen_json(rng, depth + 1) for k in sorted(keys)) + b'}'


def json_key_bytes(k):
    """decoded bytes of a generated json string literal (ordering/uniqueness of object keys is on decoded bytes)"""
    s = k[1:-1]
    out = bytearray()
    i = 0
    esc = {ord('n'): 10, ord('t'): 9, ord('r'): 13, ord('b'): 8, ord('f'): 12, ord('"'): 34, ord('\\'): 92, ord('/'): 47}
    while i < len(s):
        if s[i] == 92:
            if s[i + 1] == ord('u'):
                out.append(int(s[i + 2:i + 6], 16))
                i += 6
            else:
                out.append(esc[s[i + 1]])
                i += 2
        else:
            out.append(s[i])
            i += 1
    return bytes(out)


def gen_value(t, rng, depth=0):
    k = t[0]
    if k == 'p':
        return gen_pod(rng, t[1])
    if k == 's':
        return gen_str(rng)
    if k == 'v':
        return rbytes(rng, t[1] * rng.choice([0, 0, 1, 1, 2, 3, 5, 8])) if rng.random() < 0.8 else \
            b''.join(gen_pod(rng, t[1]) for _ in range(rng.randrange(0, 5)))
    if k == 'J':
        return ('j', gen_json(rng))
    if k == 'L':
        n = rng.choice([0, 0, 1, 1, 2, 3, 4] if depth < 2 else [0, 1, 1, 2])
        return [gen_value(t[1], rng, depth + 1) for _ in range(n)]
    if k == 'S':
        n = rng.choice([0, 0, 1, 2, 3, 4, 6] if depth < 2 else [0, 1, 2])
        d = {}
        for _ in range(n):
            x = gen_value(t[1], rng, depth + 1)
            d.setdefault(ckey(t[1], x), x)
        return [d[key] for key in sorted(d)]
    if k == 'M':
        n = rng.choice([0, 0, 1, 2, 3, 4] if depth < 2 else [0, 1, 2])
        d = {}
        for _ in range(n):
            a = gen_value(t[1], rng, depth + 1)
            d.setdefault(ckey(t[1], a), (a, gen_value(t[2], rng, depth + 1)))
        return [d[key] for key in sorted(d)]
    if k == 'B':
        xs = [gen_value(t[1], rng, depth + 1) for _ in range(rng.choice([0, 0, 1, 2, 3, 4, 6] if depth < 2 else [0, 1, 2]))]
        xs += [rng.choice(xs) for _ in range(rng.choice([0, 0, 1, 2]))] if xs else []
        return sorted(xs, key=lambda x: ckey(t[1], x))
    if k == 'N':
        ps = [(gen_value(t[1], rng, depth + 1), gen_value(t[2], rng, depth + 1)) for _ in range(rng.choice([0, 0, 1, 2, 3, 4]))]
        ps += [(rng.choice(ps)[0], gen_value(t[2], rng, depth + 1)) for _ in range(rng.choice([0, 0, 1, 2]))] if ps else []
        return sorted(ps, key=lambda p: ckey(t[1], p[0]))
    if k == 'P':
        return (gen_value(t[1], rng, depth), gen_value(t[2], rng, depth))
    if k == 'O':
        return None if rng.random() < 0.3 else ('&', gen_value(t[1], rng, depth + 1))
    if k == 'u':
        return ()
    raise ValueError(k)


def min_value(t):
    """the smallest value of a type: empty containers, empty strings, null pointers, zero PODs"""
    k = t[0]
    if k == 'p':
        return bytes(t[1])
    if k in 'sv':
        return b''
    if k == 'J':
        return ('j', b'null')
    if k in 'LSMBN':
        return []
    if k == 'P':
        return (min_value(t[1]), min_value(t[2]))
    if k == 'O':
        return None
    return ()


def one_each(t):
    """containers with exactly one minimal element, non-null pointers to minimal values, a NUL string"""
    k = t[0]
    if k == 'p':
        return b'\x01' + bytes(t[1] - 1)
    if k == 's':
        return b'\x00'
    if k == 'v':
        return bytes(t[1])
    if k == 'J':
        return ('j', b'[]')
    if k in 'LSB':
        return [one_each(t[1])]
    if k in 'MN':
        return [(one_each(t[1]), one_each(t[2]))]
    if k == 'P':
        return (one_each(t[1]), one_each(t[2]))
    if k == 'O':
        return ('&', one_each(t[1]))
    return ()


def header_mutations(length, remaining):
    """replacement values for a 4-byte length field whose true value is `length`, with `remaining` bytes after the field"""
    vals = set()
    for d in range(1, 5):
        vals.update([length + d, length - d, remaining + d, remaining - d])
    vals.update([0, remaining, 1 << 31, (1 << 31) - 1, M32 - 1, M32 - 2, M32 - 4, M32 - 5, M32 - remaining - 4 if remaining + 4 < M32 else 0,
                 (M32 - 4 - remaining + length) % M32, 0x100, 0x10000, 0x1000000])
    return sorted(v for v in vals if 0 <= v < M32 and v != length)


# ---- session map format (session_interface::save_data / load_data) ----
def sess_pack(ks, ex, ds):
    return struct.pack('<I', (ks & 1023) | ((1 if ex else 0) << 10) | ((ds & 0x1fffff) << 11))


def sess_encode(entries):
    """entries: list of (key, exposed, value) -> (bytes, header offsets)"""
    b = bytearray()
    offs = []
    for k, e, v in entries:
        offs.append(len(b))
        b += sess_pack(len(k), e, len(v)) + k + v
    return bytes(b), offs


def sess_tok(b):
    if len(b) > 64 and b == b'x' * len(b):
        return '*%d' % len(b)
    return hexs(b)


def sess_text(entries):
    return '[' + ','.join('%s:%d:%s' % (sess_tok(k), 1 if e else 0, sess_tok(v)) for k, e, v in entries) + ']'


def sess_parse(text):
    body = text[1:-1]
    out = []
    if body:
        for item in body.split(','):
            k, e, v = item.split(':')
            out.append((b'x' * int(k[1:]) if k.startswith('*') else unhex(k), e == '1', b'x' * int(v[1:]) if v.startswith('*') else unhex(v)))
    return out


def sbytes(rng, n):
    """bytes for session keys/values: anything except '_' (keys starting with '_' are the session's own settings)"""
    return bytes(rng.choice(SESS_ALPHA) for _ in range(n))


SESS_ALPHA = [b for b in range(256) if b != 0x5f]


def gen_session_cases(ctx, add3):
    rng = ctx.rng
    maps = [[], [(b'', False, b'')], [(b'a', True, b'\x00')], [(b'k', False, b'v'), (b'k2', True, b'')]]
    for _ in range(ctx.scale(60, 400)):
        d = {}
        for _ in range(rng.choice([1, 1, 2, 3, 4, 6])):
            k = sbytes(rng, rng.choice([0, 1, 1, 2, 3, 5, 8, 17]))
            d[k] = (k, rng.random() < 0.4, sbytes(rng, rng.choice([0, 0, 1, 2, 4, 9, 30, 100])))
        maps.append([d[k] for k in sorted(d)])
    # size limits of the packed header: key_size 10 bits, data_size 21 bits
    for kl in (1022, 1023, 1024, 1025, 2048):
        maps.append([(b'x' * kl, False, b'v')])
    for vl in (2047, 2048, 2049, 65535, 65536) + (() if ctx.quick() else (2097151, 2097152)):
        maps.append([(b'a', True, b'x' * vl)])
    maps.append([(b'a', False, b'1'), (b'x' * 1024, False, b'2')])
    for m in maps:
        add3('ss %s' % sess_text(m))
        if any(len(k) > 1023 or len(v) > 5000 for k, e, v in m):
            continue
        buf, offs = sess_encode(m)
        n = len(buf)
        h = hexs(buf)
        if n <= 200:
            for k in range(0, n + 1):
                add3('sd %s' % hexs(buf[:k]))
        for off in offs[:6]:
            w = struct.unpack('<I', buf[off:off + 4])[0]
            ks, ex, ds = w & 1023, (w >> 10) & 1, w >> 11
            rem = n - off - 4
            for ks2, ds2 in [(ks + 1, ds), (ks - 1, ds), (ks, ds + 1), (ks, ds - 1), (ks + 1, ds - 1), (ks - 1, ds + 1), (0, ds), (ks, 0), (1023, ds),
                             (ks, 0x1fffff), (1023, 0x1fffff), (rem - ds, ds), (ks, rem - ks), (rem - ds + 1, ds), (ks, rem - ks + 1), (0, rem), (0, rem + 1)]:
                if 0 <= ks2 <= 1023 and 0 <= ds2 <= 0x1fffff:
                    add3('sd %s' % hexs(buf[:off] + sess_pack(ks2, ex, ds2) + buf[off + 4:]))
            add3('sd %s' % hexs(buf[:off] + sess_pack(ks, 1 - ex, ds) + buf[off + 4:]))
        add3('sd %s' % hexs(buf + buf))          # every key twice: the later record wins
        for _ in range(4):
            if n:
                i = rng.randrange(n)
                add3('sd %s' % hexs(buf[:i] + bytes([rng.choice(SESS_ALPHA)]) + buf[i + 1:]))
    # exhaustive small domain: one header (key_size 0..3, exposed, data_size 0..3) followed by 0..7 bytes, and two-record buffers
    for ks in range(4):
        for ex in (0, 1):
            for ds in range(4):
                for n in range(8):
                    add3('sd %s' % hexs(sess_pack(ks, ex, ds) + bytes(range(0x61, 0x61 + n))))
    for k1 in (b'', b'a', b'b'):
        for k2 in (b'', b'a', b'b'):
            for e1 in (0, 1):
                add3('sd %s' % hexs(sess_pack(len(k1), e1, 1) + k1 + b'1' + sess_pack(len(k2), 1 - e1, 2) + k2 + b'22'))
    for _ in range(ctx.scale(300, 3000)):
        n = rng.choice([1, 2, 3, 4, 5, 6, 8, 9, 12, 16, 24])
        if rng.random() < 0.6:
            b = b''.join(sess_pack(rng.randrange(0, 4), rng.randrange(2), rng.randrange(0, 5)) + sbytes(rng, rng.randrange(0, 6)) for _ in range(3))[:n]
        else:
            b = sbytes(rng, n)
        add3('sd %s' % hexs(b))


def gen_cases(ctx):
    rng = ctx.rng
    cases = []
    seen = set()

    def add(line):
        if line not in seen:
            seen.add(line)
            cases.append(line + ' j')

    nvals = ctx.scale(3, 14)
    max_tr_all = ctx.scale(160, 600)
    max_hdr = ctx.scale(10, 40)
    for tid, spec in enumerate(TYPES):
        t = spec_of(spec)
        pre = '%d %s' % (tid, spec)
        vals = [min_value(t), one_each(t)]
        vals += [gen_value(t, rng) for _ in range(nvals)]
        for vi, v in enumerate(vals):
            vt = text(t, v)
            arch, hdrs = encode(t, v)
            h = hexs(arch)
            n = len(arch)
            add('rt %s %s' % (pre, vt))
            if tid in SERIALIZABLE:
                add('sc %s %s' % (pre, vt))
            # every truncation (all of them for archives up to max_tr_all bytes, else around every chunk boundary + sample)
            if n <= max_tr_all:
                ks = range(0, n + 1)
            else:
                ks = set([n, n - 1, n - 2, n - 3, n - 4, n - 5])
                for off, kind, ln in hdrs:
                    for d in range(-2, 7):
                        ks.add(off + d)
                    ks.add(off + 4 + ln - 1)
                ks.update(rng.randrange(0, n) for _ in range(60))
                ks = sorted(k for k in ks if 0 <= k <= n)
            for k in ks:
                add('tr %s %d %s' % (pre, k, h))
                if tid in SERIALIZABLE and (k % 3 == 0 or n - k < 6):
                    add('scl %s %s' % (pre, hexs(arch[:k])))
            # every 4-byte length field: over-running, under-running, wrapping values
            hs = hdrs if len(hdrs) <= max_hdr else rng.sample(hdrs, max_hdr)
            for off, kind, ln in hs:
                rem = n - off - 4
                for val in header_mutations(ln, rem):
                    add('muh %s %d %d %s' % (pre, off, val, h))
                if kind == 'count':
                    # the element count itself (low and high word of the size_t)
                    cnt = struct.unpack('<Q', arch[off + 4:off + 12])[0]
                    for val in sorted(set([0, 1, cnt + 1, cnt + 2, max(cnt - 1, 0), 255, 1 << 16, (1 << 31), M32 - 1]) - {cnt}):
                        add('mu %s %d %d %s' % (pre, off + 4, val, h))
                    for val in (1, 1 << 31, M32 - 1):
                        add('mu %s %d %d %s' % (pre, off + 8, val, h))
                if kind == 'flag':
                    for fb in (0, 1, 2, 0x80, 0xff):
                        if arch[off + 4] != fb:
                            add('ld %s %s' % (pre, hexs(arch[:off + 4] + bytes([fb]) + arch[off + 5:])))
            # single-byte damage anywhere
            for _ in range(ctx.scale(12, 60)):
                if n == 0:
                    break
                i = rng.randrange(n)
                b = bytearray(arch)
                b[i] = rng.choice([0, 1, 0xff, b[i] ^ 1, b[i] ^ 0x80, (b[i] + 1) & 0xff, rng.getrandbits(8)])
                add('ld %s %s' % (pre, hexs(bytes(b))))
                if tid in SERIALIZABLE:
                    add('scl %s %s' % (pre, hexs(bytes(b))))
            # bytes removed / inserted in the middle, two archives glued
            for _ in range(ctx.scale(4, 20)):
                if n < 2:
                    break
                i = rng.randrange(n)
                j = min(n, i + rng.choice([1, 2, 3, 4, 8]))
                add('ld %s %s' % (pre, hexs(arch[:i] + arch[j:])))
                add('ld %s %s' % (pre, hexs(arch[:i] + rbytes(rng, j - i) + arch[i:])))
            add('ld %s %s' % (pre, hexs(arch + arch)))
        # more values for the round trip alone
        for _ in range(ctx.scale(30, 250)):
            v = gen_value(t, rng)
            add('rt %s %s' % (pre, text(t, v)))
            if tid in SERIALIZABLE:
                add('sc %s %s' % (pre, text(t, v)))
        # first-header grid: header value x bytes that follow (the edges of the bounds test), every type
        for r in range(0, 14):
            body = bytes((7 * i + 1) & 0xff for i in range(r))
            for val in sorted(set(list(range(0, r + 6)) + [M32 - 1, M32 - 4, 1 << 31])):
                add('ld %s %s' % (pre, hexs(struct.pack('<I', val) + body)))
        for k in range(0, 4):
            add('ld %s %s' % (pre, hexs(b'\x01\x00\x00\x00'[:k])))
        # random bytes, biased to small little-endian words
        for _ in range(ctx.scale(60, 600)):
            n = rng.choice([1, 2, 3, 4, 5, 8, 12, 13, 16, 20, 24, 40])
            if rng.random() < 0.6:
                b = b''.join(struct.pack('<I', rng.choice([0, 1, 2, 3, 4, 8, 8, 8, rng.randrange(0, 20)])) for _ in range((n + 3) // 4))[:n]
            else:
                b = rbytes(rng, n)
            add('ld %s %s' % (pre, hexs(b)))
    # exhaustive small domain: every archive  <4-byte header h><n payload bytes>, h in 0..10 with each high byte variant,
    # n in 0..9, through string / char / vector<short> / shared_ptr<string> / vector<string>
    for tid in (4, 1, 6, 15, 9, 0):
        pre = '%d %s' % (tid, TYPES[tid])
        for hv in range(0, 11):
            for hi in (0, 1 << 8, 1 << 16, 1 << 24, 0xff << 24):
                for n in range(0, 10):
                    add('ld %s %s' % (pre, hexs(struct.pack('<I', hv | hi) + bytes(range(0x61, 0x61 + n)))))
    # json members: a complete json value followed by something else must be refused (the whole chunk is one value)
    for tid in (20, 21, 22):
        t = spec_of(TYPES[tid])
        for junk in (b' x', b' 1', b']', b'}', b',', b'\x00', b' /', b'"', b' null', b'\n\n1'):
            for base in (b'null', b'1', b'"a"', b'[]', b'{"a":1}', b'[1,2]'):
                v = ('j', base + junk)
                v = v if tid == 20 else [v] if tid == 21 else [(b'k', v)]
                add('ld %d %s %s' % (tid, TYPES[tid], hexs(encode(t, v)[0])))
    gen_session_cases(ctx, add)
    # large objects (chunk sizes beyond 16 bits, many elements)
    big = [(4, rbytes(rng, 70000)), (8, rbytes(rng, 8 * 9000)), (9, [rbytes(rng, rng.randrange(0, 40)) for _ in range(ctx.scale(150, 500))]),
           (12, None)]
    nsmall = len(cases)
    for tid, v in big:
        spec = TYPES[tid]
        t = spec_of(spec)
        if v is None:
            d = {}
            for _ in range(ctx.scale(300, 1000)):
                x = rbytes(rng, 4)
                d[ckey(t[1], x)] = x
            v = [d[k] for k in sorted(d)]
        arch, hdrs = encode(t, v)
        pre = '%d %s' % (tid, spec)
        add('rt %s %s' % (pre, text(t, v)))
        n = len(arch)
        for k in sorted(set([0, 3, 4, 5, n // 2, n - 5, n - 4, n - 3, n - 2, n - 1, n])):
            add('tr %s %d %s' % (pre, k, hexs(arch)))
        off, kind, ln = hdrs[0]
        for val in (ln + 1, ln - 1, n - 4, n - 3, M32 - 1):
            add('muh %s %d %d %s' % (pre, off, val, hexs(arch)))
    # the large cases are the slow ones for the model: spread them over the list (the runners split it into contiguous parts)
    small, large = cases[:nsmall], cases[nsmall:]
    step = max(1, len(small) // (len(large) + 1))
    out = []
    for i, c in enumerate(small):
        out.append(c)
        if (i + 1) % step == 0 and large:
            out.append(large.pop())
    return out + large


# ------------------------------------------------------------------------------------------------
# oracle: the property evaluated on the implementation's answer alone
# ------------------------------------------------------------------------------------------------
RE_OK = re.compile(r'^ok ptr=(\d+) eof=([01])(?: v=(\S+))?')


def check_loaded(op, t, arch, res):
    """res: text after the op token(s), 'ok ptr=.. eof=.. v=..' | 'err:..' | 'exc:..'"""
    if res.startswith('err:'):
        if res.startswith('err:other'):
            return ('unknown-archive-error', 'archive_error with an unexpected text: ' + res[:80])
        return None
    if res.startswith('exc:'):
        # the property allows any exception; an exception that is not archive_error is still reported by the correspondence
        return None
    m = RE_OK.match(res)
    if not m:
        return ('bad-output-' + op, 'unexpected harness answer ' + res[:200])
    ptr, eof = int(m.group(1)), m.group(2)
    if ptr > len(arch):
        return ('read-position-beyond-archive', 'load succeeded with the read position %d in an archive of %d bytes' % (ptr, len(arch)))
    if (eof == '1') != (ptr >= len(arch)):
        return ('eof-inconsistent', 'eof() disagrees with the read position')
    if m.group(3) is None:
        return None
    try:
        v = parse_text(t, m.group(3))
    except BadText as e:
        return ('bad-output-' + op, 'value text does not parse: %s' % e)
    need = min_len(t, v)
    if need > ptr:
        return ('returned-data-longer-than-bytes-read',
                'the loaded value holds %d bytes of chunk data+headers but only %d bytes of the archive (%d long) were consumed: '
                'data came from outside the archive' % (need, ptr, len(arch)))
    if plain(t):
        re_enc, _ = encode(t, v)
        if re_enc != arch[:ptr]:
            return ('loaded-value-not-what-the-bytes-say', 're-encoding the loaded value does not give the consumed bytes')
    return None


def oracle(case, out):
    c = case.split()
    op = c[0]
    if out.startswith('<crash'):
        return ('crash-on-load' if op in ('ld', 'mu', 'muh', 'tr', 'scl') else 'crash-on-roundtrip',
                'harness died on this input (memory error / abort): ' + out[:300])
    if out.startswith('<not-run>'):
        return None
    o = out.split()
    if not o or o[0] != op or 'BAD-' in out or 'NO-SERVICE' in out or 'NOT-SERIALIZABLE' in out:
        return ('bad-output-' + op, 'unexpected harness answer ' + out[:200])
    body = out[len(op) + 1:]
    if op in ('sd', 'ss'):
        return session_oracle(op, c, body, out)
    t = spec_of(c[2])
    if op == 'ld':
        return check_loaded(op, t, unhex(c[3]), body)
    if op in ('mu', 'muh'):
        off, val = int(c[3]), int(c[4])
        arch = bytearray(unhex(c[5]))
        arch[off:off + 4] = struct.pack('<I', val)
        r = check_loaded(op, t, bytes(arch), body)
        if r:
            return r
        if op == 'muh' and val > len(arch) - off - 4 and body.startswith('ok'):
            return ('overrunning-length-accepted', 'a chunk length of %d with %d bytes left after the field was accepted' % (val, len(arch) - off - 4))
        return None
    if op == 'tr':
        k = int(c[3])
        arch = unhex(c[4])
        m = re.match(r'^F:(.*?) T:(.*)$', body)
        if not m:
            return ('bad-output-tr', 'unexpected harness answer ' + out[:200])
        full, tr = m.group(1), m.group(2)
        r = check_loaded(op, t, arch, full) or check_loaded(op, t, arch[:k], tr)
        if r:
            return r
        mf = RE_OK.match(full)
        if mf and tr.startswith('ok') and k < int(mf.group(1)):
            return ('truncated-archive-accepted', 'the archive needs %s bytes but its first %d bytes were loaded successfully' % (mf.group(1), k))
        if mf and k >= int(mf.group(1)):
            mt = RE_OK.match(tr)
            if not mt or mt.group(1) != mf.group(1):
                return ('load-depends-on-trailing-bytes', 'cutting bytes behind the object changed the result of the load')
        return None
    if op == 'rt':
        if 'SAVE-PATHS-DIFFER' in out:
            return ('save-paths-differ', 'operator<< and operator& (save mode) / archive copy give different bytes')
        m = re.match(r'^A=(\S+) (.*)$', body)
        if not m:
            return ('bad-output-rt', 'unexpected harness answer ' + out[:200])
        arch = unhex(m.group(1))
        res = m.group(2)
        if not res.startswith('ok'):
            return ('roundtrip-load-fails', 'loading a freshly saved object failed: ' + res[:60])
        r = check_loaded(op, t, arch, res)
        if r:
            return r
        mm = re.search(r' eq=(\S+) eqd=(\S+)', res)
        mo = RE_OK.match(res)
        if not mm or mm.group(1) != '1':
            return ('roundtrip-not-equal', 'the loaded object differs from the saved one')
        if mm.group(2) != '1':
            return ('roundtrip-into-used-object-not-equal', 'loading into an object that already holds data gives a different object (%s)' % mm.group(2))
        if int(mo.group(1)) != len(arch):
            return ('roundtrip-leaves-bytes', 'the load did not consume the whole archive')
        # the printed value is the one the case asked for (sets/maps are printed sorted on both sides)
        try:
            want = parse_text(t, c[3])
            got = parse_text(t, mo.group(3))
        except BadText as e:
            return ('bad-output-rt', str(e))
        if canon(t, want) != canon(t, got):
            return ('roundtrip-not-equal', 'the value printed after the load is not the value that was built')
        return None
    if op == 'sc':
        if 'threw' in out:
            return ('session-cache-roundtrip-throws', 'store_data/fetch_data threw: ' + out[:200])
        m = re.match(r'^S=(\S+) eq=(\S+) v=(\S+) C=(\S+) found=(\S+) eq=(\S+) v=(\S+)', body)
        if not m:
            return ('bad-output-sc', 'unexpected harness answer ' + out[:200])
        if m.group(2) != '1':
            return ('session-roundtrip-not-equal', 'session_interface fetch_data(store_data(x)) != x')
        if m.group(5) != '1' or m.group(6) != '1':
            return ('cache-roundtrip-not-equal', 'cache_interface fetch_data(store_data(x)) != x or not found')
        try:
            want = canon(t, parse_text(t, c[3]))
            if canon(t, parse_text(t, m.group(3))) != want or canon(t, parse_text(t, m.group(7))) != want:
                return ('session-cache-roundtrip-not-equal', 'the value printed after fetch_data is not the value stored')
        except BadText as e:
            return ('bad-output-sc', str(e))
        return None
    if op == 'scl':
        arch = unhex(c[3])
        m = re.match(r'^S:(.*?) C:(.*?) jl=', body)
        if not m:
            return ('bad-output-scl', 'unexpected harness answer ' + out[:200])
        for part in (m.group(1), m.group(2)):
            if part.startswith('notfound'):
                return ('cache-frame-lost', 'a frame just stored was not found')
            if part.startswith('ok v='):
                try:
                    v = parse_text(t, part[5:])
                except BadText as e:
                    return ('bad-output-scl', str(e))
                if min_len(t, v) > len(arch):
                    return ('returned-data-longer-than-bytes-read', 'fetch_data returned more data than the stored bytes hold')
        return None
    return ('bad-output-' + op, 'unknown op')


def session_oracle(op, c, body, out):
    if body.startswith('exc:'):
        return None
    if op == 'sd':
        buf = unhex(c[1])
        if body in ('err:pack', 'err:data'):
            return None
        if not body.startswith('ok ['):
            return ('bad-output-sd', 'unexpected harness answer ' + out[:200])
        try:
            ent = sess_parse(body[3:])
        except Exception:
            return ('bad-output-sd', 'entries do not parse: ' + out[:200])
        if sum(4 + len(k) + len(v) for k, e, v in ent) > len(buf):
            return ('session-data-longer-than-bytes-read', 'load_data returned keys/values that need more bytes than the stored string has')
        return None
    want = sess_parse(c[1])
    too_long = any(len(k) >= 1024 or len(v) >= 2 * 1024 * 1024 for k, e, v in want)
    if body in ('err:keylong', 'err:vallong'):
        return None if too_long else ('session-save-refuses-valid-map', 'save refused a map whose keys and values are within the limits')
    if body.startswith('err:'):
        return ('session-roundtrip-fails', 'a freshly saved session map does not load: ' + body[:40])
    m = re.match(r'^D=(\S+) ok (\S+) eq=(\S+)$', body)
    if not m:
        return ('bad-output-ss', 'unexpected harness answer ' + out[:200])
    if too_long:
        return ('session-save-accepts-oversized-entry', 'a key of 1024+ bytes or a value of 2 MiB+ was saved (the packed header cannot hold its size)')
    try:
        got = sess_parse(m.group(2))
    except Exception:
        return ('bad-output-ss', 'entries do not parse')
    if m.group(3) != '1' or sorted(got) != sorted(want):
        return ('session-map-roundtrip-not-equal', 'the session map loaded by the next request differs from the one saved')
    return None


def canon(t, v):
    k = t[0]
    if k in 'psv':
        return v
    if k == 'J':
        return v
    if k == 'L':
        return [canon(t[1], x) for x in v]
    if k in 'SB':
        return sorted((canon(t[1], x) for x in v), key=repr)
    if k in 'MN':
        return sorted(((canon(t[1], a), canon(t[2], b)) for a, b in v), key=repr)
    if k == 'P':
        return (canon(t[1], v[0]), canon(t[2], v[1]))
    if k == 'O':
        return None if v is None else ('&', canon(t[1], v[1]))
    return v


def nontrivial(case, out):
    c = case.split()
    if c[0] in ('sd', 'ss'):
        return c[1] not in ('-', '[]')
    if c[0] in ('rt', 'sc'):
        return True
    h = c[-2]
    return h != '-'


def outcome(s):
    if 'ok' in s.split(' ')[0:1] or s.startswith('ok'):
        return 'ok'
    m = re.match(r'(err:\w+|exc:\S+)', s)
    return m.group(1) if m else '?'


def classify(case, out):
    c = case.split()
    op = c[0]
    if op in ('sd', 'ss'):
        return 'session:%s:%s' % (op, 'ok' if ' ok ' in out or out.startswith('sd ok') else out[len(op) + 1:][:16])
    kinds = ''.join(sorted(set(ch for ch in c[2] if ch.isalpha())))
    body = out[len(op) + 1:]
    if op == 'tr':
        m = re.search(r' T:(\S+)', body)
        res = m.group(1) if m else '?'
    elif op == 'rt':
        m = re.match(r'A=\S+ (\S+)', body)
        res = m.group(1) if m else '?'
    elif op == 'sc':
        res = 'ok' if 'threw' not in body else 'threw'
    elif op == 'scl':
        m = re.match(r'S:(\S+)', body)
        res = m.group(1) if m else '?'
    else:
        res = body.split(' ')[0] if body else '?'
    return '%s:%s:%s' % (op, kinds, res[:24])


# ------------------------------------------------------------------------------------------------
def with_json_verdicts(cases, exe):
    """the model's json parser is the real one: run the harness once on the cases that involve json and copy the verdicts
    it logged (chunk -> canonical text | rejected) into the case line (last token), where the model driver reads them."""
    idx = [i for i, c in enumerate(cases) if c.split()[0] not in ('sd', 'ss') and 'J' in c.split()[2]] if cases else []
    if not idx:
        return cases, 0
    rc, outs, err = vlib.run_lines_parallel(exe, [cases[i] for i in idx])
    res = list(cases)
    if len(outs) != len(idx):
        return res, len(idx)        # a crash: the differential run reports it
    for i, o in zip(idx, outs):
        m = re.search(r' jl=(\S*)$', o)
        if m:
            res[i] = cases[i].rsplit(' ', 1)[0] + ' j' + m.group(1)
    return res, len(idx)


def strip_jtab(cases):
    out = []
    for c in cases:
        p = c.split()
        if p and p[-1].startswith('j') and ('=' in p[-1] or p[-1] == 'j'):
            out.append(c)
        else:
            out.append(c + ' j')
    return out


def run(ctx):
    e = make_leaf_tu()
    if e:
        ctx.broke('tie to source broken: ' + e)
        vlib.write_if_changed(LEAF_TU, '// ' + e.replace('\n', ' ') + '\n#error leaf extraction failed\n')
    errs = vlib.gen_coq(GEN)
    for n, e in errs:
        ctx.broke('translator cxx2v failed on %s (tie to source broken)' % n, e)
    res = vlib.coq_props('C19', extra_files=['C19/Link.v'])
    ctx.proof(res)
    ctx.coverage['trusted_base'] = [
        'Coq 8.16.1 kernel, vm_compute (examples only)',
        'extraction: ExtrOcamlBasic only, OCaml 4.13.1',
        'hand model coq/C19/Defs.v of src/archive.cpp and cppcms/archive_traits.h (tied by correspondence)',
        'harness/C19_archive.cpp (instantiates the real templates at 41 C++ types; `#define private public` only to read archive::ptr_), '
        'ocaml/C19_driver.ml, checks/C19.py (independent python encoder of the wire format, generators, oracle)',
        'the JSON parser/writer is external to the model: its verdict on every json chunk met is taken from the real parser (C11)',
        'g++ -fsanitize=address for harness + src/archive.cpp (both tiers); -fsanitize=address,undefined for the whole library (thorough tier)']
    ctx.assumptions = ['archives are smaller than 2^64 bytes (blen buf < M64); chunk payloads written are smaller than 2^32 bytes',
                       'x86-64: little-endian uint32_t/size_t, sizeof(size_t)=8',
                       'container elements consume at least one chunk (elems_ok): false only for containers of field-less user classes',
                       'round trip of json values: only for texts the parser/writer pair reproduces (json_fix)',
                       'sets/maps: C++ iteration order is not modelled (compared after sorting the printed elements)',
                       'session format: keys beginning with _ (the session own settings _t,_h,_s) are not generated; struct packed bit-fields '
                       'are allocated from bit 0 upwards (x86-64 System V ABI)']
    wrap = [sys.executable, os.path.abspath(__file__), '--wrap']
    # three independent builds side by side: harness against the library build, harness + src/archive.cpp compiled
    # with AddressSanitizer (its definitions of archive::* take precedence over the library's), extracted model
    import concurrent.futures
    with concurrent.futures.ThreadPoolExecutor(3) as ex:
        f2 = ex.submit(vlib.build_harness, 'C19_archive_san', ['C19_archive.cpp', os.path.join(vlib.REPO, 'src', 'archive.cpp')],
                       extra=['-DC19_WITH_SERVICE', '-fsanitize=address', '-fno-omit-frame-pointer'])
        f3 = ex.submit(lambda: (vlib.coq_make(['C19/SessDefs.vo']), vlib.build_model('C19', 'C19_driver.ml', 'c19m'))[1])
        # quick tier: only the sanitized harness (same sources, less CPU); thorough: also against the library's own archive.o
        f1 = ex.submit(vlib.build_harness, 'C19_archive', ['C19_archive.cpp'], extra=['-DC19_WITH_SERVICE']) if not ctx.quick() else None
        sexe, serr = f2.result()
        mexe, merr = f3.result()
        pexe, perr = f1.result() if f1 else (None, '')
    if not sexe:
        ctx.broke('harness build (with src/archive.cpp, AddressSanitizer) failed', serr)
        return
    if f1 and not pexe:
        ctx.broke('harness build against the library failed', perr)
    if not mexe:
        ctx.broke('model extraction/build failed', merr)
    exe = sexe
    san_env = {'ASAN_OPTIONS': 'detect_leaks=0:abort_on_error=0:allocator_may_return_null=1', 'UBSAN_OPTIONS': 'print_stacktrace=0'}
    os.environ.update(san_env)
    # the type table of the harness must be the one the generators assume
    rc, tl, _ = vlib.run_lines(exe, ['types'])
    want = 'types ' + ' '.join('%d=%s' % (i, s) for i, s in enumerate(TYPES))
    if not tl or tl[0] != want:
        ctx.broke('harness type table differs from checks/C19.py TYPES', (tl[0] if tl else '<none>'))
        return
    if ctx.replay_cases is not None:
        cases = strip_jtab(ctx.replay_cases)
    else:
        cases = strip_jtab(vlib.corpus_cases('C19')) + gen_cases(ctx)
    cases, nj = with_json_verdicts(cases, wrap + [exe])
    ctx.coverage['rule'] = (
        'cases: op, type id, type spec, input (hex archive or value text), json verdict table. For each of 41 C++ types (PODs, string, '
        'POD vectors, vector/list/set/map/pair nests, shared_ptr/copy_ptr/hold_ptr/clone_ptr/unique_ptr/intrusive_ptr, multiset/multimap, wchar_t, long double, json::value, 5 user classes): the minimal value, the '
        'one-element value and seeded random values are saved and loaded back (rt: fresh and used target, operator<< and operator&, '
        'copy of the archive; sc: session_interface and cache_interface store_data/fetch_data); of each saved archive EVERY truncation '
        '(tr; sampled around chunk boundaries above %d bytes), EVERY 4-byte length field replaced by len+-1..4, remaining+-1..4, 0, 2^31, '
        '2^32-1.. (muh), every container count changed (mu), pointer flags changed, single-byte damage, deletions/insertions (ld/scl); '
        'a grid first-header-value x bytes-that-follow for every type; random bytes. Exhaustive: all archives <header 0..10 with 5 '
        'high-byte variants><0..9 bytes> for 6 types. Session map format: sd = bytes handed to session_interface::load() by a custom storage '
        'backend (truncations, header mutations, doubled strings, exhaustive small headers, random), ss = entries set/exposed, saved and loaded by '
        'the next session object (size limits 1023/1024 key bytes, 2^21-1/2^21 value bytes in the thorough tier). '
        'A case is non-trivial unless its archive is empty; distinct = distinct case lines.'
        % ctx.scale(160, 600))
    ctx.coverage['exhaustive'] = False
    ctx.coverage['exhaustive_parts'] = ['every truncation of every generated archive up to %d bytes' % ctx.scale(160, 600),
                                        'header 0..10 x 5 high-byte variants x 0..9 payload bytes x 6 types (3300 archives)']
    ctx.coverage['json_verdict_cases'] = nj
    # the extracted list functions are not tail recursive: give the model a big stack for the 2 MiB session values
    mcmd = ['bash', '-c', 'ulimit -s unlimited 2>/dev/null || ulimit -s 1000000 2>/dev/null; exec "$0"', mexe] if mexe else None
    vlib.differential(ctx, cases, wrap + [exe], mcmd, oracle, nontrivial, classify, impl_env=san_env)
    if not ctx.quick():
        if pexe:
            vlib.differential(ctx, cases, wrap + [pexe], None, oracle, nontrivial, classify)
        ok, err = vlib.build_repo(asan=True)
        if not ok:
            ctx.broke('ASan/UBSan library build of the working tree failed', err)
            return
        # archive.cpp is compiled into the executable here too, with one UBSan check off: read_chunk/write_chunk of an EMPTY POD
        # vector call memcpy/append with a null pointer and length 0 (formally undefined, no access; see docs/C19.md, observations)
        aexe, err = vlib.build_harness('C19_archive', ['C19_archive.cpp', os.path.join(vlib.REPO, 'src', 'archive.cpp')], asan=True,
                                       extra=['-DC19_WITH_SERVICE', '-fno-sanitize=nonnull-attribute'])
        if not aexe:
            ctx.broke('ASan harness build failed', err)
            return
        vlib.differential(ctx, cases, wrap + [aexe], None, oracle, nontrivial, classify, impl_env=san_env)
        ctx.coverage['sanitizer_run'] = ('all cases three times: (1) harness + src/archive.cpp compiled with -fsanitize=address, rest of the library '
                                         'from the regular build, compared with the model; (2) harness against the regular library build (oracle only); '
                                         '(3) whole library and harness built -fsanitize=address,undefined, nonnull-attribute check off for archive.cpp and the harness (oracle only)')
    else:
        ctx.coverage['sanitizer_run'] = ('all cases once: harness + src/archive.cpp of the working tree compiled with -fsanitize=address (archive::* of the '
                                         'executable take precedence), json/session/cache from the regular library build. Whole-library ASan/UBSan build: thorough tier')
