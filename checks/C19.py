"""C19 -- serialized objects round-trip exactly; malformed archives are rejected safely.

Can also be run as `python3 checks/C19.py --wrap <exe>`: a line-protocol supervisor that restarts the harness after a
crash (sanitizer abort, signal) so that exactly the crashing input is reported as `<crash ...>`, and after the harness's
per-case watchdog fired (`<op> HANG ...`, exit status 75).  It gives up after a few hangs / a time budget (`<not-run>` for the
rest): a defect must show up as a concrete failing case inside the time budget, never as a time-out of the runner."""
import os, sys, struct, subprocess, re

if __name__ == '__main__' and len(sys.argv) >= 3 and sys.argv[1] == '--wrap':
    # ---- supervisor mode (no vlib import: must start fast and never fail) ----
    lines = sys.stdin.read().split('\n')
    if lines and lines[-1] == '':
        lines.pop()
    out = []
    pos = 0
    restarts = 0
    hangs = 0
    import time
    t_end = time.time() + float(os.environ.get('C19_PART_BUDGET_S', '600'))
    while pos < len(lines):
        if restarts > 40 or hangs > 6 or time.time() > t_end:
            # enough concrete failing cases have been collected: never let a broken tree eat the time budget
            out += ['<not-run>'] * (len(lines) - pos)
            break
        timed_out = False
        try:
            p = subprocess.run(sys.argv[2:], input=('\n'.join(lines[pos:]) + '\n').encode(), capture_output=True,
                               timeout=max(5.0, t_end - time.time()))
            so, se, rc = p.stdout, p.stderr, p.returncode
        except subprocess.TimeoutExpired as e:
            so, se, rc, timed_out = e.stdout or b'', e.stderr or b'', -9, True
        got = so.decode(errors='replace').split('\n')
        if got:
            got.pop()          # '' behind the last newline, or a line cut short by a kill: only complete lines count
        if len(got) >= len(lines) - pos:
            out += got[:len(lines) - pos]
            break
        if got and rc == 75 and ' HANG ' in got[-1]:
            # the harness's own watchdog answered for the case that ran over its budget and left: go on with the next case
            out += got
            pos += len(got)
            restarts += 1
            hangs += 1
            continue
        # the harness died (or was killed by the supervisor's own time limit) while working on line pos+len(got)
        out += got
        bad = lines[pos + len(got)].split(' ', 1)[0]
        if timed_out:
            out.append('%s HANG supervisor-time-limit' % bad)
            hangs += 1
        else:
            err = se.decode(errors='replace')
            m = re.search(r'(ERROR: \w+: [^\n]*|runtime error: [^\n]*|terminate called[^\n]*|hard rss limit exhausted[^\n]*)', err)
            out.append('<crash rc=%d> %s' % (rc, (m.group(1) if m else err[-200:]).replace('\n', ' | ')))
        pos += len(got) + 1
        restarts += 1
    sys.stdout.write('\n'.join(out) + ('\n' if out else ''))
    sys.exit(0)

import vlib
from vlib import hexs, unhex

META = dict(
    property_id='C19',
    design_ref='DESIGN.md section 4, C19',
    technique=('Coq proof (structural induction over a type universe, size_t arithmetic mod 2^64) about an executable model of '
               'cppcms::archive + archive_traits; extracted-model correspondence and a direct property oracle on the real classes, '
               'with every truncation and every length-field mutation of valid archives (ASan/UBSan build in the thorough tier)'),
    level_text=('Theorems in coq/C19/Props.v over the model (type universe: PODs, strings, POD vectors, vector/list, set, map, pair / '
                'user class with fields, smart pointer, json with the parser as a parameter), for all types, values and byte strings: '
                'an accepted chunk lies inside the buffer (the repaired bounds test, mod 2^64); the loader never reads outside the '
                'buffer for any input and start position; it ends with a value that was read from inside the buffer and is not larger '
                'than the bytes consumed, or with one of the five archive exceptions; load(save v) = v ending exactly at the end, also '
                'embedded in a larger archive; the read position after a load stands exactly behind the bytes save produced (empty POD vectors, '
                'strings and containers included), so objects saved one after another into one archive are loaded back one after another '
                '(load_all (enc_all l) = l); fetch_data after store_data returns the object, also after the session map went through '
                'save_data/load_data of the next request; every strict truncation of a valid archive is rejected; a length field that over-runs '
                'the rest of the archive is rejected by the chunk reader and by every loader that meets it; a successful load is '
                'unchanged by appended data. Session map format (session_interface save_data/load_data, which carries every object '
                'stored with store_data): load_data(save_data m) = m, the rebuilt map equals m for distinct keys, load_data of arbitrary '
                'bytes returns records that tile the buffer exactly or throws, never reads outside. The comparisons and pointer updates '
                'of archive::eof/next_chunk_size/read_chunk/read_chunk_as_string/write_chunk, the statement sequence and size expressions of the '
                'std::vector<arithmetic> loader/saver (macro CPPCMS_TRIVIAL_ARCHIVE) and the element loop of the container loaders in '
                'cppcms/archive_traits.h, and the limits, bit-field widths and bounds '
                'tests of the session format are cut from the current source text, translated by cxx2v and proved equal to the model '
                '(Link.v, LinkTraits.v: chunk reader, POD-vector loader, container loop and load_data assembled from the generated leafs = the model); everything else is tied '
                'by running the extracted model and the real archive classes (52 concrete C++ types incl. six user classes, also '
                'through session_interface / cache_interface store_data/fetch_data) on the same inputs.'),
    level_note=('Trusted: Coq kernel + vm_compute; ExtrOcamlBasic extraction; the hand model of archive.cpp / archive_traits.h (tied by '
                'correspondence on generated cases, not verified against the C++ text, except the leaf expressions named above; the regular-'
                'expression extraction of those expressions in checks/C19.py; bit-field allocation order of struct packed); the JSON parser is '
                'a parameter of the model (its verdicts on the chunks met are taken from the real parser, property C11); iteration order '
                'of sets/maps is canonicalised (sorted) on both sides; multiset/multimap are modelled as sequences printed sorted; '
                'json numbers with more than 16 significant '
                'digits do not survive the writer (C11) and are excluded from the round-trip domain (hypothesis json_fix).'),
)

TRAIT_LEAFS = ['c19_pv_count', 'c19_pv_len', 'c19_pv_savelen', 'c19_ct_more', 'c19_ct_next', 'c19_ptr_flag', 'c19_ptr_saves', 'c19_ptr_isnull']
LEAFS = TRAIT_LEAFS + ['c19_eof', 'c19_hdr_short', 'c19_overrun', 'c19_badlen', 'c19_rc_start', 'c19_rc_end', 'c19_rs_start', 'c19_rs_end', 'c19_wc_size',
         'c19_s_keylong', 'c19_s_vallong', 'c19_s_hdr', 'c19_s_fits', 'c19_s_more', 'c19_s_word']
LEAF_TU = os.path.join(vlib.WORK, 'C19', 'C19_archive_leafs.cpp')
GEN = {'Gen_C19': dict(src=LEAF_TU, incs=[], functions=[(n, 'g_' + n) for n in LEAFS])}


def function_body(src, header_re):
    m = re.search(header_re + r'\s*\{', src)
    if not m:
        return None
    i = m.end()
    depth = 1
    while i < len(src) and depth:
        depth += {'{': 1, '}': -1}.get(src[i], 0)
        i += 1
    return ' '.join(src[m.end():i - 1].split())


def session_leafs():
    """the same for session_interface.cpp: limits of the packed header, its bit-field widths, the two bounds tests of load_data"""
    src = open(os.path.join(vlib.REPO, 'src', 'session_interface.cpp')).read()
    src = re.sub(r'//[^\n]*', '', src)
    src = ' '.join(re.sub(r'/\*.*?\*/', '', src, flags=re.S).split())
    E = r'([^;{}]*?)'
    m1 = re.search(r'struct packed ?\{ ?uint32_t key_size ?: ?(\d+); ?uint32_t exposed ?: ?(\d+); ?uint32_t data_size ?: ?(\d+); ?packed\(\) ?\{ ?\}', src)
    m2 = re.search(r'packed\(unsigned ks, ?bool exp, ?unsigned ds\) ?\{ ?if ?\(' + E + r'\) ?throw cppcms_error\("session::save key too long"\); ?'
                   r'if ?\(' + E + r'\) ?throw cppcms_error\("session::save value too long"\); ?key_size ?= ?ks; ?exposed ?= ?exp ?\? ?1 ?: ?0; ?data_size ?= ?ds; ?\}', src)
    m3 = re.search(r'packed\(char const \*start, ?char const \*end\) ?\{ ?if ?\(' + E + r'\) ?\{ ?memcpy\(this, ?start, ?4\); ?\} ?else throw cppcms_error', src)
    m4 = re.search(r'while ?\(' + E + r'\) ?\{ ?packed p\(begin, ?end\); ?begin ?\+= ?sizeof\(p\); ?if ?\(' + E + r'\) ?\{ ?std::string key\(begin, ?begin ?\+ ?p\.key_size\); ?'
                   r'begin ?\+= ?p\.key_size; ?std::string val\(begin, ?begin ?\+ ?p\.data_size\); ?begin ?\+= ?p\.data_size;', src)
    if not (m1 and m2 and m3 and m4):
        return 'session_interface.cpp: struct packed / save_data / load_data no longer have the statement structure the model was written for (%s)' % \
            ','.join(n for n, m in (('bit-fields', m1), ('limits', m2), ('header test', m3), ('load loop', m4)) if not m)
    kb, eb, db = int(m1.group(1)), int(m1.group(2)), int(m1.group(3))
    fits = m4.group(2).replace('p.key_size', 'key_size').replace('p.data_size', 'data_size')
    for g in (m2.group(1), m2.group(2), m3.group(1), m4.group(1), fits):
        if re.search(r'[^\w\s<>=!+\-*()]', g) or re.search(r'\b(?!ks\b|ds\b|start\b|end\b|begin\b|key_size\b|data_size\b|int\b)[A-Za-z_]\w*', g):
            return 'session_interface.cpp: expression outside the translatable subset: ' + g
    return [
        '// from src/session_interface.cpp (pointers become byte offsets of type long; bit-field operands are passed as unsigned)',
        'bool c19_s_keylong(unsigned ks) { return %s; }' % m2.group(1),
        'bool c19_s_vallong(unsigned ds) { return %s; }' % m2.group(2),
        'bool c19_s_hdr(long start, long end) { return %s; }' % m3.group(1),
        'bool c19_s_fits(long begin, long end, unsigned key_size, unsigned data_size) { return %s; }' % fits,
        'bool c19_s_more(long begin, long end) { return %s; }' % m4.group(1),
        '// little-endian bit-field allocation of struct packed with the widths declared in the source: %d, %d, %d' % (kb, eb, db),
        'uint32_t c19_s_word(uint32_t ks, uint32_t ex, uint32_t ds) { return (ks & ((1u << %d) - 1)) | ((ex & ((1u << %d) - 1)) << %d) | ((ds & ((1u << %d) - 1)) << %d); }'
        % (kb, eb, kb, db, kb + eb)]


def traits_leafs():
    """cppcms/archive_traits.h, macro CPPCMS_TRIVIAL_ARCHIVE: the load/save of std::vector<arithmetic type> is its own code path
    (element count derived from the chunk size, resize, read_chunk with a possibly null pointer).  Its statement sequence is checked
    against the sequence the model was written for (TPodVec case of load / enc in coq/C19/Defs.v) and its two size expressions are cut
    out for cxx2v; the same for the count loop of the generic containers.  An added early return, a dropped read_chunk, a changed
    divisor or loop bound is reported as a broken tie (in addition to what the correspondence run finds)."""
    src = open(os.path.join(vlib.REPO, 'cppcms', 'archive_traits.h')).read()
    src = re.sub(r'/\*.*?\*/', '', src, flags=re.S)
    src = src.replace('\\\n', ' ')
    src = re.sub(r'//[^\n]*', '', src)
    src = ' '.join(src.split())
    src = re.sub(r' ?([(){};,=*/&<>!+]) ?', r'\1', src)       # spacing around punctuation is irrelevant
    E = r'([^;{}]*?)'
    m0 = re.search(r'#define CPPCMS_TRIVIAL_ARCHIVE\(Type\)namespace cppcms\{template<>struct archive_traits<std::vector<Type>>\{typedef std::vector<Type>vec;'
                   r'static void save\(vec const&v,archive&a\)\{void const\*p=0;size_t len=' + E + r';if\(!v\.empty\(\)\)p=&v\.front\(\);a\.write_chunk\(p,len\);\}'
                   r'static void load\(vec&v,archive&a\)\{size_t n=' + E + r';v\.clear\(\);v\.resize\(n\);void\*p=0;if\(!v\.empty\(\)\)p=&v\.front\(\);'
                   r'a\.read_chunk\(p,' + E + r'\);\}\};', src)
    m1 = re.search(r'template<>struct archive_traits<Type>\{static void save\(Type const d,archive&a\)\{a\.write_chunk\(&d,sizeof\(d\)\);\}'
                   r'static void load\(Type&d,archive&a\)\{a\.read_chunk\(&d,sizeof\(d\)\);\}\};', src)
    m2 = re.search(r'template<typename T>void archive_load_container\(T&v,archive&a\)\{size_t n;archive_traits<size_t>::load\(n,a\);v\.clear\(\);'
                   r'std::insert_iterator<T>it\(v,v\.begin\(\)\);typedef typename T::value_type value_type;'
                   r'for\(size_t i=0;' + E + r';' + E + r'\)\{value_type tmp;archive_traits<value_type>::load\(tmp,a\);\*it\+\+=tmp;\}\}', src)
    m3 = re.search(r'static void load\(cont&v,archive&a\)\{size_t n;archive_traits<size_t>::load\(n,a\);v\.clear\(\);typedef std::pair<V1,V2>pair_type;'
                   r'for\(size_t i=0;' + E + r';' + E + r'\)\{pair_type tmp;archive_traits<pair_type>::load\(tmp,a\);v\.insert\(tmp\);\}\}', src)
    m4 = re.search(r'static void load\(std::string&o,archive&a\)\{std::string res=a\.read_chunk_as_string\(\);res\.swap\(o\);\}', src)
    # smart pointers (both macros): flag byte written / tested
    PS = (r'static void save\(pointer const&d,archive&a\)\{char empty=' + E + r';a\.write_chunk\(&empty,1\);if\(' + E + r'\)\{archive_traits<V>::save\(\*d,a\);\}\}'
          r'static void load\(pointer&d,archive&a\)\{char empty;a\.read_chunk\(&empty,1\);if\(' + E + r'\)\{')
    m5 = re.search(r'#define CPPCMS_ARCHIVE_SMART_POINTER\(SmartPtr\)namespace cppcms\{template<typename V>struct archive_traits<SmartPtr<V>>\{typedef SmartPtr<V>pointer;'
                   + PS + r'd\.reset\(\);\}else\{d\.reset\(new V\(\)\);archive_traits<V>::load\(\*d,a\);\}\}\};\}', src)
    m6 = re.search(r'#define CPPCMS_ARCHIVE_INTRUSIVE_POINTER\(SmartPtr\)namespace cppcms\{template<typename V>struct archive_traits<SmartPtr<V>>\{typedef SmartPtr<V>pointer;'
                   + PS + r'd=0;\}else\{d=new V\(\);archive_traits<V>::load\(\*d,a\);\}\}\};\}', src)
    # pair (members in declaration order), json (the WHOLE chunk must be one value: load(ss,true)), container writer (count, then every element)
    m7 = re.search(r'struct archive_traits<std::pair<F,S>>\{static void save\(std::pair<F,S>const&d,archive&a\)\{archive_traits<F>::save\(d\.first,a\);'
                   r'archive_traits<S>::save\(d\.second,a\);\}static void load\(std::pair<F,S>&d,archive&a\)\{archive_traits<F>::load\(d\.first,a\);'
                   r'archive_traits<S>::load\(d\.second,a\);\}\};', src)
    m8 = re.search(r'static void load\(json::value&v,archive&a\)\{std::istringstream ss;ss\.str\(a\.read_chunk_as_string\(\)\);if\(!v\.load\(ss,true\)\)\{?'
                   r'throw archive_error\("Invalid json"\);\}?\}', src)
    m9 = re.search(r'void archive_save_container\(T const&v,archive&a\)\{typename T::const_iterator it;typedef typename T::value_type value_type;size_t n=v\.size\(\);'
                   r'archive_traits<size_t>::save\(n,a\);for\(it=v\.begin\(\);it!=v\.end\(\);\+\+it\)\{archive_traits<value_type>::save\(\*it,a\);\}\}', src)
    bad = [n for n, m in (('vector<POD> save/load', m0), ('POD save/load', m1), ('archive_load_container', m2), ('map load', m3), ('string load', m4),
                          ('smart pointer save/load', m5), ('intrusive pointer save/load', m6), ('pair save/load', m7), ('json load', m8),
                          ('archive_save_container', m9)) if not m]
    if bad:
        return ('cppcms/archive_traits.h: %s no longer %s the statement sequence the model was written for (an added early return, a removed '
                'read_chunk ...): the model of that code path is not tied to this source any more' % (', '.join(bad), 'have' if len(bad) > 1 else 'has'))
    if (m2.group(1), m2.group(2)) != (m3.group(1), m3.group(2)):
        return 'cppcms/archive_traits.h: the element loops of archive_load_container and of the map loader differ'
    savelen = m0.group(1).replace('v.size()', 'cnt').replace('sizeof(Type)', 'sz')
    count = m0.group(2).replace('a.next_chunk_size()', 'chunk').replace('sizeof(Type)', 'sz')
    rlen = m0.group(3).replace('sizeof(Type)', 'sz')
    if m5.groups() != m6.groups():
        return 'cppcms/archive_traits.h: the two smart pointer macros differ in their flag expressions'
    if m5.group(1) != 'd.get()==0':
        return 'cppcms/archive_traits.h: smart pointer save: the flag is no longer `d.get()==0`: ' + m5.group(1)
    for g in (savelen, count, rlen, m2.group(1), m2.group(2), m5.group(2), m5.group(3)):
        if re.search(r'[^\w\s<>=!+\-*/()]', g) or re.search(r'\b(?!cnt\b|sz\b|chunk\b|n\b|i\b|empty\b)[A-Za-z_]\w*', g):
            return 'cppcms/archive_traits.h: expression outside the translatable subset: ' + g
    return [
        '// from cppcms/archive_traits.h, CPPCMS_TRIVIAL_ARCHIVE: archive_traits<std::vector<Type>> (a.next_chunk_size() -> chunk, sizeof(Type) -> sz, v.size() -> cnt)',
        'size_t c19_pv_count(size_t chunk, size_t sz) { return %s; }' % count,
        'size_t c19_pv_len(size_t n, size_t sz) { return %s; }' % rlen,
        'size_t c19_pv_savelen(size_t cnt, size_t sz) { return %s; }' % savelen,
        '// element loop of archive_load_container / CPPCMS_CONTAINER_ARCHIVE2: for(size_t i=0; <cond>; <step>)',
        'bool c19_ct_more(size_t i, size_t n) { return %s; }' % m2.group(1),
        # cxx2v has no statement-level ++: i++ / ++i are written i+=1 (any other step is copied verbatim)
        'size_t c19_ct_next(size_t i) { %s; return i; }' % ('i+=1' if m2.group(2) in ('i++', '++i') else m2.group(2)),
        '// smart pointer macros: char empty = d.get()==0 (isnull); if(<cond>) save the pointee; if(<cond>) reset() else load the pointee',
        'char c19_ptr_flag(bool isnull) { char empty = isnull; return empty; }',
        'bool c19_ptr_saves(char empty) { if(%s) { return true; } return false; }' % m5.group(2),
        'bool c19_ptr_isnull(char empty) { if(%s) { return true; } else { return false; } }' % m5.group(3)]


def wrapper_probe():
    """the convenience calls that wrap the archive (model: coq/C19/StoreFetch.v: store_data = set(key, archive bytes), fetch_data = load
    from get(key) at position 0): statement sequences of session_interface::store_data/fetch_data, cache_interface::store_data/fetch_data
    and serialization_traits<serializable>::save/load.  Returns an error text when one of them is no longer what the model was written for."""
    def norm(rel):
        src = open(os.path.join(vlib.REPO, rel)).read()
        src = re.sub(r'/\*.*?\*/', '', src, flags=re.S)
        src = re.sub(r'//[^\n]*', '', src)
        src = ' '.join(src.split())
        return re.sub(r' ?([(){};,=*/&<>!+:]) ?', r'\1', src)
    want = [
        ('cppcms/session_interface.h', 'session_interface::store_data',
         r'void store_data\(std::string const&key,Serializable const&object\)\{std::string buffer;serialization_traits<Serializable>::save\(object,buffer\);set\(key,buffer\);\}'),
        ('cppcms/session_interface.h', 'session_interface::fetch_data',
         r'void fetch_data\(std::string const&key,Serializable&object\)\{std::string buffer=get\(key\);serialization_traits<Serializable>::load\(buffer,object\);\}'),
        ('cppcms/cache_interface.h', 'cache_interface::fetch_data',
         r'bool fetch_data\(std::string const&key,Serializable&data,bool notriggers=false\)\{std::string buffer;if\(!fetch\(key,buffer,notriggers\)\)return false;'
         r'serialization_traits<Serializable>::load\(buffer,data\);return true;\}'),
        ('cppcms/cache_interface.h', 'cache_interface::store_data',
         r'int timeout=-1,bool notriggers=false\)\{std::string buffer;serialization_traits<Serializable>::save\(data,buffer\);store\(key,buffer,triggers,timeout,notriggers\);\}'),
        ('cppcms/serialization_classes.h', 'serialization_traits<serializable>::load',
         r'static void load\(std::string const&serialized_object,serializable_base&real_object\)\{archive a;a\.str\(serialized_object\);real_object\.load\(a\);\}'),
        ('cppcms/serialization_classes.h', 'serialization_traits<serializable>::save',
         r'static void save\(serializable_base const&real_object,std::string&serialized_object\)\{archive a;real_object\.save\(a\);serialized_object=a\.str\(\);\}'),
        ('cppcms/serialization_classes.h', 'operator& / << / >>',
         r'archive&operator&\(archive&a,Archivable&object\)\{if\(a\.mode\(\)==archive::save_to_archive\)archive_traits<Archivable>::save\(object,a\);else archive_traits<Archivable>::load\(object,a\);return a;\}'
         r'.{0,80}?archive&operator<<\(archive&a,Archivable const&object\)\{archive_traits<Archivable>::save\(object,a\);return a;\}'
         r'.{0,80}?archive&operator>>\(archive&a,Archivable&object\)\{archive_traits<Archivable>::load\(object,a\);return a;\}'),
    ]
    cache = {}
    bad = []
    for rel, name, rx in want:
        if rel not in cache:
            cache[rel] = norm(rel)
        if not re.search(rx, cache[rel]):
            bad.append('%s (%s)' % (name, rel))
    if bad:
        return ('%s no longer %s the statement sequence the model was written for (coq/C19/StoreFetch.v, Object.v): the model of the convenience '
                'calls is not tied to this source any more' % (', '.join(bad), 'have' if len(bad) > 1 else 'has'))
    return None


def make_leaf_tu():
    """cut the comparisons and pointer updates of the chunk reader/writer out of the CURRENT text of src/archive.cpp (verbatim, with
    buffer_.size() renamed to the parameter bsz) into a translation unit of loop-free integer functions for tools/cxx2v.py.
    Returns an error text when the functions no longer have the expected statement structure."""
    src = open(os.path.join(vlib.REPO, 'src', 'archive.cpp')).read()
    src = re.sub(r'//[^\n]*', '', src)
    src = re.sub(r'/\*.*?\*/', '', src, flags=re.S)
    E = r'([^;{}]*?)'
    shapes = [
        ('eof', r'bool\s+archive::eof\s*\(\s*\)', r'^return ' + E + r';$'),
        ('ncs', r'size_t\s+archive::next_chunk_size\s*\(\s*\)',
         r'^uint32_t size ?= ?0; if ?\( ?eof\(\) ?\) throw archive_error\("[^"]*"\); if ?\(' + E + r'\) ?\{? ?throw archive_error\("[^"]*"\); ?\}? ?'
         r'memcpy ?\( ?& ?size ?, ?buffer_\.c_str\(\) ?\+ ?ptr_ ?, ?4 ?\); if ?\(' + E + r'\) ?\{? ?throw archive_error\("[^"]*"\); ?\}? ?return size;$'),
        ('rc', r'void\s+archive::read_chunk\s*\(\s*void\s*\*\s*begin\s*,\s*size_t\s+len\s*\)',
         r'^size_t next ?= ?next_chunk_size\(\); if ?\(' + E + r'\) ?\{? ?throw archive_error\("[^"]*"\); ?\}? ?(ptr_ ?\+= ?[^;]*;) '
         r'(?:if ?\( ?len(?: ?> ?0| ?!= ?0)? ?\) ?)?memcpy ?\( ?begin ?, ?buffer_\.c_str\(\) ?\+ ?ptr_ ?, ?len ?\); (ptr_ ?\+= ?[^;]*;)$'),
        ('rs', r'std::string\s+archive::read_chunk_as_string\s*\(\s*\)',
         r'^size_t size ?= ?next_chunk_size\(\); std::string result ?\( ?buffer_\.c_str\(\) ?\+ ?' + E + r', ?size ?\); (ptr_ ?\+= ?[^;]*;) return result;$'),
        ('wc', r'void\s+archive::write_chunk\s*\(\s*void\s+const\s*\*\s*begin\s*,\s*size_t\s+len\s*\)',
         r'^(uint32_t size ?= ?len;) buffer_\.append ?\( ?reinterpret_cast<char \*> ?\(& ?size\) ?, ?4 ?\); '
         r'buffer_\.append ?\( ?reinterpret_cast<char const \*> ?\(begin\) ?, ?len ?\);$'),
    ]
    got = {}
    for name, hdr, body_re in shapes:
        body = function_body(src, hdr)
        if body is None:
            return 'archive::%s not found in src/archive.cpp' % name
        m = re.match(body_re, body)
        if not m:
            return 'archive::%s no longer has the statement structure the model was written for: %s' % (name, body[:300])
        got[name] = [g.replace('buffer_.size()', 'bsz').strip() for g in m.groups()]
    for name, parts in got.items():
        for g in parts:
            if 'buffer_' in g or '(' in g.replace('(bsz', '').replace('(ptr_', '').replace('(size', '').replace('(len', '').replace('(4', ''):
                return 'archive::%s: expression outside the translatable subset: %s' % (name, g)
    sess = session_leafs()
    if isinstance(sess, str):
        return sess
    tr = traits_leafs()
    if isinstance(tr, str):
        return tr
    wp = wrapper_probe()
    if wp:
        return wp
    tu = '\n'.join([
        '// GENERATED by checks/C19.py from src/archive.cpp (expressions copied verbatim; buffer_.size() -> bsz)',
        '#include <stddef.h>', '#include <stdint.h>',
        'bool c19_eof(size_t bsz, size_t ptr_) { return %s; }' % got['eof'][0],
        'bool c19_hdr_short(size_t bsz, size_t ptr_) { return %s; }' % got['ncs'][0],
        'bool c19_overrun(size_t bsz, size_t ptr_, uint32_t size) { return %s; }' % got['ncs'][1],
        'bool c19_badlen(size_t next, size_t len) { return %s; }' % got['rc'][0],
        'size_t c19_rc_start(size_t ptr_) { %s return ptr_; }' % got['rc'][1],
        'size_t c19_rc_end(size_t ptr_, size_t len) { %s %s return ptr_; }' % (got['rc'][1], got['rc'][2]),
        'size_t c19_rs_start(size_t ptr_) { return %s; }' % got['rs'][0],
        'size_t c19_rs_end(size_t ptr_, size_t size) { %s return ptr_; }' % got['rs'][1],
        'uint32_t c19_wc_size(size_t len) { %s return size; }' % got['wc'][0]] + sess + tr + [''])
    vlib.write_if_changed(LEAF_TU, tu)
    return None

M32 = 1 << 32


# ------------------------------------------------------------------------------------------------
# type universe (spec strings as printed by the harness `types` command)
# ------------------------------------------------------------------------------------------------
TYPES = ['p4', 'p1', 'p8', 'p8', 's', 'v1', 'v2', 'v4', 'v8', 'Ls', 'LPp4s', 'Ss', 'Sp4', 'Msv4', 'Mp4Sp2', 'Os', 'LOLs', 'LLs',
         'Pp1p8', 'SPp4s', 'J', 'LJ', 'MsJ', 'Pp4Psv8', 'Pp8Pp12Pss', 'PsPp8PMp4sPOPp4Psv8PLPp8Pp12PssJ', 'MsPp4Psv8', 'OLp8',
         'LMp2Os', 'Lv4', 'Os', 'Ov4', 'Os', 'LOPp2s', 's', 'Bp4', 'Nsp2', 'OPp4s', 'p4', 'v16', 'Mp4Bs',
         # 41.. : empty POD vectors / strings / containers that are NOT the last item of the archive
         'Pv4s', 'Lv4', 'Psp4', 'LPv1v8', 'Mp4v1', 'POv2s', 'PSp4PLsp4', 'Pv1PsPv4PLsPMp4v2PLv8p4', 'LLv2', 'Mv2s', 'LPsv1']
SERIALIZABLE = [23, 24, 25, 34, 48]  # rec2, rec3, rec1, cl_str, rec4: classes derived from serializable_base (session/cache store_data)


# sq (sequence of objects in one archive): json needs the verdict table, multiset/multimap are written in C++ order
SEQ_EXCLUDED = set(i for i, sp in enumerate(TYPES) if any(ch in sp for ch in 'JBN'))


def parse_spec(s):
    pos = [0]

    def num():
        st = pos[0]
        while pos[0] < len(s) and s[pos[0]].isdigit():
            pos[0] += 1
        return int(s[st:pos[0]])

    def go():
        c = s[pos[0]]
        pos[0] += 1
        if c == 'u':
            return ('u',)
        if c == 'p':
            return ('p', num())
        if c == 's':
            return ('s',)
        if c == 'v':
            return ('v', num())
        if c in 'LSOB':
            return (c, go())
        if c in 'MPN':
            a = go()
            b = go()
            return (c, a, b)
        if c == 'J':
            return ('J',)
        raise ValueError('spec ' + s)
    t = go()
    if pos[0] != len(s):
        raise ValueError('spec trailing ' + s)
    return t


_spec_cache = {}


def spec_of(s):
    if s not in _spec_cache:
        _spec_cache[s] = parse_spec(s)
    return _spec_cache[s]


def plain(t):
    """only chunks whose bytes are returned verbatim: re-encoding the loaded value must give the consumed bytes"""
    k = t[0]
    if k in 'psvu':
        return True
    if k == 'L':
        return plain(t[1])
    if k == 'P':
        return plain(t[1]) and plain(t[2])
    return False


class Enc:
    def __init__(self):
        self.b = bytearray()
        self.h = []          # (offset of the 4-byte header, kind, chunk length)

    def chunk(self, data, kind):
        self.h.append((len(self.b), kind, len(data)))
        self.b += struct.pack('<I', len(data) & 0xffffffff)
        self.b += data


def enc(t, v, e):
    """independent encoder of the wire format (generator of valid archives and of header offsets)"""
    k = t[0]
    if k == 'p':
        e.chunk(v, 'pod')
    elif k == 's':
        e.chunk(v, 'str')
    elif k == 'v':
        e.chunk(v, 'podvec')
    elif k == 'J':
        e.chunk(v[1], 'json')
    elif k in 'LSB':
        e.chunk(struct.pack('<Q', len(v)), 'count')
        for x in v:
            enc(t[1], x, e)
    elif k in 'MN':
        e.chunk(struct.pack('<Q', len(v)), 'count')
        for a, b in v:
            enc(t[1], a, e)
            enc(t[2], b, e)
    elif k == 'P':
        enc(t[1], v[0], e)
        enc(t[2], v[1], e)
    elif k == 'O':
        if v is None:
            e.chunk(b'\x01', 'flag')
        else:
            e.chunk(b'\x00', 'flag')
            enc(t[1], v[1], e)
    elif k == 'u':
        pass
    else:
        raise ValueError(k)


def encode(t, v):
    e = Enc()
    enc(t, v, e)
    return bytes(e.b), e.h


def min_len(t, v):
    """lower bound of the archive bytes a loader must have consumed to return v (json text is re-generated: 4)"""
    k = t[0]
    if k in 'psv':
        return 4 + len(v)
    if k == 'J':
        return 4
    if k in 'LSB':
        return 12 + sum(min_len(t[1], x) for x in v)
    if k in 'MN':
        return 12 + sum(min_len(t[1], a) + min_len(t[2], b) for a, b in v)
    if k == 'P':
        return min_len(t[1], v[0]) + min_len(t[2], v[1])
    if k == 'O':
        return 5 + (0 if v is None else min_len(t[1], v[1]))
    return 0


def text(t, v):
    k = t[0]
    if k in 'psv':
        return hexs(v)
    if k == 'J':
        return 'j' + hexs(v[1])
    if k in 'LSB':
        return '[' + ','.join(text(t[1], x) for x in v) + ']'
    if k in 'MN':
        return '[' + ','.join('(' + text(t[1], a) + ',' + text(t[2], b) + ')' for a, b in v) + ']'
    if k == 'P':
        return '(' + text(t[1], v[0]) + ',' + text(t[2], v[1]) + ')'
    if k == 'O':
        return 'N' if v is None else '&' + text(t[1], v[1])
    if k == 'u':
        return '()'
    raise ValueError(k)


class BadText(Exception):
    pass


def parse_text(t, s):
    """value text printed by the harness -> python value (raises BadText)"""
    pos = [0]

    def peek():
        return s[pos[0]] if pos[0] < len(s) else ''

    def expect(c):
        if peek() != c:
            raise BadText('expected %r at %d' % (c, pos[0]))
        pos[0] += 1

    def tok():
        st = pos[0]
        while pos[0] < len(s) and s[pos[0]] in '0123456789abcdef-':
            pos[0] += 1
        if st == pos[0]:
            raise BadText('token at %d' % st)
        try:
            return unhex(s[st:pos[0]])
        except ValueError:
            raise BadText('hex')

    def go(t):
        k = t[0]
        if k in 'psv':
            return tok()
        if k == 'J':
            expect('j')
            return ('j', tok())
        if k in 'LSMBN':
            expect('[')
            items = []
            if peek() == ']':
                pos[0] += 1
                return items
            et = t[1] if k not in 'MN' else ('P', t[1], t[2])
            while True:
                items.append(go(et))
                if peek() == ',':
                    pos[0] += 1
                    continue
                expect(']')
                return items
        if k == 'P':
            expect('(')
            a = go(t[1])
            expect(',')
            b = go(t[2])
            expect(')')
            return (a, b)
        if k == 'O':
            if peek() == 'N':
                pos[0] += 1
                return None
            expect('&')
            return ('&', go(t[1]))
        if k == 'u':
            expect('(')
            expect(')')
            return ()
        raise BadText(k)
    v = go(t)
    if pos[0] != len(s):
        raise BadText('trailing')
    return v


def ckey(t, v):
    """C++ ordering of set elements / map keys of the harness types (signed integers, byte strings, pairs)"""
    k = t[0]
    if k == 'p':
        return int.from_bytes(v, 'little', signed=True)
    if k == 's':
        return v
    if k == 'v':
        return tuple(int.from_bytes(v[i:i + t[1]], 'little', signed=True) for i in range(0, len(v), t[1]))
    if k == 'P':
        return (ckey(t[1], v[0]), ckey(t[2], v[1]))
    raise ValueError('no ordering for ' + k)


# ------------------------------------------------------------------------------------------------
# value generators
# ------------------------------------------------------------------------------------------------
def rbytes(rng, n):
    return bytes(rng.getrandbits(8) for _ in range(n))


def gen_pod(rng, n):
    c = rng.randrange(6)
    if c == 0:
        return bytes(n)
    if c == 1:
        return b'\xff' * n
    if c == 2:
        return (rng.randrange(0, 300) % (1 << (8 * n))).to_bytes(n, 'little')
    if c == 3:
        return ((1 << (8 * n - 1)) - rng.randrange(0, 2)).to_bytes(n, 'little')
    return rbytes(rng, n)


STR_LENS = [0, 0, 1, 1, 2, 3, 4, 5, 7, 8, 9, 15, 16, 17, 31, 33]


def gen_str(rng):
    n = rng.choice(STR_LENS)
    c = rng.randrange(4)
    if c == 0:
        return bytes(rng.choice(b'abcxyz019 _') for _ in range(n))
    if c == 1:
        return bytes(rng.choice(b'\x00\x00a\xff\x01') for _ in range(n))
    return rbytes(rng, n)


JSON_STR_ATOMS = [b'a', b'b', b'z', b'0', b' ', b'_', b'/', b'\\"', b'\\\\', b'\\n', b'\\t', b'\\r', b'\\b', b'\\f', b'\\u0000',
                  b'\\u0001', b'\\u001f', b'\xc3\xa9', b'\xe2\x82\xac', b'\xf0\x9f\x98\x80', b'<', b'\x7f']


def gen_json_str(rng):
    return b'"' + b''.join(rng.choice(JSON_STR_ATOMS) for _ in range(rng.choice([0, 1, 2, 3, 5, 9]))) + b'"'


def gen_json(rng, depth=0):
    """compact json text that cppcms::json writes back identically (keys sorted and distinct, %.16g numbers)"""
    c = rng.randrange(10 if depth < 3 else 7)
    if c == 0:
        return b'null'
    if c == 1:
        return rng.choice([b'true', b'false'])
    if c in (2, 3):
        return rng.choice([b'0', b'1', b'-1', b'42', b'-17', b'1000000', b'0.5', b'-2.25', b'1e+20', b'123456789012', b'1e-07', b'3.125'])
    if c in (4, 5, 6):
        return gen_json_str(rng)
    if c in (7, 8):
        return b'[' + b','.join(gen_json(rng, depth + 1) for _ in range(rng.choice([0, 1, 2, 3]))) + b']'
    keys = {}
    for _ in range(rng.choice([0, 1, 2, 3])):
        k = gen_json_str(rng)
        keys[json_key_bytes(k)] = k
    return b'{' + b','.join(keys[k] + b':' + gen_json(rng, depth + 1) for k in sorted(keys)) + b'}'


def json_key_bytes(k):
    """decoded bytes of a generated json string literal (ordering/uniqueness of object keys is on decoded bytes)"""
    s = k[1:-1]
    out = bytearray()
    i = 0
    esc = {ord('n'): 10, ord('t'): 9, ord('r'): 13, ord('b'): 8, ord('f'): 12, ord('"'): 34, ord('\\'): 92, ord('/'): 47}
    while i < len(s):
        if s[i] == 92:
            if s[i + 1] == ord('u'):
                out.append(int(s[i + 2:i + 6], 16))
                i += 6
            else:
                out.append(esc[s[i + 1]])
                i += 2
        else:
            out.append(s[i])
            i += 1
    return bytes(out)


def gen_value(t, rng, depth=0):
    k = t[0]
    if k == 'p':
        return gen_pod(rng, t[1])
    if k == 's':
        return gen_str(rng)
    if k == 'v':
        return rbytes(rng, t[1] * rng.choice([0, 0, 1, 1, 2, 3, 5, 8])) if rng.random() < 0.8 else \
            b''.join(gen_pod(rng, t[1]) for _ in range(rng.randrange(0, 5)))
    if k == 'J':
        return ('j', gen_json(rng))
    if k == 'L':
        n = rng.choice([0, 0, 1, 1, 2, 3, 4] if depth < 2 else [0, 1, 1, 2])
        return [gen_value(t[1], rng, depth + 1) for _ in range(n)]
    if k == 'S':
        n = rng.choice([0, 0, 1, 2, 3, 4, 6] if depth < 2 else [0, 1, 2])
        d = {}
        for _ in range(n):
            x = gen_value(t[1], rng, depth + 1)
            d.setdefault(ckey(t[1], x), x)
        return [d[key] for key in sorted(d)]
    if k == 'M':
        n = rng.choice([0, 0, 1, 2, 3, 4] if depth < 2 else [0, 1, 2])
        d = {}
        for _ in range(n):
            a = gen_value(t[1], rng, depth + 1)
            d.setdefault(ckey(t[1], a), (a, gen_value(t[2], rng, depth + 1)))
        return [d[key] for key in sorted(d)]
    if k == 'B':
        xs = [gen_value(t[1], rng, depth + 1) for _ in range(rng.choice([0, 0, 1, 2, 3, 4, 6] if depth < 2 else [0, 1, 2]))]
        xs += [rng.choice(xs) for _ in range(rng.choice([0, 0, 1, 2]))] if xs else []
        return sorted(xs, key=lambda x: ckey(t[1], x))
    if k == 'N':
        ps = [(gen_value(t[1], rng, depth + 1), gen_value(t[2], rng, depth + 1)) for _ in range(rng.choice([0, 0, 1, 2, 3, 4]))]
        ps += [(rng.choice(ps)[0], gen_value(t[2], rng, depth + 1)) for _ in range(rng.choice([0, 0, 1, 2]))] if ps else []
        return sorted(ps, key=lambda p: ckey(t[1], p[0]))
    if k == 'P':
        return (gen_value(t[1], rng, depth), gen_value(t[2], rng, depth))
    if k == 'O':
        return None if rng.random() < 0.3 else ('&', gen_value(t[1], rng, depth + 1))
    if k == 'u':
        return ()
    raise ValueError(k)


def min_value(t):
    """the smallest value of a type: empty containers, empty strings, null pointers, zero PODs"""
    k = t[0]
    if k == 'p':
        return bytes(t[1])
    if k in 'sv':
        return b''
    if k == 'J':
        return ('j', b'null')
    if k in 'LSMBN':
        return []
    if k == 'P':
        return (min_value(t[1]), min_value(t[2]))
    if k == 'O':
        return None
    return ()


def one_each(t):
    """containers with exactly one minimal element, non-null pointers to minimal values, a NUL string"""
    k = t[0]
    if k == 'p':
        return b'\x01' + bytes(t[1] - 1)
    if k == 's':
        return b'\x00'
    if k == 'v':
        return bytes(t[1])
    if k == 'J':
        return ('j', b'[]')
    if k in 'LSB':
        return [one_each(t[1])]
    if k in 'MN':
        return [(one_each(t[1]), one_each(t[2]))]
    if k == 'P':
        return (one_each(t[1]), one_each(t[2]))
    if k == 'O':
        return ('&', one_each(t[1]))
    return ()


# ---- empty strings / POD vectors / containers / null pointers at every position of a composite value ----
def empty_paths(t, path=(), depth=0):
    """paths of all node instances of the FULL value of type t (containers with 3 elements, 2 below depth 1) that can be made empty"""
    k = t[0]
    out = []
    n = 3 if depth < 2 else 2
    if k in 'sv':
        out.append(path)
    elif k in 'LSB':
        out.append(path)
        for i in range(n):
            out += empty_paths(t[1], path + (i,), depth + 1)
    elif k in 'MN':
        out.append(path)
        for i in range(n):
            out += empty_paths(t[1], path + (i, 0), depth + 1)
            out += empty_paths(t[2], path + (i, 1), depth + 1)
    elif k == 'P':
        out += empty_paths(t[1], path + (0,), depth)
        out += empty_paths(t[2], path + (1,), depth)
    elif k == 'O':
        out.append(path)
        out += empty_paths(t[1], path + (0,), depth + 1)
    return out


def normalize(t, v):
    """sets / maps: distinct elements / keys in C++ order (making elements empty may have made them equal)"""
    k = t[0]
    if k == 'S':
        d = {}
        for x in v:
            d.setdefault(ckey(t[1], x), x)
        return [d[key] for key in sorted(d)]
    if k == 'M':
        d = {}
        for a, b in v:
            d.setdefault(ckey(t[1], a), (a, b))
        return [d[key] for key in sorted(d)]
    if k == 'B':
        return sorted(v, key=lambda x: ckey(t[1], x))
    if k == 'N':
        return sorted(v, key=lambda p: ckey(t[1], p[0]))
    return v


def build_with_empties(t, empt, rng, path=(), depth=0):
    """the full value of type t with exactly the node instances in `empt` empty (string "", vector {}, container {}, pointer null)"""
    k = t[0]
    n = 3 if depth < 2 else 2
    if k == 'p':
        return bytes([rng.randrange(1, 256)]) + rbytes(rng, t[1] - 1)
    if k == 's':
        return b'' if path in empt else bytes(rng.choice(b'ab\x00z\xff') for _ in range(rng.choice([1, 1, 2, 4])))
    if k == 'v':
        return b'' if path in empt else rbytes(rng, t[1] * rng.choice([1, 1, 2, 3]))
    if k == 'J':
        return ('j', gen_json(rng))
    if k in 'LSB':
        if path in empt:
            return []
        return normalize(t, [build_with_empties(t[1], empt, rng, path + (i,), depth + 1) for i in range(n)])
    if k in 'MN':
        if path in empt:
            return []
        return normalize(t, [(build_with_empties(t[1], empt, rng, path + (i, 0), depth + 1),
                              build_with_empties(t[2], empt, rng, path + (i, 1), depth + 1)) for i in range(n)])
    if k == 'P':
        return (build_with_empties(t[1], empt, rng, path + (0,), depth), build_with_empties(t[2], empt, rng, path + (1,), depth))
    if k == 'O':
        return None if path in empt else ('&', build_with_empties(t[1], empt, rng, path + (0,), depth + 1))
    return ()


def empties_values(t, rng, npairs, nrand):
    """values with: nothing empty; each single position empty; pairs / random subsets of positions empty; every leaf position empty"""
    ps = empty_paths(t)
    sets = [frozenset()] + [frozenset([q]) for q in ps]
    if len(ps) >= 2:
        allpairs = [(a, b) for i, a in enumerate(ps) for b in ps[i + 1:]]
        for a, b in (allpairs if len(allpairs) <= npairs else rng.sample(allpairs, npairs)):
            sets.append(frozenset([a, b]))
        for _ in range(nrand):
            sets.append(frozenset(q for q in ps if rng.random() < rng.choice([0.2, 0.5, 0.8])))
        leafs = [q for q in ps if not any(r != q and r[:len(q)] == q for r in ps)]
        sets.append(frozenset(leafs))
        sets.append(frozenset(q for q in ps if len(q) >= 1))      # everything below the top level
    seen = set()
    for e in sets:
        if e in seen:
            continue
        seen.add(e)
        yield build_with_empties(t, e, rng)


def header_mutations(length, remaining):
    """replacement values for a 4-byte length field whose true value is `length`, with `remaining` bytes after the field"""
    vals = set()
    for d in range(1, 5):
        vals.update([length + d, length - d, remaining + d, remaining - d])
    vals.update([0, remaining, 1 << 31, (1 << 31) - 1, M32 - 1, M32 - 2, M32 - 4, M32 - 5, M32 - remaining - 4 if remaining + 4 < M32 else 0,
                 (M32 - 4 - remaining + length) % M32, 0x100, 0x10000, 0x1000000])
    return sorted(v for v in vals if 0 <= v < M32 and v != length)


# ---- session map format (session_interface::save_data / load_data) ----
def sess_pack(ks, ex, ds):
    return struct.pack('<I', (ks & 1023) | ((1 if ex else 0) << 10) | ((ds & 0x1fffff) << 11))


def sess_encode(entries):
    """entries: list of (key, exposed, value) -> (bytes, header offsets)"""
    b = bytearray()
    offs = []
    for k, e, v in entries:
        offs.append(len(b))
        b += sess_pack(len(k), e, len(v)) + k + v
    return bytes(b), offs


def sess_tok(b):
    if len(b) > 64 and b == b'x' * len(b):
        return '*%d' % len(b)
    return hexs(b)


def sess_text(entries):
    return '[' + ','.join('%s:%d:%s' % (sess_tok(k), 1 if e else 0, sess_tok(v)) for k, e, v in entries) + ']'


def sess_parse(text):
    body = text[1:-1]
    out = []
    if body:
        for item in body.split(','):
            k, e, v = item.split(':')
            out.append((b'x' * int(k[1:]) if k.startswith('*') else unhex(k), e == '1', b'x' * int(v[1:]) if v.startswith('*') else unhex(v)))
    return out


def sbytes(rng, n):
    """bytes for session keys/values: anything except '_' (keys starting with '_' are the session's own settings)"""
    return bytes(rng.choice(SESS_ALPHA) for _ in range(n))


SESS_ALPHA = [b for b in range(256) if b != 0x5f]


def gen_session_cases(ctx, add3):
    rng = ctx.rng
    maps = [[], [(b'', False, b'')], [(b'a', True, b'\x00')], [(b'k', False, b'v'), (b'k2', True, b'')]]
    for _ in range(ctx.scale(60, 400)):
        d = {}
        for _ in range(rng.choice([1, 1, 2, 3, 4, 6])):
            k = sbytes(rng, rng.choice([0, 1, 1, 2, 3, 5, 8, 17]))
            d[k] = (k, rng.random() < 0.4, sbytes(rng, rng.choice([0, 0, 1, 2, 4, 9, 30, 100])))
        maps.append([d[k] for k in sorted(d)])
    # size limits of the packed header: key_size 10 bits, data_size 21 bits
    for kl in (1022, 1023, 1024, 1025, 2048):
        maps.append([(b'x' * kl, False, b'v')])
    for vl in (2047, 2048, 2049, 65535, 65536) + (() if ctx.quick() else (2097151, 2097152)):
        maps.append([(b'a', True, b'x' * vl)])
    maps.append([(b'a', False, b'1'), (b'x' * 1024, False, b'2')])
    for m in maps:
        add3('ss %s' % sess_text(m))
        if any(len(k) > 1023 or len(v) > 5000 for k, e, v in m):
            continue
        buf, offs = sess_encode(m)
        n = len(buf)
        h = hexs(buf)
        if n <= 200:
            for k in range(0, n + 1):
                add3('sd %s' % hexs(buf[:k]))
        for off in offs[:6]:
            w = struct.unpack('<I', buf[off:off + 4])[0]
            ks, ex, ds = w & 1023, (w >> 10) & 1, w >> 11
            rem = n - off - 4
            for ks2, ds2 in [(ks + 1, ds), (ks - 1, ds), (ks, ds + 1), (ks, ds - 1), (ks + 1, ds - 1), (ks - 1, ds + 1), (0, ds), (ks, 0), (1023, ds),
                             (ks, 0x1fffff), (1023, 0x1fffff), (rem - ds, ds), (ks, rem - ks), (rem - ds + 1, ds), (ks, rem - ks + 1), (0, rem), (0, rem + 1)]:
                if 0 <= ks2 <= 1023 and 0 <= ds2 <= 0x1fffff:
                    add3('sd %s' % hexs(buf[:off] + sess_pack(ks2, ex, ds2) + buf[off + 4:]))
            add3('sd %s' % hexs(buf[:off] + sess_pack(ks, 1 - ex, ds) + buf[off + 4:]))
        add3('sd %s' % hexs(buf + buf))          # every key twice: the later record wins
        for _ in range(4):
            if n:
                i = rng.randrange(n)
                add3('sd %s' % hexs(buf[:i] + bytes([rng.choice(SESS_ALPHA)]) + buf[i + 1:]))
    # exhaustive small domain: one header (key_size 0..3, exposed, data_size 0..3) followed by 0..7 bytes, and two-record buffers
    for ks in range(4):
        for ex in (0, 1):
            for ds in range(4):
                for n in range(8):
                    add3('sd %s' % hexs(sess_pack(ks, ex, ds) + bytes(range(0x61, 0x61 + n))))
    for k1 in (b'', b'a', b'b'):
        for k2 in (b'', b'a', b'b'):
            for e1 in (0, 1):
                add3('sd %s' % hexs(sess_pack(len(k1), e1, 1) + k1 + b'1' + sess_pack(len(k2), 1 - e1, 2) + k2 + b'22'))
    for _ in range(ctx.scale(300, 3000)):
        n = rng.choice([1, 2, 3, 4, 5, 6, 8, 9, 12, 16, 24])
        if rng.random() < 0.6:
            b = b''.join(sess_pack(rng.randrange(0, 4), rng.randrange(2), rng.randrange(0, 5)) + sbytes(rng, rng.randrange(0, 6)) for _ in range(3))[:n]
        else:
            b = sbytes(rng, n)
        add3('sd %s' % hexs(b))


def gen_cases(ctx):
    rng = ctx.rng
    cases = []
    seen = set()

    def add(line):
        if line not in seen:
            seen.add(line)
            cases.append(line + ' j')

    seq_pool = []
    nvals = ctx.scale(3, 14)
    max_tr_all = ctx.scale(160, 600)
    max_hdr = ctx.scale(10, 40)
    for tid, spec in enumerate(TYPES):
        t = spec_of(spec)
        pre = '%d %s' % (tid, spec)
        vals = [min_value(t), one_each(t)]
        vals += [gen_value(t, rng) for _ in range(nvals)]
        for vi, v in enumerate(vals):
            vt = text(t, v)
            arch, hdrs = encode(t, v)
            h = hexs(arch)
            n = len(arch)
            add('rt %s %s' % (pre, vt))
            if tid in SERIALIZABLE:
                add('sc %s %s' % (pre, vt))
            # every truncation (all of them for archives up to max_tr_all bytes, else around every chunk boundary + sample)
            if n <= max_tr_all:
                ks = range(0, n + 1)
            else:
                ks = set([n, n - 1, n - 2, n - 3, n - 4, n - 5])
                for off, kind, ln in hdrs:
                    for d in range(-2, 7):
                        ks.add(off + d)
                    ks.add(off + 4 + ln - 1)
                ks.update(rng.randrange(0, n) for _ in range(60))
                ks = sorted(k for k in ks if 0 <= k <= n)
            for k in ks:
                add('tr %s %d %s' % (pre, k, h))
                if tid in SERIALIZABLE and (k % 3 == 0 or n - k < 6):
                    add('scl %s %s' % (pre, hexs(arch[:k])))
            # every 4-byte length field: over-running, under-running, wrapping values
            hs = hdrs if len(hdrs) <= max_hdr else rng.sample(hdrs, max_hdr)
            for off, kind, ln in hs:
                rem = n - off - 4
                for val in header_mutations(ln, rem):
                    add('muh %s %d %d %s' % (pre, off, val, h))
                if kind == 'count':
                    # the element count itself (low and high word of the size_t)
                    cnt = struct.unpack('<Q', arch[off + 4:off + 12])[0]
                    for val in sorted(set([0, 1, cnt + 1, cnt + 2, max(cnt - 1, 0), 255, 1 << 16, (1 << 31), M32 - 1]) - {cnt}):
                        add('mu %s %d %d %s' % (pre, off + 4, val, h))
                    for val in (1, 1 << 31, M32 - 1):
                        add('mu %s %d %d %s' % (pre, off + 8, val, h))
                if kind == 'flag':
                    for fb in (0, 1, 2, 0x80, 0xff):
                        if arch[off + 4] != fb:
                            add('ld %s %s' % (pre, hexs(arch[:off + 4] + bytes([fb]) + arch[off + 5:])))
            # single-byte damage anywhere
            for _ in range(ctx.scale(12, 60)):
                if n == 0:
                    break
                i = rng.randrange(n)
                b = bytearray(arch)
                b[i] = rng.choice([0, 1, 0xff, b[i] ^ 1, b[i] ^ 0x80, (b[i] + 1) & 0xff, rng.getrandbits(8)])
                add('ld %s %s' % (pre, hexs(bytes(b))))
                if tid in SERIALIZABLE:
                    add('scl %s %s' % (pre, hexs(bytes(b))))
            # bytes removed / inserted in the middle, two archives glued
            for _ in range(ctx.scale(4, 20)):
                if n < 2:
                    break
                i = rng.randrange(n)
                j = min(n, i + rng.choice([1, 2, 3, 4, 8]))
                add('ld %s %s' % (pre, hexs(arch[:i] + arch[j:])))
                add('ld %s %s' % (pre, hexs(arch[:i] + rbytes(rng, j - i) + arch[i:])))
            add('ld %s %s' % (pre, hexs(arch + arch)))
        # empty string / POD vector / container / null pointer at every position of the full value (alone, in pairs, random subsets)
        evs = list(empties_values(t, rng, ctx.scale(25, 200), ctx.scale(8, 60)))
        add('rd %s %s %s' % (pre, text(t, min_value(t)), text(t, one_each(t))))
        add('rd %s %s %s' % (pre, text(t, one_each(t)), text(t, min_value(t))))
        for v in evs:
            add('rt %s %s' % (pre, text(t, v)))
            if tid in SERIALIZABLE:
                add('sc %s %s' % (pre, text(t, v)))
            if tid not in SEQ_EXCLUDED:
                seq_pool.append((tid, v))
            # the target of the load holds the FULL value (non-null pointers, non-empty containers/strings/vectors): everything must be replaced
            add('rd %s %s %s' % (pre, text(t, v), text(t, evs[0])))
        for _ in range(ctx.scale(12, 80)):
            add('rd %s %s %s' % (pre, text(t, gen_value(t, rng)), text(t, rng.choice(evs) if rng.random() < 0.5 else gen_value(t, rng))))
        # more values for the round trip alone
        for _ in range(ctx.scale(30, 250)):
            v = gen_value(t, rng)
            add('rt %s %s' % (pre, text(t, v)))
            if tid in SERIALIZABLE:
                add('sc %s %s' % (pre, text(t, v)))
        # first-header grid: header value x bytes that follow (the edges of the bounds test), every type
        for r in range(0, 14):
            body = bytes((7 * i + 1) & 0xff for i in range(r))
            for val in sorted(set(list(range(0, r + 6)) + [M32 - 1, M32 - 4, 1 << 31])):
                add('ld %s %s' % (pre, hexs(struct.pack('<I', val) + body)))
        for k in range(0, 4):
            add('ld %s %s' % (pre, hexs(b'\x01\x00\x00\x00'[:k])))
        # random bytes, biased to small little-endian words
        for _ in range(ctx.scale(60, 600)):
            n = rng.choice([1, 2, 3, 4, 5, 8, 12, 13, 16, 20, 24, 40])
            if rng.random() < 0.6:
                b = b''.join(struct.pack('<I', rng.choice([0, 1, 2, 3, 4, 8, 8, 8, rng.randrange(0, 20)])) for _ in range((n + 3) // 4))[:n]
            else:
                b = rbytes(rng, n)
            add('ld %s %s' % (pre, hexs(b)))
    # several objects saved one after another into ONE archive and loaded one after another (the archive is a concatenation;
    # a load that does not leave the read position exactly behind its own bytes damages every later one)
    def sq(items):
        add('sq ' + ' '.join('%d %s %s' % (tid, TYPES[tid], text(spec_of(TYPES[tid]), v)) for tid, v in items))
    seq_types = [i for i in range(len(TYPES)) if i not in SEQ_EXCLUDED]
    for tid in seq_types:
        t = spec_of(TYPES[tid])
        mn, one = min_value(t), one_each(t)
        sq([(tid, mn), (tid, one)])
        sq([(tid, one), (tid, mn), (tid, one)])
        sq([(tid, mn), (tid, mn), (tid, mn)])
        sq([(tid, mn), (4, b'tail')])
        sq([(4, b''), (tid, mn), (0, b'\x2a\x00\x00\x00')])
        sq([(7, b''), (tid, one), (5, b''), (4, b'z')])
    # exhaustive small domain: every sequence of 1..3 objects over {string, vector<char>, vector<int>, vector<string>, vector<vector<int>>,
    # shared_ptr<string>, pair<string,int>} x {minimal value (empty / null), one-element value}: 14 + 14^2 + 14^3 = 2954 sequences
    import itertools
    small = [(tid, val(spec_of(TYPES[tid]))) for tid in (4, 5, 7, 9, 42, 15, 43) for val in (min_value, one_each)]
    for n in (1, 2, 3):
        for items in itertools.product(small, repeat=n):
            sq(list(items))
    for _ in range(ctx.scale(1500, 9000)):
        items = []
        for _ in range(rng.choice([2, 2, 3, 3, 4, 6])):
            c = rng.randrange(4)
            if c == 0 and seq_pool:
                items.append(rng.choice(seq_pool))
            else:
                tid = rng.choice(seq_types)
                t = spec_of(TYPES[tid])
                items.append((tid, min_value(t) if c == 1 else one_each(t) if c == 2 and rng.random() < 0.3 else gen_value(t, rng)))
        sq(items)
    # exhaustive small domain: every archive  <4-byte header h><n payload bytes>, h in 0..10 with each high byte variant,
    # n in 0..9, through string / char / vector<short> / shared_ptr<string> / vector<string>
    for tid in (4, 1, 6, 15, 9, 0):
        pre = '%d %s' % (tid, TYPES[tid])
        for hv in range(0, 11):
            for hi in (0, 1 << 8, 1 << 16, 1 << 24, 0xff << 24):
                for n in range(0, 10):
                    add('ld %s %s' % (pre, hexs(struct.pack('<I', hv | hi) + bytes(range(0x61, 0x61 + n)))))
    # json members: a complete json value followed by something else must be refused (the whole chunk is one value)
    for tid in (20, 21, 22):
        t = spec_of(TYPES[tid])
        for junk in (b' x', b' 1', b']', b'}', b',', b'\x00', b' /', b'"', b' null', b'\n\n1'):
            for base in (b'null', b'1', b'"a"', b'[]', b'{"a":1}', b'[1,2]'):
                v = ('j', base + junk)
                v = v if tid == 20 else [v] if tid == 21 else [(b'k', v)]
                add('ld %d %s %s' % (tid, TYPES[tid], hexs(encode(t, v)[0])))
    gen_session_cases(ctx, add)
    # large objects (chunk sizes beyond 16 bits, many elements)
    big = [(4, rbytes(rng, 70000)), (8, rbytes(rng, 8 * 9000)), (9, [rbytes(rng, rng.randrange(0, 40)) for _ in range(ctx.scale(150, 500))]),
           (12, None), (9, [rbytes(rng, rng.randrange(0, 3)) for _ in range(ctx.scale(1100, 5000))]),
           (42, [rbytes(rng, 4 * rng.randrange(0, 2)) for _ in range(ctx.scale(1100, 3000))])]
    nsmall = len(cases)
    for tid, v in big:
        spec = TYPES[tid]
        t = spec_of(spec)
        if v is None:
            d = {}
            for _ in range(ctx.scale(300, 1000)):
                x = rbytes(rng, 4)
                d[ckey(t[1], x)] = x
            v = [d[k] for k in sorted(d)]
        arch, hdrs = encode(t, v)
        pre = '%d %s' % (tid, spec)
        add('rt %s %s' % (pre, text(t, v)))
        n = len(arch)
        if len(hdrs) > 1000 and tid in (9, 42):
            continue          # the >1000-element lists: round trip only (the model's buffer access is linear in the offset)
        for k in sorted(set([0, 3, 4, 5, n // 2, n - 5, n - 4, n - 3, n - 2, n - 1, n])):
            add('tr %s %d %s' % (pre, k, hexs(arch)))
        off, kind, ln = hdrs[0]
        for val in (ln + 1, ln - 1, n - 4, n - 3, M32 - 1):
            add('muh %s %d %d %s' % (pre, off, val, hexs(arch)))
    # the large cases are the slow ones for the model: spread them over the list (the runners split it into contiguous parts)
    small, large = cases[:nsmall], cases[nsmall:]
    step = max(1, len(small) // (len(large) + 1))
    out = []
    for i, c in enumerate(small):
        out.append(c)
        if (i + 1) % step == 0 and large:
            out.append(large.pop())
    return out + large


# ------------------------------------------------------------------------------------------------
# oracle: the property evaluated on the implementation's answer alone
# ------------------------------------------------------------------------------------------------
RE_OK = re.compile(r'^ok ptr=(\d+) eof=([01])(?: v=(\S+))?')


def check_loaded(op, t, arch, res):
    """res: text after the op token(s), 'ok ptr=.. eof=.. v=..' | 'err:..' | 'exc:..'"""
    if res.startswith('err:'):
        if res.startswith('err:other'):
            return ('unknown-archive-error', 'archive_error with an unexpected text: ' + res[:80])
        return None
    if res.startswith('exc:'):
        # the property allows any exception; an exception that is not archive_error is still reported by the correspondence
        return None
    m = RE_OK.match(res)
    if not m:
        return ('bad-output-' + op, 'unexpected harness answer ' + res[:200])
    ptr, eof = int(m.group(1)), m.group(2)
    if ptr > len(arch):
        return ('read-position-beyond-archive', 'load succeeded with the read position %d in an archive of %d bytes' % (ptr, len(arch)))
    if (eof == '1') != (ptr >= len(arch)):
        return ('eof-inconsistent', 'eof() disagrees with the read position')
    if m.group(3) is None:
        return None
    try:
        v = parse_text(t, m.group(3))
    except BadText as e:
        return ('bad-output-' + op, 'value text does not parse: %s' % e)
    need = min_len(t, v)
    if need > ptr:
        return ('returned-data-longer-than-bytes-read',
                'the loaded value holds %d bytes of chunk data+headers but only %d bytes of the archive (%d long) were consumed: '
                'data came from outside the archive' % (need, ptr, len(arch)))
    if plain(t):
        re_enc, _ = encode(t, v)
        if re_enc != arch[:ptr]:
            return ('loaded-value-not-what-the-bytes-say', 're-encoding the loaded value does not give the consumed bytes')
    return None


def oracle(case, out):
    c = case.split()
    op = c[0]
    if out.startswith('<crash') and 'rss limit' in out:
        return ('load-exhausts-memory' if op in ('ld', 'mu', 'muh', 'tr', 'scl', 'sd') else 'roundtrip-exhausts-memory',
                'the case ran over its memory budget (allocation driven by archive contents, not bounded by the archive size): ' + out[:200])
    if out.startswith('<crash'):
        return ('crash-on-load' if op in ('ld', 'mu', 'muh', 'tr', 'scl') else 'crash-on-roundtrip',
                'harness died on this input (memory error / abort): ' + out[:300])
    if out.startswith('<not-run>'):
        return None
    if ' HANG ' in out[:40]:
        # the per-case watchdog of the harness (CPU/wall budget) or of the supervisor fired: the case itself is the replay
        return ('load-does-not-terminate' if op in ('ld', 'mu', 'muh', 'tr', 'scl', 'sd') else 'roundtrip-does-not-terminate',
                'the case ran over its time budget (a loop driven by archive contents that no longer consumes the archive?): ' + out[:80])
    o = out.split()
    if not o or o[0] != op or 'BAD-' in out or 'NO-SERVICE' in out or 'NOT-SERIALIZABLE' in out:
        return ('bad-output-' + op, 'unexpected harness answer ' + out[:200])
    body = out[len(op) + 1:]
    if op in ('sd', 'ss'):
        return session_oracle(op, c, body, out)
    # json members: the harness logs, for every json chunk a loader met, what the parser says about the WHOLE chunk (jl=chunk=verdict,
    # obtained by a separate call of json::value::load(full=true)); a load that succeeded must not have met a chunk the parser rejects
    mj = re.search(r' jl=(\S*)$', out)
    if mj and '=!' in mj.group(1):
        okpart = body.startswith('ok') if op in ('ld', 'mu', 'muh') else \
            (' ok ptr=' in body) if op in ('rt', 'rd') else \
            bool(re.match(r'^F:ok .* T:ok ', body)) if op == 'tr' else False
        if okpart:
            return ('invalid-json-accepted', 'a load succeeded although a json chunk it read is not one complete json value for the parser')
    if op == 'sq':
        return seq_oracle(c, body, out)
    t = spec_of(c[2])
    if op == 'ld':
        return check_loaded(op, t, unhex(c[3]), body)
    if op in ('mu', 'muh'):
        off, val = int(c[3]), int(c[4])
        arch = bytearray(unhex(c[5]))
        arch[off:off + 4] = struct.pack('<I', val)
        r = check_loaded(op, t, bytes(arch), body)
        if r:
            return r
        if op == 'muh' and val > len(arch) - off - 4 and body.startswith('ok'):
            return ('overrunning-length-accepted', 'a chunk length of %d with %d bytes left after the field was accepted' % (val, len(arch) - off - 4))
        return None
    if op == 'tr':
        k = int(c[3])
        arch = unhex(c[4])
        m = re.match(r'^F:(.*?) T:(.*)$', body)
        if not m:
            return ('bad-output-tr', 'unexpected harness answer ' + out[:200])
        full, tr = m.group(1), m.group(2)
        r = check_loaded(op, t, arch, full) or check_loaded(op, t, arch[:k], tr)
        if r:
            return r
        mf = RE_OK.match(full)
        if mf and tr.startswith('ok') and k < int(mf.group(1)):
            return ('truncated-archive-accepted', 'the archive needs %s bytes but its first %d bytes were loaded successfully' % (mf.group(1), k))
        if mf and k >= int(mf.group(1)):
            mt = RE_OK.match(tr)
            if not mt or mt.group(1) != mf.group(1):
                return ('load-depends-on-trailing-bytes', 'cutting bytes behind the object changed the result of the load')
        return None
    if op in ('rt', 'rd'):
        if 'SAVE-PATHS-DIFFER' in out:
            return ('save-paths-differ', 'operator<< and operator& (save mode) / archive copy give different bytes')
        m = re.match(r'^A=(\S+) (.*)$', body)
        if not m:
            return ('bad-output-rt', 'unexpected harness answer ' + out[:200])
        arch = unhex(m.group(1))
        res = m.group(2)
        if not res.startswith('ok'):
            return ('roundtrip-load-fails', 'loading a freshly saved object failed: ' + res[:60])
        r = check_loaded(op, t, arch, res)
        if r:
            return r
        mm = re.search(r' eq=(\S+) eqd=(\S+)', res)
        mo = RE_OK.match(res)
        if op == 'rd' and (not mm or mm.group(1) != '1' or mm.group(2) != '1'):
            return ('load-into-used-object-keeps-old-state', 'loading into an object that holds other data does not replace all of it '
                    '(a pointer / container / string that is null / empty in the archive keeps its old content): ' + (mm.group(0) if mm else '?'))
        if not mm or mm.group(1) != '1':
            return ('roundtrip-not-equal', 'the loaded object differs from the saved one')
        if mm.group(2) != '1':
            return ('roundtrip-into-used-object-not-equal', 'loading into an object that already holds data gives a different object (%s)' % mm.group(2))
        if int(mo.group(1)) != len(arch):
            return ('roundtrip-leaves-bytes', 'the load did not consume the whole archive')
        # the printed value is the one the case asked for (sets/maps are printed sorted on both sides)
        try:
            want = parse_text(t, c[3])
            got = parse_text(t, mo.group(3))
        except BadText as e:
            return ('bad-output-rt', str(e))
        if canon(t, want) != canon(t, got):
            return ('roundtrip-not-equal', 'the value printed after the load is not the value that was built')
        return None
    if op == 'sc':
        if 'threw' in out:
            return ('session-cache-roundtrip-throws', 'store_data/fetch_data threw: ' + out[:200])
        m = re.match(r'^S=(\S+) eq=(\S+) v=(\S+) C=(\S+) found=(\S+) eq=(\S+) v=(\S+)', body)
        if not m:
            return ('bad-output-sc', 'unexpected harness answer ' + out[:200])
        if m.group(2) != '1':
            return ('session-roundtrip-not-equal', 'session_interface fetch_data(store_data(x)) != x')
        if m.group(5) != '1' or m.group(6) != '1':
            return ('cache-roundtrip-not-equal', 'cache_interface fetch_data(store_data(x)) != x or not found')
        try:
            want = canon(t, parse_text(t, c[3]))
            if canon(t, parse_text(t, m.group(3))) != want or canon(t, parse_text(t, m.group(7))) != want:
                return ('session-cache-roundtrip-not-equal', 'the value printed after fetch_data is not the value stored')
        except BadText as e:
            return ('bad-output-sc', str(e))
        return None
    if op == 'scl':
        arch = unhex(c[3])
        m = re.match(r'^S:(.*?) C:(.*?) jl=', body)
        if not m:
            return ('bad-output-scl', 'unexpected harness answer ' + out[:200])
        for part in (m.group(1), m.group(2)):
            if part.startswith('notfound'):
                return ('cache-frame-lost', 'a frame just stored was not found')
            if part.startswith('ok v='):
                try:
                    v = parse_text(t, part[5:])
                except BadText as e:
                    return ('bad-output-scl', str(e))
                if min_len(t, v) > len(arch):
                    return ('returned-data-longer-than-bytes-read', 'fetch_data returned more data than the stored bytes hold')
        return None
    return ('bad-output-' + op, 'unknown op')


def seq_oracle(c, body, out):
    """objects saved one after another into one archive come back one after another, each load ending exactly where the bytes of
    its object end (lengths from the independent python encoder), the last one at the end of the archive"""
    items = [(spec_of(c[i + 1]), c[i + 2]) for i in range(1, len(c) - 1, 3)]
    parts = body.split(' | ')
    if len(parts) < 3 or not parts[0].startswith('A=') or not parts[-1].startswith('jl='):
        return ('bad-output-sq', 'unexpected harness answer ' + out[:200])
    arch = unhex(parts[0][2:])
    res = parts[1:-1]
    end = 0
    for i, (t, vt) in enumerate(items):
        if i >= len(res) or not res[i].startswith('ok'):
            return ('sequence-load-fails', 'object %d of %d saved into one archive does not load: %s' % (i + 1, len(items), (res[i] if i < len(res) else '<missing>')[:60]))
        m = re.match(r'^ok ptr=(\d+) eof=([01]) eq=([01]) v=(\S+)$', res[i])
        if not m:
            return ('bad-output-sq', 'unexpected harness answer ' + res[i][:200])
        try:
            want = parse_text(t, vt)
            got = parse_text(t, m.group(4))
        except BadText as e:
            return ('bad-output-sq', str(e))
        end += len(encode(t, want)[0])
        if m.group(3) != '1' or canon(t, want) != canon(t, got):
            return ('sequence-member-not-equal', 'object %d of %d saved one after another into one archive comes back different' % (i + 1, len(items)))
        if int(m.group(1)) != end:
            return ('sequence-cursor-wrong', 'after loading object %d the read position is %s, its bytes end at %d' % (i + 1, m.group(1), end))
        if (m.group(2) == '1') != (end >= len(arch)):
            return ('eof-inconsistent', 'eof() disagrees with the read position')
    if end != len(arch):
        return ('sequence-cursor-wrong', 'the archive has %d bytes, the objects saved into it have %d' % (len(arch), end))
    return None


def session_oracle(op, c, body, out):
    if body.startswith('exc:'):
        return None
    if op == 'sd':
        buf = unhex(c[1])
        if body in ('err:pack', 'err:data'):
            return None
        if not body.startswith('ok ['):
            return ('bad-output-sd', 'unexpected harness answer ' + out[:200])
        try:
            ent = sess_parse(body[3:])
        except Exception:
            return ('bad-output-sd', 'entries do not parse: ' + out[:200])
        if sum(4 + len(k) + len(v) for k, e, v in ent) > len(buf):
            return ('session-data-longer-than-bytes-read', 'load_data returned keys/values that need more bytes than the stored string has')
        return None
    want = sess_parse(c[1])
    too_long = any(len(k) >= 1024 or len(v) >= 2 * 1024 * 1024 for k, e, v in want)
    if body in ('err:keylong', 'err:vallong'):
        return None if too_long else ('session-save-refuses-valid-map', 'save refused a map whose keys and values are within the limits')
    if body.startswith('err:'):
        return ('session-roundtrip-fails', 'a freshly saved session map does not load: ' + body[:40])
    m = re.match(r'^D=(\S+) ok (\S+) eq=(\S+)$', body)
    if not m:
        return ('bad-output-ss', 'unexpected harness answer ' + out[:200])
    if too_long:
        return ('session-save-accepts-oversized-entry', 'a key of 1024+ bytes or a value of 2 MiB+ was saved (the packed header cannot hold its size)')
    try:
        got = sess_parse(m.group(2))
    except Exception:
        return ('bad-output-ss', 'entries do not parse')
    if m.group(3) != '1' or sorted(got) != sorted(want):
        return ('session-map-roundtrip-not-equal', 'the session map loaded by the next request differs from the one saved')
    return None


def canon(t, v):
    k = t[0]
    if k in 'psv':
        return v
    if k == 'J':
        return v
    if k == 'L':
        return [canon(t[1], x) for x in v]
    if k in 'SB':
        return sorted((canon(t[1], x) for x in v), key=repr)
    if k in 'MN':
        return sorted(((canon(t[1], a), canon(t[2], b)) for a, b in v), key=repr)
    if k == 'P':
        return (canon(t[1], v[0]), canon(t[2], v[1]))
    if k == 'O':
        return None if v is None else ('&', canon(t[1], v[1]))
    return v


def nontrivial(case, out):
    c = case.split()
    if c[0] in ('sd', 'ss'):
        return c[1] not in ('-', '[]')
    if c[0] in ('rt', 'rd', 'sc', 'sq'):
        return True
    h = c[-2]
    return h != '-'


def outcome(s):
    if 'ok' in s.split(' ')[0:1] or s.startswith('ok'):
        return 'ok'
    m = re.match(r'(err:\w+|exc:\S+)', s)
    return m.group(1) if m else '?'


def classify(case, out):
    c = case.split()
    op = c[0]
    if op in ('sd', 'ss'):
        return 'session:%s:%s' % (op, 'ok' if ' ok ' in out or out.startswith('sd ok') else out[len(op) + 1:][:16])
    if ' HANG ' in out[:40] or out.startswith('<'):
        return '%s:%s' % (op, 'HANG' if ' HANG ' in out[:40] else out.split(' ')[0])
    if op == 'sq':
        return 'sq:%d:%s' % ((len(c) - 2) // 3, 'ok' if out.count(' | ok ') == (len(c) - 2) // 3 else 'fail')
    kinds = ''.join(sorted(set(ch for ch in c[2] if ch.isalpha())))
    body = out[len(op) + 1:]
    if op == 'tr':
        m = re.search(r' T:(\S+)', body)
        res = m.group(1) if m else '?'
    elif op in ('rt', 'rd'):
        m = re.match(r'A=\S+ (\S+)', body)
        res = m.group(1) if m else '?'
    elif op == 'sc':
        res = 'ok' if 'threw' not in body else 'threw'
    elif op == 'scl':
        m = re.match(r'S:(\S+)', body)
        res = m.group(1) if m else '?'
    else:
        res = body.split(' ')[0] if body else '?'
    return '%s:%s:%s' % (op, kinds, res[:24])


# ------------------------------------------------------------------------------------------------
def with_json_verdicts(cases, exe):
    """the model's json parser is the real one: run the harness once on the cases that involve json and copy the verdicts
    it logged (chunk -> canonical text | rejected) into the case line (last token), where the model driver reads them."""
    idx = [i for i, c in enumerate(cases) if c.split()[0] not in ('sd', 'ss', 'sq') and 'J' in c.split()[2]] if cases else []
    if not idx:
        return cases, 0
    rc, outs, err = vlib.run_lines_parallel(exe, [cases[i] for i in idx])
    res = list(cases)
    if len(outs) != len(idx):
        return res, len(idx)        # a crash: the differential run reports it
    for i, o in zip(idx, outs):
        m = re.search(r' jl=(\S*)$', o)
        if m:
            res[i] = cases[i].rsplit(' ', 1)[0] + ' j' + m.group(1)
    return res, len(idx)


def strip_jtab(cases):
    out = []
    for c in cases:
        p = c.split()
        if p and p[-1].startswith('j') and ('=' in p[-1] or p[-1] == 'j'):
            out.append(c)
        else:
            out.append(c + ' j')
    return out


def build_split(name, extra=(), asan=False, with_archive_cpp=False, archive_cpp=None):
    """harness/C19_archive.cpp compiled as four translation units side by side (-DC19_PART=0..3: main + three slices of the type table;
    the compile time is dominated by the template instantiations per type), then linked by vlib.build_harness."""
    import concurrent.futures
    objdir = os.path.join(vlib.WORK, 'C19', 'obj-' + name + ('-asan' if asan else ''))
    os.makedirs(objdir, exist_ok=True)
    flags = vlib.cxx_flags(asan) + list(extra)
    src = os.path.join(vlib.VERIF, 'harness', 'C19_archive.cpp')
    jobs = [(src, ['-DC19_PART=%d' % k], os.path.join(objdir, 'part%d.o' % k)) for k in range(4)]
    if with_archive_cpp:
        jobs.append((archive_cpp or os.path.join(vlib.REPO, 'src', 'archive.cpp'), [], os.path.join(objdir, 'archive.o')))

    def cc(job):
        s, d, o = job
        p = vlib.sh(['g++'] + flags + d + ['-c', s, '-o', o], timeout=900)
        return o, (p.stdout + p.stderr).decode(errors='replace')[-6000:] if p.returncode != 0 else ''
    with concurrent.futures.ThreadPoolExecutor(len(jobs)) as ex:
        rs = list(ex.map(cc, jobs))
    for o, err in rs:
        if err:
            return None, err
    return vlib.build_harness(name, [o for o, _ in rs], asan=asan, extra=extra)


def run(ctx):
    e = make_leaf_tu()
    if e:
        ctx.broke('tie to source broken: ' + e)
        vlib.write_if_changed(LEAF_TU, '// ' + e.replace('\n', ' ') + '\n#error leaf extraction failed\n')
    errs = vlib.gen_coq(GEN)
    for n, e in errs:
        ctx.broke('translator cxx2v failed on %s (tie to source broken)' % n, e)
    res = vlib.coq_props('C19', extra_files=['C19/Link.v', 'C19/LinkTraits.v'])
    ctx.proof(res)
    ctx.coverage['trusted_base'] = [
        'Coq 8.16.1 kernel, vm_compute (examples only)',
        'extraction: ExtrOcamlBasic only, OCaml 4.13.1',
        'hand model coq/C19/Defs.v of src/archive.cpp and cppcms/archive_traits.h (tied by correspondence)',
        'harness/C19_archive.cpp (instantiates the real templates at 52 C++ types; `#define private public` only to read archive::ptr_), '
        'ocaml/C19_driver.ml, checks/C19.py (independent python encoder of the wire format, generators, oracle)',
        'the JSON parser/writer is external to the model: its verdict on every json chunk met is taken from the real parser (C11)',
        'g++ -fsanitize=address for harness + src/archive.cpp (both tiers); -fsanitize=address,undefined for the whole library (thorough tier)']
    ctx.assumptions = ['archives are smaller than 2^64 bytes (blen buf < M64); chunk payloads written are smaller than 2^32 bytes',
                       'x86-64: little-endian uint32_t/size_t, sizeof(size_t)=8',
                       'container elements consume at least one chunk (elems_ok): false only for containers of field-less user classes',
                       'round trip of json values: only for texts the parser/writer pair reproduces (json_fix)',
                       'sets/maps: C++ iteration order is not modelled (compared after sorting the printed elements)',
                       'session format: keys beginning with _ (the session own settings _t,_h,_s) are not generated; struct packed bit-fields '
                       'are allocated from bit 0 upwards (x86-64 System V ABI)']
    wrap = [sys.executable, os.path.abspath(__file__), '--wrap']
    # three independent builds side by side: harness against the library build, harness + src/archive.cpp compiled
    # with AddressSanitizer (its definitions of archive::* take precedence over the library's), extracted model
    import concurrent.futures
    with concurrent.futures.ThreadPoolExecutor(3) as ex:
        # -g0: debug information doubles the compile time of this template-heavy file; ASan reports still name the functions
        f2 = ex.submit(build_split, 'C19_archive_san', extra=['-DC19_WITH_SERVICE', '-fsanitize=address', '-fno-omit-frame-pointer', '-g0'],
                       with_archive_cpp=True)
        f3 = ex.submit(lambda: (vlib.coq_make(['C19/SessDefs.vo']), vlib.build_model('C19', 'C19_driver.ml', 'c19m'))[1])
        # quick tier: only the sanitized harness (same sources, less CPU); thorough: also against the library's own archive.o
        f1 = ex.submit(build_split, 'C19_archive', extra=['-DC19_WITH_SERVICE', '-g0']) if not ctx.quick() else None
        sexe, serr = f2.result()
        mexe, merr = f3.result()
        pexe, perr = f1.result() if f1 else (None, '')
    if not sexe:
        ctx.broke('harness build (with src/archive.cpp, AddressSanitizer) failed', serr)
        return
    if f1 and not pexe:
        ctx.broke('harness build against the library failed', perr)
    if not mexe:
        ctx.broke('model extraction/build failed', merr)
    exe = sexe
    san_env = {'ASAN_OPTIONS': 'detect_leaks=0:abort_on_error=0:allocator_may_return_null=1:hard_rss_limit_mb=2500', 'UBSAN_OPTIONS': 'print_stacktrace=0'}
    os.environ.update(san_env)
    # the type table of the harness must be the one the generators assume
    rc, tl, _ = vlib.run_lines(exe, ['types'])
    want = 'types ' + ' '.join('%d=%s' % (i, s) for i, s in enumerate(TYPES))
    if not tl or tl[0] != want:
        ctx.broke('harness type table differs from checks/C19.py TYPES', (tl[0] if tl else '<none>'))
        return
    if ctx.replay_cases is not None:
        cases = strip_jtab(ctx.replay_cases)
    else:
        cases = strip_jtab(vlib.corpus_cases('C19')) + gen_cases(ctx)
    cases, nj = with_json_verdicts(cases, wrap + [exe])
    ctx.coverage['rule'] = (
        'cases: op, type id, type spec, input (hex archive or value text), json verdict table. For each of 52 C++ types (PODs, string, '
        'POD vectors, vector/list/set/map/pair nests, shared_ptr/copy_ptr/hold_ptr/clone_ptr/unique_ptr/intrusive_ptr, multiset/multimap, wchar_t, long double, json::value, 5 user classes): the minimal value, the '
        'one-element value and seeded random values are saved and loaded back (rt: fresh and used target, operator<< and operator&, '
        'copy of the archive; sc: session_interface and cache_interface store_data/fetch_data); of each saved archive EVERY truncation '
        '(tr; sampled around chunk boundaries above %d bytes), EVERY 4-byte length field replaced by len+-1..4, remaining+-1..4, 0, 2^31, '
        '2^32-1.. (muh), every container count changed (mu), pointer flags changed, single-byte damage, deletions/insertions (ld/scl); '
        'a grid first-header-value x bytes-that-follow for every type; random bytes. Exhaustive: all archives <header 0..10 with 5 '
        'high-byte variants><0..9 bytes> for 6 types. Session map format: sd = bytes handed to session_interface::load() by a custom storage '
        'backend (truncations, header mutations, doubled strings, exhaustive small headers, random), ss = entries set/exposed, saved and loaded by '
        'the next session object (size limits 1023/1024 key bytes, 2^21-1/2^21 value bytes in the thorough tier). '
        'Empty things at every position: for every type the full value with each string / POD vector / container / pointer instance made empty '
        'alone, in pairs, in random subsets (rt, sc); sq = 2..6 objects of random types saved one after another into ONE archive and loaded one '
        'after another (read position after each = sum of the independent encoder lengths). Every case runs under a per-case watchdog in the '
        'harness (1.5 s CPU, 30 s wall, RSS limit): an over-budget case is answered `<op> HANG ...` and is a violation with itself as replay. '
        'A case is non-trivial unless its archive is empty; distinct = distinct case lines.'
        % ctx.scale(160, 600))
    ctx.coverage['exhaustive'] = False
    ctx.coverage['exhaustive_parts'] = ['every truncation of every generated archive up to %d bytes' % ctx.scale(160, 600),
                                        'every sequence of 1..3 objects over 7 types x {minimal, one-element} value saved into one archive (2954 sq cases)',
                                        'header 0..10 x 5 high-byte variants x 0..9 payload bytes x 6 types (3300 archives)']
    ctx.coverage['json_verdict_cases'] = nj
    # the extracted list functions are not tail recursive: give the model a big stack for the 2 MiB session values
    mcmd = ['bash', '-c', 'ulimit -s unlimited 2>/dev/null || ulimit -s 1000000 2>/dev/null; exec "$0"', mexe] if mexe else None
    vlib.differential(ctx, cases, wrap + [exe], mcmd, oracle, nontrivial, classify, impl_env=san_env)
    if not ctx.quick():
        if pexe:
            vlib.differential(ctx, cases, wrap + [pexe], None, oracle, nontrivial, classify)
        ok, err = vlib.build_repo(asan=True)
        if not ok:
            ctx.broke('ASan/UBSan library build of the working tree failed', err)
            return
        # archive.cpp is compiled into the executable here too, with one UBSan check off: read_chunk/write_chunk of an EMPTY POD
        # vector call memcpy/append with a null pointer and length 0 (formally undefined, no access; see docs/C19.md, observations)
        aexe, err = build_split('C19_archive', asan=True, extra=['-DC19_WITH_SERVICE', '-fno-sanitize=nonnull-attribute', '-g0'], with_archive_cpp=True)
        if not aexe:
            ctx.broke('ASan harness build failed', err)
            return
        vlib.differential(ctx, cases, wrap + [aexe], None, oracle, nontrivial, classify, impl_env=san_env)
        ctx.coverage['sanitizer_run'] = ('all cases three times: (1) harness + src/archive.cpp compiled with -fsanitize=address, rest of the library '
                                         'from the regular build, compared with the model; (2) harness against the regular library build (oracle only); '
                                         '(3) whole library and harness built -fsanitize=address,undefined, nonnull-attribute check off for archive.cpp and the harness (oracle only)')
    else:
        ctx.coverage['sanitizer_run'] = ('all cases once: harness + src/archive.cpp of the working tree compiled with -fsanitize=address (archive::* of the '
                                         'executable take precedence), json/session/cache from the regular library build. Whole-library ASan/UBSan build: thorough tier')
