"""C12 -- uploaded form data is reconstructed exactly under any chunking, within limits."""
import os, re, shutil
import vlib
from vlib import hexs, unhex

META = dict(
    property_id='C12',
    design_ref='DESIGN.md section 4, C12',
    technique='Coq proof (per-byte state machine, induction over the body and over the chunk list) + extracted-model '
              'correspondence against cppcms::impl::multipart_parser driven with explicit cut lists',
    level_text=('Theorems in coq/C12/Props.v over an executable model of multipart_parser::consume (per-byte step with the two '
                'chunk-sensitive spots), process_header/parse_content_disposition/parse_pair/unquote/content_type::parse, '
                'http::request::on_content_start/on_content_progress/size_ok and parse_form_urlencoded/urldecode: (1) the result of a '
                'multipart request is the same for every partition of the body into chunks (empty chunks and bytes beyond the declared '
                'length included); (2) for boundary CR LF - - key with no CR in key the hand-restarted matcher writes exactly the content '
                'and stops at the first delimiter, for every content free of the delimiter (refutation witness when key has a CR; soundness '
                'for any boundary); (3) decode(encode parts) = parts for every list of parts (names, file names, MIME types, contents, '
                'order) under every chunking and within the limits; (4) limits: declared length over multipart_form_data_limit => 413, '
                'oversized form field => 413 and stays refused, missing boundary => 400, shorter / longer than declared and trailing bytes '
                '=> 400, entries are published iff the closing delimiter ends exactly at the declared length; (5) multipart filter events '
                'are chunking independent and on success are exactly the delivered entries, each once; (6) urlencoded round trip, for the '
                'fixed %XX encoder and for ANY per-byte encoding choice (literal / + / %XX either case), GET query all-or-nothing, read_full '
                'accumulation independent of the chunking; (7) every RFC 2046 boundary is CR-free (domain of the one remaining refuted statement); the '
                'part header terminator is recognised exactly at its first occurrence in EVERY text, so a part header with any bytes (bare CR '
                'included) is refused with 400 or framed exactly; (8) temporary files as a resource '
                'state machine (file_buffer put side, file::close/~file/save_to/make_permanent, owners): spill iff size > limit, every file '
                'created is closed and removed exactly once on ready / 400 / 413 / aborted and for every behaviour of the application, never '
                'while the application still holds it; (9) content_type::parse on every well-formed header: boundary = exactly the value of '
                'the first boundary parameter; (10) limits exact at n-1/n/n+1; (11) temporary files when fopen/fwrite/fflush/fclose FAIL at any point: '
                'every object - the one whose spill itself failed included - leaves no descriptor and no file when destroyed, whatever fails during '
                'close; a failed final flush of a part is reported as no_room_left; (12) stream state left by a reading content filter: fields are '
                'delivered whole in EVERY state (any position, failbit set or not). Leaf functions separator / ascii_to_lower / xdigit and the '
                'limit decisions (spill switch, buffer growth, on_content_start, size_ok, default limits) are regenerated from the current '
                'source and proved equal to the model leafs.'),
    level_note=('Trusted: Coq kernel + vm_compute; cxx2v translator and clang AST (3 leaf functions only); ExtrOcamlBasic extraction; '
                'the hand model of the parser, header parser and request driver is tied to the code by differential testing only '
                '(bare multipart_parser with explicit cut lists incl. every 2-cut of small bodies; whole requests through a running '
                'cppcms::service over SCGI with limits/filters/buffer sizes), not by proof. The resource model of the upload files '
                '(coq/C12/ResDefs.v) assumes that fopen/fwrite/fclose/rename/remove succeed, coq/C12/FaultDefs.v lets fopen/fwrite/fflush/fclose fail '
                '(tied by fault injection in the bare-parser harness: interposed libc calls, per-file byte quota); both are tied by counting directory entries and '
                'open descriptors (via /proc/self/fd) in both harnesses at: end of parsing, application start, application end (after '
                'close/save_to/make_permanent/kept references), request destroyed, references dropped. no_room_left (upload write '
                'failure) is modelled for the bare parser only; of the read side of file_buffer only position and failbit of the part streams are modelled. HTTP and FastCGI front ends are not used for C12.'),
)

LIM_TU = os.path.join(vlib.WORK, 'C12', 'C12_limit_leafs.cpp')
LIM_TU_PROBLEMS = []


def limits_tu():
    """The limit decisions of the anchored code are inside member functions with I/O and stream calls, outside the subset of
    tools/cxx2v.py.  Their integer leafs are lifted TEXTUALLY from the current source into a tiny TU (rewritten on every run) and
    translated; coq/C12/LinkLimits.v proves them equal to the model's decisions: (1) file_buffer::overflow - the memory-to-file
    switch `size >= limit_`, the growth of the in-memory buffer, buffer_size; (2) request::on_content_start - 0 / negative length,
    multipart_form_data_limit vs. content_length_limit; (3) request::size_ok; (4) the defaults of the three limits in
    cached_settings.h and the KiB multiplier of content_limits.  A function that no longer has the statement structure the model
    was written for is left out, so the translator reports a broken tie."""
    os.makedirs(os.path.dirname(LIM_TU), exist_ok=True)
    del LIM_TU_PROBLEMS[:]

    def rd(*parts):
        try:
            t = open(os.path.join(vlib.REPO, *parts)).read()
        except OSError as e:
            LIM_TU_PROBLEMS.append(str(e))
            return ''
        t = re.sub(r'//[^\n]*', '', t)
        return ' '.join(re.sub(r'/\*.*?\*/', '', t, flags=re.S).split())
    fb, rq, cs, cf = rd('private', 'http_file_buffer.h'), rd('src', 'http_request.cpp'), rd('private', 'cached_settings.h'), rd('src', 'http_content_filter.cpp')
    out = ['// GENERATED by checks/C12.py from the current source - do not edit']
    E = r'([^;{}]*?)'
    m = re.search(r'int overflow\(int c\) ?\{ ?size_t size ?= ?pptr\(\) ?- ?pbase\(\); ?if ?\(in_memory_\) ?\{ ?if ?\(' + E + r'\) ?\{ ?if ?\(to_file\(\) ?< ?0\) ?return -1; ?\} ?'
                  r'else ?\{ ?size_t read_offset ?= ?gptr\(\) ?- ?eback\(\); ?size_t new_size ?= ?' + E + r'; ?((?:if ?\(new_size[^;{}]*\) ?new_size ?= ?[^;{}]*; ?)*)data_\.resize\(new_size\);', fb)
    if m:
        grow = m.group(3).replace('size_t', 'unsigned long')
        out.append('static int c12_spill(unsigned long size, unsigned long limit_) { if(%s) return 1; return 0; }' % m.group(1))
        out.append('static unsigned long c12_grow(unsigned long data_size, unsigned long limit_) { unsigned long new_size = %s; %s return new_size; }'
                   % (m.group(2).replace('data_.size()', 'data_size'), grow))
    else:
        LIM_TU_PROBLEMS.append('private/http_file_buffer.h: file_buffer::overflow no longer has the statement structure the model (coq/C12/ResDefs.v fo_putc) was written for')
    m = re.search(r'static const size_t buffer_size ?= ?(\d+);', fb)
    if m:
        out.append('static const unsigned long c12_buffer_size = %s;' % m.group(1))
    else:
        LIM_TU_PROBLEMS.append('private/http_file_buffer.h: buffer_size not found')
    m = re.search(r'int request::on_content_start\(\) ?\{ ?(.*?) ?if ?\(!d->filter_is_raw_content_filter', rq)
    if m:
        body = m.group(1)
        for a, b in (('static_cast<long long>(d->limits.content_length_limit())', 'cl_limit'), ('d->limits.content_length_limit()', 'cl_limit'),
                     ('d->limits.multipart_form_data_limit()', 'mp_limit'), ('lazy_content_type().is_multipart_form_data()', 'is_mp'), ('d->content_length', 'content_length')):
            body = body.replace(a, b)
        if re.search(r'[^\w\s(){}<>=!;&|+\-*]', body) or 'd->' in body:
            LIM_TU_PROBLEMS.append('src/http_request.cpp: on_content_start: statement outside the translatable subset: ' + body[:200])
        else:
            out.append('static int c12_start(long long content_length, int is_mp, long long mp_limit, long long cl_limit) { %s return 0; }' % body)
    else:
        LIM_TU_PROBLEMS.append('src/http_request.cpp: request::on_content_start not found in the expected shape')
    m = re.search(r'bool request::size_ok\(file ?&f, ?long long size\) ?\{ ?if ?\(' + E + r'\) ?\{ ?BOOSTER_NOTICE.*?return false; ?\} ?return true; ?\}', rq)
    if m:
        out.append('static int c12_size_ok(int has_mime, long long fsize, long long size) { if(%s) return 0; return 1; }'
                   % m.group(1).replace('f.has_mime()', 'has_mime').replace('f.size()', 'fsize'))
    else:
        LIM_TU_PROBLEMS.append('src/http_request.cpp: request::size_ok not found in the expected shape')
    for name, fn in (('multipart_form_data_limit', 'c12_def_mp'), ('content_length_limit', 'c12_def_cl'), ('file_in_memory_limit', 'c12_def_mem')):
        m = re.search(name + r' ?= ?v\.get\("security\.' + name + r'", ?([\d*+ ()]+)\);', cs)
        k = re.search(name + r'_\(s\.security\.' + name + r' ?([*\dL ]*)\)', cf)
        if m and k:
            out.append('static long long %s() { long long %s = %s; return %s %s; }' % (fn, name, m.group(1), name, k.group(1)))
        else:
            LIM_TU_PROBLEMS.append('default of security.%s not found in private/cached_settings.h / src/http_content_filter.cpp' % name)
    vlib.write_if_changed(LIM_TU, '\n'.join(out) + '\n')
    return LIM_TU


GEN = {
    'Gen_c12': dict(src='src/http_content_type.cpp',
                    functions=[('separator', 'g_c12_separator'), ('ascii_to_lower', 'g_c12_to_lower'), ('xdigit', 'g_c12_xdigit')]),
    'Gen_c12lim': dict(src=limits_tu(), incs=[], consts=[('c12_buffer_size', 'g_c12_buffer_size')],
                       functions=[('c12_spill', 'g_c12_spill'), ('c12_grow', 'g_c12_grow'), ('c12_start', 'g_c12_start'), ('c12_size_ok', 'g_c12_size_ok'),
                                  ('c12_def_mp', 'g_c12_def_mp'), ('c12_def_cl', 'g_c12_def_cl'), ('c12_def_mem', 'g_c12_def_mem')]),
}

SEPARATORS = set(b'()<>@,;:\\"/[]?={} \t')
TOKEN_BCHARS = b"0123456789abcdefghijklmnopqrstuvwxyzABCDEFGHIJKLMNOPQRSTUVWXYZ'+_-."
TOKEN_EDGE = b'!~#$%&*^`|'        # the remaining token characters, incl. both ends of the 0x21..0x7E range
QUOTED_BCHARS = b"(),/:=? "


def tokenable(v):
    return len(v) > 0 and all(0x21 <= c <= 0x7e and c not in SEPARATORS for c in v)


def rbytes(rng, n):
    return bytes(rng.getrandbits(8) for _ in range(n))


# ------------------------------------------------------------------------------------------------
# independent encoder (the specification side of the oracle)
# ------------------------------------------------------------------------------------------------
def enc_value(rng, v, style):
    """header parameter value: bare token when possible and wanted, else quoted-string with \\ escapes"""
    if tokenable(v) and style.get('bare', 0) > rng.random():
        return v
    out = bytearray(b'"')
    for c in v:
        if c in (0x22, 0x5c):
            out += b'\\' + bytes([c])
        elif style.get('overescape', 0) > rng.random() and c not in (13, 10):
            out += b'\\' + bytes([c])          # a needless quoted-pair is still legal
        else:
            out.append(c)
    out += b'"'
    return bytes(out)


def rcase(rng, s, style):
    if style.get('case', 0) > rng.random():
        return bytes((c ^ 0x20) if (65 <= c <= 90 or 97 <= c <= 122) and rng.random() < 0.5 else c for c in s)
    return s


def ws(rng, style, default=b''):
    if style.get('ws', 0) > rng.random():
        return rng.choice([b'', b' ', b'  ', b'\t', b' \t '])
    return default


def enc_part_headers(rng, part, style):
    name, filename, mime, _ = part
    params = [b'name=' + ws(rng, style) + enc_value(rng, name, style)]
    if filename is not None:
        params.append(b'filename=' + ws(rng, style) + enc_value(rng, filename, style))
    if style.get('shuffle', 0) > rng.random():
        rng.shuffle(params)
    if style.get('extra', 0) > rng.random():
        params.insert(rng.randrange(len(params) + 1), rng.choice([b'size=12', b'x="a;b=c"', b'Name2=zz', b'FILENAMEX="q"']))
    params = [rcase(rng, p[:p.index(b'=')], style) + p[p.index(b'='):] for p in params]
    cd = rcase(rng, b'Content-Disposition', style) + ws(rng, style) + b':' + ws(rng, style, b' ') + rcase(rng, b'form-data', style)
    for p in params:
        cd += ws(rng, style) + b';' + ws(rng, style, b' ') + p
    cd += ws(rng, style)
    lines = [cd]
    if mime:
        m = rcase(rng, mime, style)
        if style.get('ctparam', 0) > rng.random():
            m += rng.choice([b'; charset=UTF-8', b';charset="x y"', b' ; a=b; c="d"'])
        lines.append(rcase(rng, b'Content-Type', style) + b':' + ws(rng, style, b' ') + m + ws(rng, style))
    if style.get('xhdr', 0) > rng.random():
        lines.insert(rng.randrange(len(lines) + 1), rng.choice(
            [b'Content-Transfer-Encoding: binary', b'X-Custom: a; b="c\\"d"', b'Content-Length: 7', b'X:']))
    if style.get('shuffle', 0) > rng.random():
        rng.shuffle(lines)
    return b'\r\n'.join(lines) + b'\r\n\r\n'


def encode_body(rng, key, parts, style):
    out = bytearray()
    delim = b'--' + key
    first = True
    for p in parts:
        out += (b'' if first else b'\r\n') + delim + b'\r\n' + enc_part_headers(rng, p, style) + p[3]
        first = False
    out += (b'' if first else b'\r\n') + delim + b'--\r\n'
    return bytes(out)


def enc_ct(rng, key, style):
    v = key if (tokenable(key) and rng.random() < 0.5) else b'"' + key.replace(b'\\', b'\\\\').replace(b'"', b'\\"') + b'"'
    ct = rcase(rng, b'multipart/form-data', style)
    if style.get('ctparam', 0) > rng.random():
        ct += b'; charset=utf-8'
    ct += ws(rng, style) + b';' + ws(rng, style, b' ') + rcase(rng, b'boundary', style) + b'=' + ws(rng, style) + v
    if style.get('ctparam', 0) > rng.random():
        ct += b'; boundary=zzz-second-is-ignored'
    return ct


def enc_ct_wf(rng, key):
    """OWS type/subtype *( OWS ; OWS name OWS = OWS (token | quoted-string) ) with the boundary parameter somewhere"""
    def o():
        return rng.choice([b'', b'', b' ', b'\t', b'  ', b' \t'])

    def val(v):
        if tokenable(v) and rng.random() < 0.5:
            return v
        return b'"' + v.replace(b'\\', b'\\\\').replace(b'"', b'\\"') + b'"'

    def param(name, v):
        return o() + b';' + o() + name + o() + b'=' + o() + val(v)
    others = [(b'charset', b'utf-8'), (b'x', b'a b;c=d'), (b'Boundaryx', b'no'), (b'oundary', b'no'), (b'q', b'"\\'), (b'~!#', b'$%&')]
    before = [param(*rng.choice(others)) for _ in range(rng.choice([0, 0, 1, 2]))]
    after = [param(*rng.choice(others + [(b'boundary', b'second-is-ignored')])) for _ in range(rng.choice([0, 0, 1, 2]))]
    bname = rng.choice([b'boundary', b'BOUNDARY', b'Boundary', b'bOuNdArY'])
    mt = rcase(rng, b'multipart/form-data', dict(case=0.5))
    return o() + mt + b''.join(before) + param(bname, key) + b''.join(after)


PLAIN = dict()
FANCY = dict(bare=0.5, overescape=0.1, case=0.5, ws=0.5, shuffle=0.5, extra=0.3, ctparam=0.4, xhdr=0.4)


# ------------------------------------------------------------------------------------------------
# generators
# ------------------------------------------------------------------------------------------------
def gen_key(rng):
    ln = rng.choice([1, 1, 2, 3, 4, 5, 8, 10, 16, 27, 38, 40, 69, 70, rng.randrange(1, 71)])
    mode = rng.randrange(8)
    if mode == 0:
        k = b'-' * ln
    elif mode == 1:
        k = (b'----WebKitFormBoundary' + bytes(rng.choice(TOKEN_BCHARS) for _ in range(70)))[:max(ln, 1)]
    elif mode == 2:
        pat = bytes(rng.choice(b'ab-') for _ in range(rng.randrange(1, 4)))
        k = (pat * 70)[:ln]
    elif mode == 3:
        k = bytes(rng.choice(TOKEN_BCHARS + QUOTED_BCHARS) for _ in range(ln))
    elif mode == 5:
        k = bytes(rng.choice(TOKEN_EDGE + b'az09') for _ in range(ln))
    elif mode == 4:
        k = (b'--' + bytes(rng.choice(b'-x') for _ in range(70)))[:ln]
    else:
        k = bytes(rng.choice(TOKEN_BCHARS) for _ in range(ln))
    if k.endswith(b' '):
        k = k[:-1] + b'x'
    return k


def gen_content(rng, key, maxlen):
    """never contains CR LF - - key"""
    delim = b'\r\n--' + key
    mode = rng.randrange(10)
    if mode == 0:
        c = b''
    elif mode == 1:
        c = rbytes(rng, rng.randrange(0, maxlen + 1))
    elif mode == 2:
        c = bytes(rng.choice(b'\r\n-') for _ in range(rng.randrange(0, min(maxlen, 40) + 1)))
    elif mode == 3:
        c = bytes(rng.choice(b'abc \n') for _ in range(rng.randrange(0, maxlen + 1)))
    else:
        other = bytes([rng.choice([c for c in b'xy-\r\n' if c != delim[-1]])])
        pieces = [b'\r', b'\n', b'-', b'\r\n', b'\r\n-', b'\r\n--', b'--', key, b'--' + key, b'\n--' + key, b'\r--' + key,
                  b'\r\r\n--' + key[:-1], delim[:-1] + other, delim[1:], b'\r\n\r\n', b'\r\r\n', b'\r\n--' + key[:-1],
                  delim[:-1], delim[:-1] + b'\r', b'a', b'\x00', b'\xff']
        out = bytearray()
        target = rng.randrange(0, maxlen + 1)
        while len(out) < target:
            r = rng.random()
            if r < 0.35:
                out += delim[:rng.randrange(1, len(delim))]
            elif r < 0.45:
                out += key[:rng.randrange(0, len(key) + 1)]
            elif r < 0.55:
                out += rbytes(rng, rng.randrange(1, 4))
            else:
                out += rng.choice(pieces)
        c = bytes(out[:maxlen])
        # a frequent and nasty shape: the content ends with a proper prefix of the delimiter
        if rng.random() < 0.5 and maxlen >= 1:
            tail = delim[:rng.randrange(1, len(delim))]
            c = (c + tail)[-maxlen:] if len(c) + len(tail) > maxlen else c + tail
    while delim in c:
        i = c.index(delim)
        c = c[:i + len(delim) - 1] + c[i + len(delim):]          # drop the last character of the look-alike
    return c


NAME_ALPHABETS = [b'abcxyz019_-.', b'!~#$%&*^`|az', b'~!a\x7f\x1f\x80 ', b'ab "\\;=', bytes(range(0x80, 0x90)) + b'ab', b'a\x00\x01\t\x7f', b'name=;,/()']


def gen_hvalue(rng, allow_empty=True):
    ln = rng.choice([0, 1, 1, 2, 3, 5, 8, 20]) if allow_empty else rng.choice([1, 1, 2, 3, 5, 8, 20])
    al = rng.choice(NAME_ALPHABETS)
    return bytes(rng.choice(al) for _ in range(ln))


MIMES = [b'text/plain', b'application/octet-stream', b'image/x-png', b'a/b', b'x-y.z/w+v']


def gen_parts(rng, key, nparts, maxlen):
    parts = []
    for _ in range(nparts):
        name = gen_hvalue(rng)
        filename = gen_hvalue(rng) if rng.random() < 0.4 else None
        mime = rng.choice(MIMES) if rng.random() < 0.5 else b''
        parts.append((name, filename, mime, gen_content(rng, key, maxlen)))
    return parts


def expect_token(parts):
    """what the application must be handed: N/name/filename/mime/data/..."""
    f = [str(len(parts))]
    for name, filename, mime, data in parts:
        f += [hexs(name), hexs(filename or b''), hexs(mime.lower()), hexs(data)]
    return '/'.join(f)


def independent_split(key, body):
    """cheap cross-check of the generator itself: walk delimiter -> header block -> next delimiter"""
    delim = b'\r\n--' + key
    assert body.startswith(b'--' + key)
    pos = 2 + len(key)
    out = []
    while body[pos:pos + 2] == b'\r\n':
        start = body.index(b'\r\n\r\n', pos) + 4
        e = body.index(delim, start)
        out.append(body[start:e])
        pos = e + len(delim)
    assert body[pos:] == b'--\r\n', body[pos:]
    return out


def interesting_cuts(rng, body, key, k):
    """cut offsets aimed at the places where a chunk edge matters: inside delimiters and look-alikes"""
    n = len(body)
    hot = set()
    for m in re.finditer(rb'\r', body):
        for d in range(0, len(key) + 6):
            if 0 < m.start() + d < n:
                hot.add(m.start() + d)
    for m in re.finditer(rb'\r\n\r\n', body):
        for d in range(0, 6):
            if 0 < m.start() + d < n:
                hot.add(m.start() + d)
    for d in (1, 2, 3, 4, 5):
        if 0 < n - d:
            hot.add(n - d)
    hot = sorted(hot)
    if not hot:
        return '-'
    cuts = sorted(set(rng.choice(hot) for _ in range(k)))
    return ','.join(str(c) for c in cuts)


def random_cuts(rng, n, k):
    if n < 2 or k < 1:
        return '-'
    cuts = sorted(set(rng.randrange(1, n) for _ in range(k)))
    return ','.join(str(c) for c in cuts)


MEMS = [-1, 0, 1, 3, 64, 100, 1000, 65536]


def mutate(rng, body):
    if not body:
        return b'x'
    r = rng.randrange(6)
    i = rng.randrange(len(body))
    if r == 0:
        return body[:i] + bytes([body[i] ^ (1 << rng.randrange(8))]) + body[i + 1:]
    if r == 1:
        return body[:i] + body[i + 1:]
    if r == 2:
        return body[:i] + bytes([rng.choice(b'\r\n-;="\\ :x')]) + body[i:]
    if r == 3:
        return body[:i]
    if r == 4:
        return body + rng.choice([b'\r\n', b'x', b'\n', b'--', b'\r\n--'])
    return body.replace(b'\r\n', rng.choice([b'\n', b'\r', b'\r\r\n']), 1)


def gen_cases(ctx):
    rng = ctx.rng
    cases = []

    def small_body(style, maxbody=300):
        for _ in range(50):
            key = gen_key(rng)
            nparts = rng.choice([0, 1, 1, 2, 2, 3, 4])
            parts = gen_parts(rng, key, nparts, rng.choice([0, 3, 10, 30, 60]))
            body = encode_body(rng, key, parts, style)
            if len(body) <= maxbody:
                return key, parts, body
        key = b'k'
        return key, [], encode_body(rng, key, [], style)

    # 1. well-formed small bodies, EVERY 2-cut (all2) + 1-byte feeding + hot 3..6-cuts
    for i in range(ctx.scale(320, 4000)):
        style = PLAIN if i % 3 == 0 else FANCY
        key, parts, body = small_body(style)
        assert independent_split(key, body) == [p[3] for p in parts], (key, parts, body)
        ct = enc_ct(rng, key, style)
        exp = expect_token(parts)
        mem = rng.choice(MEMS + [len(p[3]) + d for p in parts for d in (-1, 0, 1) if len(p[3]) + d >= 0])
        cases.append('all2 %d %s %s %s' % (mem, hexs(ct), hexs(body), exp))
        cases.append('mp %d %s b1 %s %s' % (rng.choice(MEMS), hexs(ct), hexs(body), exp))
        for _ in range(3):
            cases.append('mp %d %s %s %s %s' % (rng.choice(MEMS), hexs(ct), interesting_cuts(rng, body, key, rng.randrange(2, 7)),
                                                 hexs(body), exp))
        cases.append('mp %d %s b%d %s %s' % (rng.choice(MEMS), hexs(ct), rng.choice([2, 3, 5, 7, 16, 64]), hexs(body), exp))

    # 1b. every shape of a well-formed Content-Type (case split of coq/C12/CType.v): optional white space at the five places,
    #     token / quoted-string values, parameters before and after the boundary parameter, boundary name in any case
    for i in range(ctx.scale(150, 1500)):
        key, parts, body = small_body(PLAIN, 200)
        ct = enc_ct_wf(rng, key)
        cases.append('mp %d %s %s %s %s' % (rng.choice(MEMS), hexs(ct), rng.choice(['-', 'b1', 'b7']), hexs(body), expect_token(parts)))

    # 2. well-formed medium / large bodies, 0..10 parts, random multi-cuts and buffer sizes 1..64 KiB
    sizes = ctx.scale([200, 1000, 5000, 20000], [200, 200, 1000, 1000, 5000, 5000, 20000, 20000, 70000, 262144])
    for i in range(ctx.scale(260, 700)):
        style = PLAIN if i % 3 == 0 else FANCY
        key = gen_key(rng)
        maxlen = rng.choice(sizes)
        nparts = rng.randrange(0, 11)
        if maxlen > 20000:
            nparts = min(nparts, 3)
        parts = gen_parts(rng, key, nparts, maxlen)
        body = encode_body(rng, key, parts, style)
        ct = enc_ct(rng, key, style)
        exp = expect_token(parts)
        n = len(body)
        specs = ['-', 'b%d' % rng.choice([1024, 4096, 8192, 65536, rng.randrange(1, 65537)]),
                 random_cuts(rng, n, rng.randrange(1, 12)), interesting_cuts(rng, body, key, rng.randrange(1, 12))]
        if n <= 6000:
            specs.append('b1')
        for sp in specs:
            mem = rng.choice(MEMS + [len(p[3]) + d for p in parts for d in (-1, 0, 1) if len(p[3]) + d >= 0])
            cases.append('mp %d %s %s %s %s' % (mem, hexs(ct), sp, hexs(body), exp))

    # 3. maximum-size contents (256 KiB) - a few
    for i in range(ctx.scale(2, 12)):
        key = gen_key(rng)
        data = gen_content(rng, key, 262144)
        if rng.random() < 0.5:
            data = (data * (262144 // max(1, len(data)) + 1))[:262144]
            while b'\r\n--' + key in data:
                j = data.index(b'\r\n--' + key)
                data = data[:j] + b'x' + data[j + 1:]
        parts = [(b'f', b'big.bin', b'application/octet-stream', data), (b'after', None, b'', b'tail')]
        body = encode_body(rng, key, parts, PLAIN)
        ct = enc_ct(rng, key, PLAIN)
        cases.append('mp %d %s b%d %s %s' % (rng.choice([-1, 1000, 262143, 262144, 300000]), hexs(ct),
                                             rng.choice([1024, 4096, 65536, 7919]), hexs(body), expect_token(parts)))

    # 4. refused bodies derived from well-formed ones: truncations and trailing bytes ("!" = must not be delivered)
    for i in range(ctx.scale(300, 4000)):
        key, parts, body = small_body(FANCY if i % 2 else PLAIN, 250)
        ct = enc_ct(rng, key, PLAIN)
        if rng.random() < 0.5 and len(body) > 1:
            bad = body[:rng.randrange(0, len(body))]
        else:
            bad = body + rng.choice([b'x', b'\r\n', b'\n', b'--', b'\r\n--' + key + b'--\r\n', rbytes(rng, 3)])
        cases.append('all2 %d %s %s !' % (rng.choice(MEMS), hexs(ct), hexs(bad)))
        cases.append('mp %d %s %s %s !' % (rng.choice(MEMS), hexs(ct), str(len(body)) if len(bad) > len(body) else 'b1', hexs(bad)))

    # 5. malformed stream: mutated bodies, odd Content-Type headers, CR inside keys, lone CRs in headers.
    #    No expectation ("-"): correspondence + chunking agreement only.
    for i in range(ctx.scale(350, 4000)):
        key, parts, body = small_body(FANCY, 250)
        ct = enc_ct(rng, key, FANCY)
        for _ in range(rng.randrange(1, 4)):
            body = mutate(rng, body)
        if rng.random() < 0.2:
            ct = mutate(rng, ct)
        cases.append('all2 %d %s %s -' % (rng.choice(MEMS), hexs(ct), hexs(body)))
        cases.append('mp %d %s %s %s -' % (rng.choice(MEMS), hexs(ct), rng.choice(['b1', 'b2', random_cuts(rng, len(body), 3)]), hexs(body)))
    odd_ct = [b'', b'multipart/form-data', b'multipart/form-data;', b'multipart/form-data; boundary=', b'multipart/form-data; boundary=""',
              b'multipart/form-data; boundary="abc', b'multipart/form-data; boundary=a b', b'multipart/form-data; boundary = abc',
              b'multipart/form-data; boundary= abc ', b'multipart; boundary=abc', b'/form-data; boundary=abc', b'text/plain; boundary=abc',
              b'multipart/form-data; x; boundary=abc', b'multipart/form-data; x=1; boundary=abc; boundary=def',
              b'multipart/form-data; BOUNDARY="a\\bc"', b' \t multipart/form-data\r\n ; boundary=abc', b'multipart/form-data; boundary=abc\r\n',
              b'multipart/form-data; boundary="a\r\n--a"', b'multipart/form-data; boundary="\r\n--b"', b'multipart/form-data ; boundary=\xe9',
              b'multipart/form-data; boundary="\xe9\x00"', b'multipart/form-data;boundary=abc;', b'multipart/form-data; =abc']
    for ct in odd_ct:
        m = re.search(rb'boundary\s*=\s*"?([^";]*)', ct, re.I)
        key = m.group(1) if m and m.group(1) else b'abc'
        for key2 in (key, b'abc', b'a\\bc', b'abc ', key.strip()):
            body = encode_body(rng, key2, [(b'n', None, b'', b'data\r\n--' + key2[:-1])], PLAIN)
            cases.append('all2 3 %s %s -' % (hexs(ct), hexs(body)))
    # CR inside the key (outside well-formed input, matcher_needs_cr_free_key_refuted) and CR CR LF CR LF after a header (repaired, 3fc4520)
    key = b'\r\n--b'
    body = b'--' + key + b'\r\nContent-Disposition: form-data; name=a\r\n\r\n' + b'\r\n--' + b'\r\n--' + key + b'--\r\n'
    cases.append('all2 3 %s %s -' % (hexs(b'multipart/form-data; boundary="\r\n--b"'), hexs(body)))
    body = b'--k\r\nContent-Disposition: form-data; name=a\r\r\n\r\nbody\r\n--k\r\nX: y\r\n\r\nz\r\n--k--\r\n'
    cases.append('all2 3 %s %s -' % (hexs(b'multipart/form-data; boundary=k'), hexs(body)))
    # header-level malformations, each inside an otherwise valid body
    bad_hdrs = [b'Content-Disposition form-data; name=a', b'Content-Disposition: attachment; name=a', b'Content-Disposition: form-data; name',
                b'Content-Disposition: form-data; name=', b'Content-Disposition: form-data; name="abc', b'Content-Disposition: form-data; name =a',
                b'Content-Disposition: form-data name=a', b'Content-Disposition: form-data; name=a b', b'Content-Disposition: form-data;',
                b'Content-Disposition: form-data; name=a;', b'Content-Disposition: form-data; name="a\\', b': x', b'X', b' ', b'X-Fold: a\r\n b',
                b'Content-Disposition: form-data; name=a\r\nContent-Type: ', b'Content-Disposition: form-data; name=a\r\nContent-Type: text',
                b'Content-Disposition: form-data; name=a\r\nContent-Type: text/', b'Content-Disposition: form-data; name=a\r\nContent-Type: /plain',
                b'Content-Disposition: form-data; name=a\r\nContent-Type: TEXT/Plain;;', b'Content-Disposition: form-data; name=a\r\nContent-Type: a/b\r\nContent-Type: c',
                b'Content-Disposition: form-data; name=a\r\nContent-Disposition: form-data; filename=f; name=b', b'content-disposition:form-data;NAME=a;FileName=b',
                b'Content-Disposition: form-data; name="\xe9\xa0"; filename=\xe9', b'Content-Dispositio: form-data; name=a', b'Content-Dispositions: form-data; name=a',
                b'Content-Disposition: form-datax; name=a', b'Content-Disposition: form-dat; name=a', b'Content-Disposition\t:\tform-data\t;\tname=a\t',
                b'Content-Disposition: form-data; name=a\r', b'Content-Disposition: form-data; name=a\n', b'', b'Content-Type: text/plain']
    for h in bad_hdrs:
        body = b'--k\r\n' + h + b'\r\n\r\ncontent\r\n--k--\r\n'
        cases.append('all2 3 %s %s -' % (hexs(b'multipart/form-data; boundary=k'), hexs(body)))
    # 6. bare CRs in part headers (malformed: RFC 5322 2.2 allows CR only in CR LF).  Repaired by /repo 3fc4520: the header
    #    terminator is found at its first occurrence whatever precedes it.  The body must be refused or - where the parser is
    #    lenient about a field value it does not interpret - delivered with the framing intact, i.e. exactly the original entries;
    #    never with the content of one part under the name of another ("B/" expectation, key bare-cr-in-part-header-misframed).
    for i in range(ctx.scale(40, 400)):
        key = gen_key(rng)
        parts = gen_parts(rng, key, rng.choice([2, 2, 3, 4]), rng.choice([0, 3, 10, 30]))
        j = rng.randrange(0, len(parts))
        shape = rng.randrange(5)
        out = bytearray()
        for n, pt in enumerate(parts):
            hdr = enc_part_headers(rng, pt, PLAIN)
            if n == j:
                if shape == 0:      # ... X-Note: q CR CRLF CRLF   (the replay of the repaired defect)
                    hdr = hdr[:-2] + b'X-Note: q\r' + b'\r\n\r\n'
                elif shape == 1:    # several CRs before the terminator
                    hdr = hdr[:-2] + b'X-Note: q' + b'\r' * rng.randrange(2, 5) + b'\r\n\r\n'
                elif shape == 2:    # CR LF CR CR LF CR LF: a partial terminator, then a CR, then the terminator
                    hdr = hdr[:-2] + b'\r' + b'\r\n\r\n'
                elif shape == 3:    # the bare CR in the first line of the block
                    hdr = b'X-Note: q\r\r\n' + hdr
                else:               # the bare CR directly after the Content-Disposition value (syntax error there: 400)
                    hdr = hdr[:-4] + b'\r\r\n\r\n'
            out += (b'' if n == 0 else b'\r\n') + b'--' + key + b'\r\n' + hdr + pt[3]
        out += b'\r\n--' + key + b'--\r\n'
        cases.append('mp %d %s %s %s B/%s' % (rng.choice(MEMS), hexs(enc_ct(rng, key, PLAIN)), rng.choice(['-', 'b1', 'b5']), hexs(bytes(out)), expect_token(parts)))
        if i % 4 == 0 and len(out) <= 300:
            cases.append('all2 %d %s %s B/%s' % (rng.choice(MEMS), hexs(enc_ct(rng, key, PLAIN)), hexs(bytes(out)), expect_token(parts)))

    # 7. I/O faults on the temporary files (fi): per-file byte quota (ENOSPC from that size on) below / at / above the in-memory limit,
    #    inside the upload (a later flush of the 1 KiB put area fails) and at its very end (only the final flush fails); fopen failing;
    #    fflush failing; fclose reporting an error; combinations.  Whatever fails: nothing may be left behind when the parser is gone.
    for i in range(ctx.scale(160, 1400)):
        key = gen_key(rng)
        mem = rng.choice([0, 1, 5, 64, 100, 1024, 2000])
        parts = []
        for _ in range(rng.choice([1, 1, 2, 3])):
            ln = max(0, mem + rng.choice([-1, 0, 1, 2, 700, 1024, 1025, 1026, 2100, 3300]))
            data = (gen_content(rng, key, min(ln, 64)) + b'z' * ln)[:ln]
            while b'\r\n--' + key in data:
                j = data.index(b'\r\n--' + key)
                data = data[:j] + b'x' + data[j + 1:]
            is_file = rng.random() < 0.7
            parts.append((gen_hvalue(rng), gen_hvalue(rng) if is_file else None, rng.choice(MIMES) if is_file else b'', data))
        body = encode_body(rng, key, parts, PLAIN)
        big = max(len(p[3]) for p in parts)
        fl = []
        r = rng.random()
        if r < 0.75:
            fl.append('q%d' % max(0, rng.choice([mem - 1, mem, mem + 1, mem + 1023, mem + 1024, mem + 1025, big - 1, big, big + 1, rng.randrange(0, big + 2), 0])))
        if rng.random() < 0.12:
            fl.append('o')
        if rng.random() < 0.2:
            fl.append('s')
        if rng.random() < 0.25:
            fl.append('c')
        cuts = rng.choice(['-', 'b1', 'b7', 'b1000', random_cuts(rng, len(body), 3)]) if len(body) < 4000 else rng.choice(['-', 'b1000'])
        cases.append('fi %d %s %s %s %s' % (mem, hexs(enc_ct(rng, key, PLAIN)), cuts, hexs(body), '.'.join(fl) or '-'))
    return cases



# ------------------------------------------------------------------------------------------------
# request-level cases through the real service (harness/C12_service.cpp)
# ------------------------------------------------------------------------------------------------
BUFS = [1, 2, 3, 7, 16, 64, 1000, 4096, 65536]


def rq_expect(mode, cl, mp, parts, body, declared=None):
    """independent statement of the property for a well-formed body whose length is the declared one"""
    n = len(body)
    if n == 0:
        return '200/0'
    if n > mp:
        return '413'
    if mode == 'r':
        return '200/0'
    if any((not p[2]) and len(p[3]) > cl for p in parts):
        return '413'
    return '200/' + expect_token(parts)


def urlenc(rng, b):
    out = bytearray()
    for c in b:
        if c == 0x20 and rng.random() < 0.7:
            out += b'+'
        elif chr(c).isalnum() and rng.random() < 0.9:
            out.append(c)
        else:
            out += (b'%%%02X' if rng.random() < 0.5 else b'%%%02x') % c
    return bytes(out)


def gen_rq_cases(ctx):
    rng = ctx.rng
    cases = []

    def line(mode, cl, mp, mem, buf, declared, ct, cuts, body, exp):
        cases.append('rq %s %d %d %d %d %d %s %s %s %s' % (mode, cl, mp, mem, buf, declared, hexs(ct), cuts, hexs(body), exp))

    def cuts_for(body, key):
        n = len(body)
        r = rng.random()
        if r < 0.25:
            return '-'
        if r < 0.45:
            return 'b%d' % rng.choice([1, 2, 3, 5, 7, 16, 64, 1024])
        if r < 0.75:
            return interesting_cuts(rng, body, key, rng.randrange(1, 8))
        return random_cuts(rng, n, rng.randrange(1, 8))

    # A. well-formed multipart bodies, limits swept around the sizes that matter
    for i in range(ctx.scale(400, 4000)):
        style = PLAIN if i % 3 == 0 else FANCY
        key = gen_key(rng)
        big = rng.random() < 0.12
        nparts = rng.choice([0, 1, 1, 2, 2, 3, 4, 6, 10])
        parts = gen_parts(rng, key, nparts if not big else min(nparts, 3), rng.choice([0, 3, 10, 30, 60, 200]) if not big else rng.choice([1500, 5000, 70000]))
        body = encode_body(rng, key, parts, style)
        ct = enc_ct(rng, key, style).replace(b'\0', b'x')
        n = len(body)
        fields = [len(p[3]) for p in parts if not p[2]]
        files = [len(p[3]) for p in parts if p[2]]
        for _ in range(2):
            mode = rng.choice('nnmmr')
            cl = rng.choice([10 ** 6] + [max(0, f + d) for f in fields for d in (-1, 0, 1)] + [0, 1])
            mp = rng.choice([10 ** 6, 10 ** 6, n - 1, n, n + 1])
            mem = rng.choice([0, 1, 64, 10 ** 6] + [max(0, f + d) for f in files + fields for d in (-1, 0, 1)])
            buf = rng.choice(BUFS)
            if n > 3000 and buf < 16:
                buf = rng.choice([64, 1000, 4096, 65536])
            sp = cuts_for(body, key)
            if n > 3000 and sp.startswith('b') and int(sp[1:]) < 64:
                sp = 'b4096'
            line(mode, cl, mp, mem, buf, n, ct, sp, body, rq_expect(mode, cl, mp, parts, body))

    # B. declared length and bytes that arrive disagree / truncated / trailing bytes: never delivered
    for i in range(ctx.scale(220, 3000)):
        key = gen_key(rng)
        parts = gen_parts(rng, key, rng.choice([0, 1, 2, 3]), rng.choice([0, 3, 10, 30]))
        body = encode_body(rng, key, parts, PLAIN if i % 2 else FANCY)
        ct = enc_ct(rng, key, PLAIN)
        n = len(body)
        mode = rng.choice('nnmmr')
        r = rng.randrange(5)
        if r == 4:      # the body stops early and the client gives up: no answer, nothing delivered
            k = rng.randrange(0, n)
            declared, sent = n, body[:k]
        elif r == 0:    # fewer bytes declared than the well-formed body has: the closing delimiter is cut off
            declared, sent = rng.randrange(1, n), body
        elif r == 1:    # more declared than sent, then the client gives up
            declared, sent = n + rng.choice([1, 2, 5, 100]), body
        elif r == 2:    # trailing bytes inside the declared length
            extra = rng.choice([b'x', b'\r\n', b'\n', b'--', b'\r\n--' + key + b'--\r\n', rbytes(rng, 3)])
            declared, sent = n + len(extra), body + extra
        else:           # truncated body declared as it is
            k = rng.randrange(1, n)
            declared, sent = k, body[:k]
        exp = '!' if mode != 'r' else '-'
        line(mode, 10 ** 6, 10 ** 6, rng.choice([0, 5, 10 ** 6]), rng.choice(BUFS), declared, ct, cuts_for(sent, key), sent, exp)

    # C. malformed multipart (mutated), odd content types: correspondence + protocol invariants only
    for i in range(ctx.scale(220, 3000)):
        key = gen_key(rng)
        parts = gen_parts(rng, key, rng.choice([1, 2, 3]), rng.choice([0, 3, 10, 30]))
        body = encode_body(rng, key, parts, FANCY)
        ct = enc_ct(rng, key, FANCY)
        for _ in range(rng.randrange(1, 3)):
            body = mutate(rng, body)
        if rng.random() < 0.15:
            ct = mutate(rng, ct)
        ct = ct.replace(b'\0', b'x')
        fields = [len(p[3]) for p in parts if not p[2]]
        cl = rng.choice([10 ** 6, 10 ** 6] + [max(0, f + d) for f in fields for d in (-1, 0, 1)])
        if body:
            line(rng.choice('nmr'), cl, 10 ** 6, rng.choice([0, 5, 10 ** 6]), rng.choice(BUFS), len(body), ct, cuts_for(body, key), body, '-')

    # D. urlencoded forms and other content types (read_full path), content_length_limit around the size
    for i in range(ctx.scale(150, 2000)):
        npairs = rng.choice([0, 1, 1, 2, 3, 5])
        pairs = []
        for _ in range(npairs):
            k = bytes(rng.choice(b'abcXYZ019 &=%+\xe9\x00;') for _ in range(rng.randrange(1, 6)))
            v = bytes(rng.choice(b'abcXYZ019 &=%+\xe9\x00;\r\n') for _ in range(rng.randrange(0, 9)))
            pairs.append((k, v))
        body = b'&'.join(urlenc(rng, k) + b'=' + urlenc(rng, v) for k, v in pairs)
        if pairs and rng.random() < 0.2:
            body += b'&'
        wf = True
        if rng.random() < 0.25:
            body = mutate(rng, body)
            wf = False
        n = len(body)
        ctk = rng.choice([b'application/x-www-form-urlencoded', b'Application/X-WWW-Form-UrlEncoded; charset=utf-8', b'text/plain', b'application/json',
                          b'multipart/mixed; boundary=x', b'application/x-www-form-urlencoded2', b''])
        mode = rng.choice('nnnmr')
        cl = rng.choice([10 ** 6, n - 1, n, n + 1])
        if not wf or n == 0:
            exp = '-'
        elif n > cl:
            exp = '413'
        elif mode == 'r' or not ctk.lower().startswith(b'application/x-www-form-urlencoded') or ctk.endswith(b'2'):
            exp = '200u/0'
        else:
            sp = sorted(hexs(k) + '=' + hexs(v) for k, v in pairs)
            exp = '200u/%d%s' % (len(sp), ''.join('/' + x for x in sp))
        line(mode, cl, rng.choice([0, 10 ** 6]), 0, rng.choice(BUFS), n, ctk, random_cuts(rng, n, rng.randrange(0, 4)) if n > 1 else '-', body, exp)

    # F. GET query strings (request::prepare -> parse_form_urlencoded, all or nothing): any per-byte encoding choice
    def enc_any(b):
        out = bytearray()
        for c in b:
            r = rng.random()
            if c == 0x20 and r < 0.5:
                out += b'+'
            elif c not in b'%+&=' and c != 0 and r < 0.6:
                out.append(c)
            else:
                out += (b'%%%02X' if rng.random() < 0.5 else b'%%%02x') % c
        return bytes(out)
    for i in range(ctx.scale(200, 2500)):
        pairs = []
        for _ in range(rng.choice([0, 1, 1, 2, 3, 6])):
            k = bytes(rng.choice(b'abXY01 &=%+;/?\xe9\x01\xff') for _ in range(rng.randrange(1, 5)))
            v = bytes(rng.choice(b'abXY01 &=%+;/?\xe9\x01\xff\r\n') for _ in range(rng.randrange(0, 7)))
            pairs.append((k, v))
        q = b'&'.join(enc_any(k) + b'=' + enc_any(v) for k, v in pairs)
        if pairs and rng.random() < 0.2:
            q += b'&'
        sp = sorted(hexs(k) + '=' + hexs(v) for k, v in pairs)
        exp = '%d%s' % (len(sp), ''.join('/' + x for x in sp))
        if rng.random() < 0.3:
            q = mutate(rng, q).replace(b'\0', b'0')
            exp = '-'
        cases.append('gq %s %s' % (hexs(q), exp))
    for q in [b'', b'&', b'a', b'=', b'a=', b'=a', b'a=1&', b'a=1&&b=2', b'a=1&b', b'a==1', b'a=%', b'a=%4', b'a=%zz', b'a=%41%', b'%=1', b'a=1&=2', b'a=1;b=2', b'&a=1']:
        cases.append('gq %s -' % hexs(q))

    # E. life of the temporary files (rf): uploaded files and fields with sizes at limit-1 / limit / limit+1, the application
    #    closes / saves / makes permanent / keeps references in any order; also refused and abandoned requests
    for i in range(ctx.scale(260, 2500)):
        key = gen_key(rng)
        mem = rng.choice([0, 1, 2, 5, 63, 64, 65, 1023, 1024, 1025, 1100, 2048, 3000])
        parts = []
        for _ in range(rng.choice([1, 1, 2, 2, 3, 4, 5])):
            ln = max(0, mem + rng.choice([-1, 0, 1, 1, -mem, 7, 1024, 1025, 2047]))
            data = gen_content(rng, key, ln)
            data = (data + b'z' * ln)[:ln]
            while b'\r\n--' + key in data:
                j = data.index(b'\r\n--' + key)
                data = data[:j] + b'x' + data[j + 1:]
            is_file = rng.random() < 0.75
            parts.append((gen_hvalue(rng), gen_hvalue(rng) if is_file else None, rng.choice(MIMES) if is_file else b'', data))
        body = encode_body(rng, key, parts, PLAIN)
        ct = enc_ct(rng, key, PLAIN).replace(b'\0', b'x')
        n = len(body)
        nfiles = sum(1 for p in parts if p[2])
        acts = '.'.join(rng.choice('cspk') + str(rng.randrange(0, nfiles + 1)) for _ in range(rng.choice([0, 1, 1, 2, 3, 5]))) or '-'
        if nfiles and rng.random() < 0.25:
            # make one file permanent without the application ever reading it (nothing but close() may flush its last bytes);
            # the other actions go to the other files
            k = rng.randrange(0, nfiles)
            others = [a for a in acts.split('.') if a != '-' and int(a[1:]) != k and a[0] != 'p']   # a single permanent file: it is found by elimination
            acts = '.'.join(others[:1] + ['P%d' % k] + others[1:])
        mode = rng.choice('nnm')
        r = rng.random()
        if r < 0.75:
            declared, sent, exp = n, body, rq_expect(mode, 10 ** 7, 10 ** 7, parts, body)
        elif r < 0.85:      # cut off inside the body and abandoned by the client
            declared, sent, exp = n, body[:rng.randrange(0, n)], '!'
        elif r < 0.95:      # malformed inside: refused with 400 while files are held
            k = rng.randrange(max(1, n - 6), n)
            declared, sent, exp = n, body[:k] + b'X' + body[k + 1:], '-'
        else:               # a form field over content_length_limit after the files: 413 while files are held
            parts2 = parts + [(b'big', None, b'', b'y' * 50)]
            sent = encode_body(rng, key, parts2, PLAIN)
            declared, exp = len(sent), '-'
        cl = 10 ** 7 if r < 0.95 else 49
        cases.append('rf %s %d %d %d %d %d %s %s %s %s %s' % (mode, cl, 10 ** 7, mem, rng.choice([64, 1000, 4096, 65536]), declared, hexs(ct),
                                                              cuts_for(sent, key) if len(sent) < 3000 else 'b4096', hexs(sent), acts, exp))

    # G. a multipart filter that throws abort_upload(403) from its k-th on_new_file: 403, nothing delivered, no temporary file left,
    #    whatever the chunking; k beyond the number of parts: behaves like a plain multipart filter
    for i in range(ctx.scale(120, 1500)):
        key = gen_key(rng)
        parts = gen_parts(rng, key, rng.choice([1, 2, 3, 5]), rng.choice([0, 3, 30, 200]))
        body = encode_body(rng, key, parts, PLAIN if i % 2 else FANCY)
        ct = enc_ct(rng, key, PLAIN).replace(b'\0', b'x')
        k = rng.randrange(1, len(parts) + 2)
        n = len(body)
        r = rng.random()
        if r < 0.8:
            declared, sent = n, body
            exp = '403' if k <= len(parts) else rq_expect('m', 10 ** 7, 10 ** 7, parts, body)
        elif r < 0.9:
            declared, sent, exp = n, body[:rng.randrange(0, n)], '-'
        else:
            declared, sent, exp = n, mutate(rng, body)[:n].ljust(n, b'x'), '-'
        line('a%d' % k, 10 ** 7, 10 ** 7, rng.choice([0, 5, 10 ** 6]), rng.choice(BUFS), declared, ct, cuts_for(sent, key), sent, exp)

    # H. multipart filters that READ the parts (all / half at buffer level, seek to the end / the middle, all with istream::read which
    #    leaves eofbit|failbit) in on_new_file / on_upload_progress / on_data_ready and do not rewind: every combination, fields and files
    #    below and above file_in_memory_limit, all kinds of chunkings.  What the application gets must not depend on it.
    rcombos = [a + b + c2 for a in 'napems' for b in ('n' if a == 's' else 'naem') for c2 in 'napems']
    rng.shuffle(rcombos)
    for i in range(ctx.scale(80, 3 * len(rcombos))):
        key = gen_key(rng)
        parts = gen_parts(rng, key, rng.choice([1, 2, 3, 4]), rng.choice([0, 1, 3, 30, 200, 1100]))
        body = encode_body(rng, key, parts, PLAIN if i % 2 else FANCY)
        ct = enc_ct(rng, key, PLAIN).replace(b'\0', b'x')
        mode = 'R' + rcombos[i % len(rcombos)]
        mem = rng.choice([0, 1, 64, 10 ** 6] + [max(0, len(p[3]) + d) for p in parts for d in (-1, 0)])
        line(mode, 10 ** 7, 10 ** 7, mem, rng.choice(BUFS), len(body), ct, cuts_for(body, key) if len(body) < 800 else rng.choice(['-', 'b64', 'b1024']), body,
             rq_expect('m', 10 ** 7, 10 ** 7, parts, body))

    # E2. EXHAUSTIVE: every sequence of application actions up to length 2 (thorough: 3) over the two files of one request -
    #     one file of exactly file_in_memory_limit bytes (stays in memory), one of limit+1 bytes (temporary file), and a field over the limit
    import itertools
    key = b'XbndX'
    for mem in ctx.scale([5], [0, 5, 1024]):
        parts = [(b'm', b'm.bin', b'a/b', b'M' * mem), (b'fld', None, b'', b'v' * (mem + 2)), (b'd', b'd.bin', b'a/b', b'D' * (mem + 1))]
        body = encode_body(rng, key, parts, PLAIN)
        ct = b'multipart/form-data; boundary=' + key
        alphabet = [a + str(k) for a in 'cspk' for k in (0, 1)]
        for seq in (['P1'], ['P0'], ['k0', 'P1'], ['P1', 'k1'], ['c0', 'P1'], ['P1', 's0']):
            cases.append('rf n %d %d %d 4096 %d %s - %s %s %s' % (10 ** 7, 10 ** 7, mem, len(body), hexs(ct), hexs(body), '.'.join(seq),
                                                                 rq_expect('n', 10 ** 7, 10 ** 7, parts, body)))
        for ln in range(0, ctx.scale(3, 4 if mem == 5 else 3)):
            for seq in itertools.product(alphabet, repeat=ln):
                cases.append('rf n %d %d %d 4096 %d %s - %s %s %s' % (10 ** 7, 10 ** 7, mem, len(body), hexs(ct), hexs(body), '.'.join(seq) or '-',
                                                                     rq_expect('n', 10 ** 7, 10 ** 7, parts, body)))
    return cases

# ------------------------------------------------------------------------------------------------
# oracle: the property on the implementation's answer alone
# ------------------------------------------------------------------------------------------------
_agree = {}


def parse_out(o):
    """-> dict(status, files=[(name,fn,mime,data)], cur, trace, tmp_alive, tmp_after/leaks, diff)"""
    r = {'files': []}
    t = o.split()
    op = t[0]
    i = 1
    if op == 'all2':
        r['ncuts'] = int(t[i]); i += 1
    r['status'] = t[i]; i += 1
    n = int(t[i]); i += 1
    for _ in range(n):
        r['files'].append(tuple(t[i:i + 4])); i += 4
    for x in t[i:]:
        if x.startswith('cur='):
            r['cur'] = x[4:]
        elif x.startswith('tmp='):
            r['tmp'] = x[4:]
        elif x.startswith('leaks='):
            r['leaks'] = int(x[6:])
        elif x.startswith('fd='):
            r['fd'] = x[3:]
    if ' T ' in o:
        r['trace'] = o.split(' T ')[1].split()[0]
    if ' D ' in o:
        r['diff'] = o.split(' D ')[1].split()[0]
    r['flags'] = [x for x in t if x in ('SIZE-MISMATCH',)]
    return r



def parse_rq(o):
    t = o.split()
    r = {'status': t[1]}
    i = 2
    assert t[i] == 'P'
    n = int(t[i + 1]); r['post'] = t[i + 2:i + 2 + n]; i += 2 + n
    assert t[i] == 'F'
    n = int(t[i + 1]); r['files'] = [tuple(x.split(',')) for x in t[i + 2:i + 2 + n]]; i += 2 + n
    assert t[i] == 'L'
    i += 1
    r['new'] = int(t[i][4:]); i += 1
    rd = t[i][6:]; i += 1
    if ':' in rd:
        k, _, lst = rd.partition(':')
        r['ready'] = [tuple(x.split(',')) for x in lst.split(';')]
        assert len(r['ready']) == int(k)
    else:
        r['ready'] = []
        assert int(rd) == 0
    r['end'] = int(t[i][4:]); i += 1
    r['err'] = int(t[i][4:]); i += 1
    r['raw'] = t[i][4:]; i += 1
    a, b = t[i][4:].split(','); r['tmp_main'], r['tmp_after'] = int(a), int(b); i += 1
    a, b = t[i][3:].split(','); r['fd_main'], r['fd_after'] = int(a), int(b); i += 1
    if i < len(t) and t[i].startswith('hand='):
        r['hand'] = t[i][5:]; i += 1
    if i < len(t) and t[i] == 'R':
        s2, s3 = t[i + 1].split(';')
        r['s2'] = tuple(int(x) for x in s2.split(','))      # (descriptors, directory entries) when the application returns
        r['s3'] = tuple(int(x) for x in s3.split(','))      # ... when the request has been destroyed
        i += 2
    r['flags'] = t[i:]
    return r


def oracle_rq(case, out):
    c = case.split()
    mode, cl, mp, mem, buf, declared = c[1], int(c[2]), int(c[3]), int(c[4]), int(c[5]), int(c[6])
    body = unhex(c[9])
    rf = c[0] == 'rf'
    acts = [] if not rf or c[10] == '-' else [(a[0], int(a[1:])) for a in c[10].split('.') if len(a) >= 2]
    if rf:
        c = c[:10] + c[11:]
    expect = c[10] if len(c) > 10 else '-'
    if out.startswith('<crash'):
        return ('crash-rq', 'service harness died on this request: ' + out)
    try:
        r = parse_rq(out)
    except Exception as e:
        return ('bad-output', 'cannot parse service harness answer (%s): %s' % (e, out[:200]))
    st = r['status']
    if r['flags']:
        return ('request-protocol-' + r['flags'][0].lower(), 'the request/filter protocol was broken: ' + ' '.join(r['flags']))
    if st not in ('200', '400', '413', 'none') and not (st == '403' and mode[0] == 'a'):
        return ('unexpected-status-' + st, 'status %s for an upload request' % st)
    if r['fd_after'] != 0:
        return ('descriptor-left-open', '%d descriptors on upload files still open after the request and all references to its files were gone' % r['fd_after'])
    # the life of the temporary files, stated independently: a file exists from the moment its size exceeds the limit until it is
    # closed / saved by the application or its last owner goes away; only make_permanent keeps it
    sizes = [(0 if f[3] == '-' else len(f[3]) // 2) for f in r['files']] if st == '200' else []
    fs = [dict(disk=s > mem, open=s > mem, spilled=s > mem, temp=True, kept=False) for s in sizes]
    for a, k in acts:
        if st != '200' or k >= len(fs):
            continue
        f = fs[k]
        if a == 'c':
            f['open'] = False
            if f['temp']:
                f['disk'] = False
        elif a == 's':
            if f['spilled']:
                f['open'] = False; f['disk'] = False
        elif a in 'pP':
            f['temp'] = False
        elif a == 'k':
            f['kept'] = True
    want2 = (sum(f['open'] for f in fs), sum(f['disk'] for f in fs))
    for f in fs:
        if not f['kept']:
            f['open'] = False
            if f['temp']:
                f['disk'] = False
    want3 = (sum(f['open'] for f in fs), sum(f['disk'] for f in fs))
    want4 = sum(1 for f in fs if f['disk'] and not f['temp'])
    if r['tmp_after'] != want4:
        return ('temp-file-left-behind', '%d temporary upload files still exist after the request was destroyed (%d made permanent by the application)' % (r['tmp_after'], want4))
    if rf and st == '200' and (r['s2'] != want2 or r['s3'] != want3):
        return ('temp-file-life', '(descriptors, files) after the application %s want %s; after the request %s want %s (actions %s, sizes %s, limit %d)'
                % (r['s2'], want2, r['s3'], want3, acts, sizes, mem))
    if rf and st != '200' and (r['s2'] != (0, 0) or r['s3'] != (0, 0)):
        return ('temp-file-left-behind', 'refused request: descriptors/files left %s %s' % (r['s2'], r['s3']))
    filt = declared > 0 and mode[0] in 'mraR'
    if st == '200':
        want_tmp = sum(1 for f in r['files'] if (0 if f[3] == '-' else len(f[3]) // 2) > mem)
        if r['tmp_main'] != want_tmp:
            return ('spill-rule', '%d temporary files while %d uploaded files exceed file_in_memory_limit %d' % (r['tmp_main'], want_tmp, mem))
        if r['fd_main'] != want_tmp:
            return ('spill-rule', '%d descriptors open on temporary files while %d uploaded files exceed file_in_memory_limit %d' % (r['fd_main'], want_tmp, mem))
        if (r['end'], r['err']) != ((1, 0) if filt else (0, 0)):
            return ('filter-end-protocol', 'accepted request: on_end_of_content=%d on_error=%d' % (r['end'], r['err']))
        if len(body) < declared:
            return ('delivered-before-declared-length', 'application ran after %d of %d declared bytes' % (len(body), declared))
    elif st == '403':
        # the filter itself aborted the upload: neither on_end_of_content nor on_error is due, and it was its k-th on_new_file
        if (r['end'], r['err']) != (0, 0) or r['new'] != int(mode[1:]):
            return ('filter-end-protocol', 'aborted upload: on_end_of_content=%d on_error=%d on_new_file=%d' % (r['end'], r['err'], r['new']))
    else:
        if (r['end'], r['err']) != ((0, 1) if filt else (0, 0)):
            return ('filter-end-protocol', 'refused request: on_end_of_content=%d on_error=%d' % (r['end'], r['err']))
    if mode == 'r' and declared > 0:
        want = body[:declared] if st in ('200', 'none') else b''
        if st != '413' and unhex(r['raw']) != want:
            return ('raw-filter-bytes', 'raw filter saw %d bytes that are not the %d body bytes read' % (len(unhex(r['raw'])), len(want)))
        if st == '413' and r['raw'] != '-':
            return ('raw-filter-bytes', 'raw filter saw data of a request refused for its declared length')
    elif r['raw'] != '-':
        return ('raw-filter-bytes', 'raw data reported without a raw filter')
    is_mp = unhex(c[7]).lstrip(b' \t').lower().startswith(b'multipart/form-data')
    if mode[0] in 'maR' and not is_mp:
        if r['new'] or r['ready']:
            return ('filter-called-without-multipart', 'multipart filter events for a body that is not multipart/form-data')
    elif mode[0] == 'R':
        pass        # reading filter: what it saw and what is delivered is judged below, against the expectation
    elif mode[0] in 'ma':
        if st == '200':
            seen = r['ready']
            if r['new'] != len(seen):
                return ('filter-new-vs-ready', 'on_new_file called %d times, on_data_ready %d times' % (r['new'], len(seen)))
            got_files = [f for f in seen if f[2] != '-']
            got_post = sorted(f[0] + '=' + f[3] for f in seen if f[2] == '-')
            if got_files != r['files'] or got_post != sorted(r['post']):
                return ('filter-sees-other-content', 'entries seen by the multipart filter differ from those delivered to the application')
        elif not (len(r['ready']) <= r['new'] <= len(r['ready']) + 1):
            return ('filter-new-vs-ready', 'on_new_file called %d times, on_data_ready %d times' % (r['new'], len(r['ready'])))
    elif r['new'] or r['ready']:
        return ('filter-called-without-filter', 'multipart filter events without a multipart filter')
    if mode[0] == 'R' and st == '200' and expect not in ('-', '!') and expect.split('/')[0] == '200':
        e = expect.split('/')
        want = [tuple(e[2 + 4 * i:6 + 4 * i]) for i in range(int(e[1]))]
        wfields = sorted(w[0] + '=' + w[3] for w in want if w[2] == '-')
        if sorted(r['post']) != wfields:
            # a filter that leaves failbit behind (stream-level read to the end of the part): repaired by /repo ebeb88c; every
            # filter behaviour must not change what is delivered
            failbit = mode[1] == 's' or mode[3] == 's'
            return ('field-cut-after-filter-read-to-eof' if failbit else 'field-cut-after-filter-read',
                    'form fields delivered with a reading multipart_filter (%s) differ from those encoded: %s vs %s' % (mode, sorted(r['post'])[:4], wfields[:4]))
        if mode[3] in 'as' and mode[1] != 's':
            seen = [tuple(x) for x in r['ready']]
            if seen != want:
                return ('filter-sees-other-content', 'on_data_ready of a reading filter (%s) did not see the parts from their beginning' % mode)
    if expect == '-':
        return None
    if expect == '!':
        if st == '200':
            return ('malformed-delivered', 'a body that is truncated / longer or shorter than declared / followed by trailing bytes was accepted')
        if st == '413':
            return ('wrong-refusal-code', '413 for a malformed body within all limits')
        return None
    e = expect.split('/')
    if e[0] in ('400', '413', '403'):
        if st != e[0]:
            return ('limit-not-enforced' if st == '200' else 'wrong-refusal-code', 'status %s, expected %s (cl=%d mp=%d declared=%d)' % (st, e[0], cl, mp, declared))
        return None
    if st != '200':
        return ('well-formed-refused', 'a well-formed body within the limits got status %s (cl=%d mp=%d declared=%d)' % (st, cl, mp, declared))
    n = int(e[1])
    if e[0] == '200u':
        if r['files'] or sorted(r['post']) != sorted(e[2:2 + n]):
            return ('wrong-urlencoded-fields', 'form fields delivered differ from those encoded: %s vs %s' % (r['post'][:5], e[2:7]))
        return None
    want = [tuple(e[2 + 4 * i:6 + 4 * i]) for i in range(n)]
    wfiles = [w for w in want if w[2] != '-']
    wpost = sorted(w[0] + '=' + w[3] for w in want if w[2] == '-')
    # request::post() is a multimap: entries sorted by name, equal names in order
    if len(r['files']) != len(wfiles) or len(r['post']) != len(wpost):
        return ('wrong-number-of-entries', '%d files + %d fields delivered, %d + %d encoded' % (len(r['files']), len(r['post']), len(wfiles), len(wpost)))
    for i, (g, w) in enumerate(zip(r['files'], wfiles)):
        for j, what in enumerate(('name', 'filename', 'mime', 'content')):
            if g[j] != w[j]:
                return ('wrong-' + what, 'file %d: %s delivered differs from the one encoded (got %s, want %s)' % (i, what, g[j][:80], w[j][:80]))
    if sorted(r['post']) != wpost:
        return ('wrong-content', 'form fields delivered differ from those encoded')
    return None


def oracle_fi(c, out):
    """I/O faults: whatever failed, when the parser and its files are gone no temporary file exists and no descriptor is open;
    an entry reported complete is readable in full (a write fault must surface as no_room_left, not as a silently cut file)"""
    if out.startswith('<crash'):
        return ('crash-fi', 'harness died under an injected I/O fault: ' + out)
    if out == 'fi refused':
        return None
    t = out.split()
    try:
        status, n = t[1], int(t[2])
        ents = [x.split(':') for x in t[3:3 + n]]
        kv = dict(x.split('=') for x in t[3 + n:])
        tmp_alive, tmp_after = [int(x) for x in kv['tmp'].split(',')]
        fd_alive, fd_after = [int(x) for x in kv['fd'].split(',')]
    except Exception as e:
        return ('bad-output', 'cannot parse harness answer (%s): %s' % (e, out[:200]))
    mem = max(int(c[1]), 0)
    faults = c[5].split('.')
    quota = [int(f[1:]) for f in faults if f.startswith('q')]
    if status not in ('eof', 'error', 'incomplete', 'earlyeof', 'noroom'):
        return ('driver-protocol-' + status, 'consume() broke its calling protocol under an I/O fault: ' + status)
    if fd_after != 0:
        return ('descriptor-left-open', 'descriptors on upload files still open after the parser and its files were destroyed (faults %s)' % c[5])
    if tmp_after != 0:
        if status == 'noroom' and quota and quota[0] < mem and 'o' not in faults:
            # the write that moves the buffered bytes into the new file failed (repaired by /repo 6c3ce6d: file::close tests file_created())
            return ('temp-file-left-after-failed-spill', 'the spill itself failed (quota %d < in-memory limit %d) and the temporary file stays behind' % (quota[0], mem))
        return ('temp-file-left-behind', 'temporary upload files still exist after the parser and its files were destroyed (faults %s, status %s)' % (c[5], status))
    for name, size, readable in ents:
        if size != readable:
            return ('write-fault-unreported-entry-cut', 'entry %s reported complete with size %s but only %s bytes can be read back (faults %s)' % (name, size, readable, c[5]))
    return None


def oracle(case, out):
    c = case.split()
    op = c[0]
    if op in ('rq', 'rf'):
        return oracle_rq(case, out)
    if op == 'gq':
        if out.startswith('<crash'):
            return ('crash-gq', 'service harness died on this query string: ' + out)
        t = out.split()
        if len(t) < 4 or t[0] != 'gq' or t[2] != 'G':
            return ('bad-output', 'unexpected harness answer ' + out[:200])
        if t[1] != '200':
            return ('unexpected-status-' + t[1], 'status %s for a GET request' % t[1])
        if c[-1] != '-' and len(c) > 2:
            e = c[-1].split('/')
            if t[4:] != e[1:] or int(t[3]) != int(e[0]):
                return ('wrong-query-fields', 'get() differs from the pairs encoded in the query string: %s vs %s' % (t[3:9], e[:6]))
        return None
    if op == 'fi':
        return oracle_fi(c, out)
    if out.startswith('<crash'):
        return ('crash-' + op, 'harness died on this input: ' + out)
    if not out.startswith(op + ' '):
        return ('bad-output', 'unexpected harness answer ' + out[:200])
    expect = c[-1]
    mem = int(c[1])
    lim = max(mem, 0)
    if out == op + ' refused':
        if expect not in ('-', '!'):
            return ('well-formed-refused', 'set_content_type refused a well-formed Content-Type')
        return None
    try:
        r = parse_out(out)
    except Exception as e:
        return ('bad-output', 'cannot parse harness answer (%s): %s' % (e, out[:200]))
    if r['flags']:
        return ('file-size-vs-data', 'http::file::size() differs from the number of bytes readable from it')
    if r['status'] not in ('eof', 'error', 'incomplete', 'earlyeof'):
        return ('driver-protocol-' + r['status'], 'consume() broke its calling protocol: ' + r['status'])
    # temporary files: exactly the entries larger than the in-memory limit are on disk, and none stays behind
    sizes = [0 if f[3] == '-' else len(f[3]) // 2 for f in r['files']]
    cur_sz = int(r['cur'].split(':')[3]) if r.get('cur', 'none') != 'none' else 0
    want_tmp = sum(1 for s in sizes + [cur_sz] if s > lim)
    if op == 'mp':
        alive, after = r['tmp'].split(',')
        if int(after) != 0:
            return ('temp-file-left-behind', 'temporary upload files still exist after the parser and its files were destroyed')
        if int(alive) != want_tmp:
            return ('spill-rule', '%s temporary files while %d entries exceed the in-memory limit %d' % (alive, want_tmp, lim))
        fa, fb = r['fd'].split(',')
        if int(fb) != 0:
            return ('descriptor-left-open', 'descriptors on upload files still open after the parser and its files were destroyed')
        if int(fa) != want_tmp:
            return ('spill-rule', '%s descriptors on temporary files while %d entries exceed the in-memory limit %d' % (fa, want_tmp, lim))
    else:
        if int(r['fd']) != want_tmp:
            return ('spill-rule', '%s descriptors on temporary files while %d entries exceed the in-memory limit %d' % (r['fd'], want_tmp, lim))
        if r.get('leaks', 0) != 0:
            return ('temp-file-left-behind', 'temporary upload files still exist after the parser and its files were destroyed')
        if int(r['tmp']) != want_tmp:
            return ('spill-rule', '%s temporary files while %d entries exceed the in-memory limit %d' % (r['tmp'], want_tmp, lim))
        if r.get('diff', '-') != '-':
            return ('chunking-dependent-2cut', 'cutting the body at offset(s) %s changes the result' % r['diff'][:80])
    # all chunkings of one body agree (status class and delivered entries)
    cls = 'ok' if r['status'] == 'eof' else 'waiting' if r['status'] == 'incomplete' else 'refused'
    body = c[4] if op == 'mp' else c[3]
    k = (c[2], body)
    mine = (cls, tuple(r['files'])) if cls == 'ok' else (cls,)
    if k in _agree and _agree[k] != mine:
        return ('chunking-dependent', 'the same body gave a different result under another chunking: %s vs %s' % (str(_agree[k])[:150], str(mine)[:150]))
    _agree.setdefault(k, mine)
    # trace sanity: sizes reported while a file grows never exceed its final size and never shrink
    if 'trace' in r and r['trace'] != '-':
        last = 0
        for e in r['trace'].split(','):
            if e[0] == 'M':
                last = 0
            elif e[0] in 'PR':
                v = int(e[1:])
                if v < last:
                    return ('file-size-shrinks', 'reported file size went from %d to %d' % (last, v))
                last = v
    if expect == '-':
        return None
    if expect == '!':
        if cls == 'ok':
            return ('malformed-delivered', 'a truncated body / a body with trailing bytes was accepted (status eof, %d entries)' % len(r['files']))
        return None
    e = expect.split('/')
    if e[0] == 'B':
        e = e[1:]
        n = int(e[0])
        want = [tuple(e[1 + 4 * i:5 + 4 * i]) for i in range(n)]
        if cls == 'ok' and [tuple(f) for f in r['files']] != want:
            return ('bare-cr-in-part-header-misframed', 'a body with a bare CR in a part header was accepted with the framing broken: '
                    '%d entries delivered, %d encoded; contents %s instead of %s' % (len(r['files']), n, [f[3][:20] for f in r['files']], [w[3][:20] for w in want]))
        return None
    n = int(e[0])
    want = [tuple(e[1 + 4 * i:5 + 4 * i]) for i in range(n)]
    if cls != 'ok':
        return ('well-formed-refused', 'a well-formed body was not accepted: status ' + r['status'])
    if len(r['files']) != n:
        return ('wrong-number-of-entries', '%d entries delivered, %d encoded' % (len(r['files']), n))
    for i, (g, w) in enumerate(zip(r['files'], want)):
        for j, what in enumerate(('name', 'filename', 'mime', 'content')):
            if g[j] != w[j]:
                return ('wrong-' + what, 'entry %d: %s delivered differs from the one encoded (got %s, want %s)' % (i, what, g[j][:80], w[j][:80]))
    return None


def nontrivial(case, out):
    c = case.split()
    if c[0] in ('rq', 'rf'):
        return c[9] != '-'
    if c[0] == 'gq':
        return c[1] != '-'
    if c[0] == 'fi':
        return ' refused' not in out
    body = c[4] if c[0] == 'mp' else c[3]
    return body != '-' and ' refused' not in out


def classify(case, out):
    c = case.split()
    if c[0] == 'fi':
        return 'fi:%s:%s' % (''.join(sorted(f[0] for f in c[5].split('.') if f)), out.split()[1] if len(out.split()) > 1 else '?')
    if c[0] == 'gq':
        return 'gq:%s:%s' % ('wellformed' if c[-1] != '-' and len(c) > 2 else 'malformed', 'empty' if out.split()[3:4] == ['0'] else 'pairs')
    if c[0] == 'rf':
        return 'rf:acts-%d:mode-%s:%s' % (0 if c[10] == '-' else len(c[10].split('.')), c[1], out.split()[1] if len(out.split()) > 1 else '?')
    if c[0] == 'rq':
        e = c[10] if len(c) > 10 else '-'
        kind = 'malformed' if e == '-' else 'must-refuse' if e == '!' else 'urlencoded' if e.startswith('200u') else 'wellformed'
        return 'rq:%s:mode-%s:%s' % (kind, c[1], out.split()[1] if len(out.split()) > 1 else '?')
    body = c[4] if c[0] == 'mp' else c[3]
    n = 0 if body == '-' else len(body) // 2
    b = '<=300' if n <= 300 else '<=6000' if n <= 6000 else '<=70000' if n <= 70000 else '>70000'
    kind = 'bare-cr-header' if c[-1].startswith('B/') else 'wellformed' if c[-1] not in ('-', '!') else 'must-refuse' if c[-1] == '!' else 'malformed'
    st = out.split()[2] if c[0] == 'all2' and len(out.split()) > 2 else out.split()[1] if len(out.split()) > 1 else '?'
    cuts = 'all2' if c[0] == 'all2' else ('1chunk' if c[3] == '-' else 'b1' if c[3] == 'b1' else 'blocks' if c[3][0] == 'b' else 'cuts')
    return '%s:%s:%s:%s' % (kind, b, cuts, st)


RULE = ('generated: (1) well-formed multipart bodies from an independent Python encoder (0..10 parts, contents from random bytes and '
        'adversarial CR/LF/dash/boundary-prefix runs never containing the delimiter, quoted/unquoted/escaped header parameters, header '
        'case/whitespace/order variation, keys of 1..70 chars incl. dashes and repeated patterns) fed to multipart_parser under EVERY 2-cut '
        '(bodies <= 300 bytes), 1-byte chunks, block sizes up to 64 KiB, random cuts and cuts aimed at every CR / delimiter / header terminator; '
        '(2) truncations and trailing bytes (must be refused); (3) mutated bodies, odd Content-Type and part headers (correspondence only); '
        '(4) the same families as whole requests through a running cppcms::service over SCGI (modes: no filter / multipart_filter / '
        'raw_content_filter; content_length_limit, multipart_form_data_limit, file_in_memory_limit swept around the sizes in the body; declared '
        'length = / < / > bytes sent; read buffer 1..64 KiB; urlencoded and other content types); (5) every shape of a well-formed Content-Type '
        '(OWS at five places, token / quoted values, parameters around the boundary parameter); (6) rf: files and fields of limit-1 / limit / '
        'limit+1 bytes, the application closes / saves / makes permanent / keeps references in random order, refused and abandoned requests, '
        'plus EVERY action sequence up to length 2 (thorough 3) over two files; descriptors and directory entries counted at four points; '
        '(7) a multipart filter that throws abort_upload at its k-th on_new_file; (8) gq: GET query strings under any per-byte encoding, '
        'mutated ones, fixed malformed ones; (10) fi: I/O faults on the temporary files (byte quota around the in-memory limit / inside the upload / at its last flush, '
        'failing fopen, fflush, fclose, combinations); (11) multipart filters that read the parts (all / half / seek end / seek middle / istream::read) in '
        'on_new_file, on_upload_progress, on_data_ready and do not rewind, 80 of the 126 combinations per quick run; (9) bodies with bare CRs in part headers, five shapes (must be refused or framed exactly; regression of /repo 3fc4520). A case is non-trivial when it has a '
        'non-empty body and the Content-Type was accepted; distinct = distinct case lines (md5).')


def run(ctx):
    # the two C++ harnesses are compiled while Coq runs (they do not depend on each other)
    import concurrent.futures
    pool = concurrent.futures.ThreadPoolExecutor(max_workers=2)
    f_exe = pool.submit(vlib.build_harness, 'C12_multipart', ['C12_multipart.cpp'])
    f_sexe = pool.submit(vlib.build_harness, 'C12_service', ['C12_service.cpp'], extra=['-ldl'])
    errs = vlib.gen_coq(GEN)
    for n, e in errs:
        ctx.broke('translator cxx2v failed on %s (tie to source broken)' % n, e)
    for pr in LIM_TU_PROBLEMS:
        ctx.broke('tie of the limit decisions to the source broken', pr)
    res = vlib.coq_props('C12')
    ctx.proof(res)
    ctx.coverage['trusted_base'] = [
        'Coq 8.16.1 kernel, vm_compute (256-point sweeps, witnesses, non-vacuity examples)',
        'tools/cxx2v.py + clang 14 JSON AST (separator, ascii_to_lower, xdigit regenerated from private/http_protocol.h; limit decisions '
        'lifted by regular expressions in checks/C12.py limits_tu from http_file_buffer.h, http_request.cpp, cached_settings.h, http_content_filter.cpp)',
        'extraction: ExtrOcamlBasic, OCaml 4.13.1; ocaml/C12_driver.ml (glue: cut lists, text formats, filter end/error counts, spill count)',
        'harness/C12_multipart.cpp (driver loop of tests/multipart_parser_test.cpp / on_content_progress around the real multipart_parser)',
        'harness/C12_service.cpp (in-process cppcms::service, SCGI client, filter applications; accept() interposed to see the server fd)',
        'checks/C12.py (independent Python encoders for multipart and urlencoded bodies, generators, oracle)',
        'hand model of multipart_parser::consume/process_header/parse_pair, content_type::parse, skip_ws/tocken/unquote, '
        'request::on_content_start/on_content_progress/size_ok/parse_form_urlencoded, util::urldecode (coq/C12/Defs.v), tied by correspondence']
    ctx.assumptions = ['remove() and rename() on the upload directory succeed; a failing fwrite writes nothing; save_to target on the same file system',
                       'boundary key: RFC 2046 bchars (proved CR-free); a key containing CR is outside the quantifier (matcher_needs_cr_free_key_refuted '
                       'delimits the domain)',
                       'boundary key contains no CR (RFC 2046 bchars) for matcher_correct / decode_encode / part_content_reconstructed',
                       'decode_encode: part names and file names contain no CR, MIME type empty or already in normal form (wf_part)',
                       'char is signed 8-bit on this target (x86-64)',
                       'CONTENT_TYPE reaches http::request as a C string (no NUL inside)',
                       'the request-level harness uses the SCGI front end only; a closed connection before the declared length is '
                       'modelled as no answer (status none)']
    exe, err = f_exe.result()
    if not exe:
        ctx.broke('harness build failed', err)
        return
    sexe, err = f_sexe.result()
    if not sexe:
        ctx.broke('service harness build failed', err)
        return
    mexe, err = vlib.build_model('C12', 'C12_driver.ml', 'c12m')
    if not mexe:
        ctx.broke('model extraction/build failed', err)
    if ctx.replay_cases is not None:
        cases = ctx.replay_cases
    else:
        cases = vlib.corpus_cases('C12') + gen_cases(ctx) + gen_rq_cases(ctx)
    pcases = [c for c in cases if not c.startswith(('rq ', 'rf ', 'gq '))]
    rcases = [c for c in cases if c.startswith(('rq ', 'rf ', 'gq '))]
    tmp = os.path.join(ctx.workdir, 'uploads-%d' % os.getpid())
    shutil.rmtree(tmp, ignore_errors=True)
    os.makedirs(tmp)
    ctx.coverage['rule'] = RULE
    ctx.coverage['exhaustive'] = False
    _agree.clear()
    try:
        if pcases:
            vlib.differential(ctx, pcases, exe, mexe, oracle, nontrivial, classify, impl_env={'C12_TMPDIR': tmp},
                              what='correspondence model vs multipart_parser')
        if rcases:
            vlib.differential(ctx, rcases, sexe, mexe, oracle, nontrivial, classify, impl_env={'C12_TMPDIR': tmp},
                              what='correspondence model vs http::request inside a running service', jobs=8)
        ctx.coverage['two_cut_executions'] = sum(max(0, (len(c.split()[3]) // 2) - 1) for c in pcases if c.startswith('all2 ') and c.split()[3] != '-')
        left = [f for _, _, fs in os.walk(tmp) for f in fs]
        if left:
            ctx.fail('temp-file-left-behind', 'files left in the scratch upload directory after all harness processes ended: %s' % left[:5],
                     cases[0] if cases else '')
    finally:
        shutil.rmtree(tmp, ignore_errors=True)
