"""C14 -- text validators accept exactly the well-formed strings of their encoding."""
import os, re, sys, itertools, time, glob, codecs
import vlib
from vlib import hexs, unhex

META = dict(
    property_id='C14',
    design_ref='DESIGN.md section 4, C14',
    technique='Coq proof (case analysis per lead-byte class against the RFC 3629 ABNF as an inductive predicate, induction over strings, '
              '256-point sweeps over source-generated leaf functions) + extracted-model correspondence + reference-decoder oracle; '
              'native 2^32 four-byte sweep in the thorough tier',
    level_text=('Theorems in coq/C14/Props.v, for all byte strings: cppcms::utf8::next (both modes) and booster utf_traits<char>::decode return '
                'a code point exactly on one UTF8-char of the RFC 3629 section 4 ABNF (inductive predicate Seq) followed by an arbitrary rest, '
                'with its scalar value, in HTML mode exactly when the value is no C0 control other than tab/LF/CR, not DEL, no C1 control; what is accepted '
                'is the shortest-form encoding of a scalar value (<= U+10FFFF, no surrogate); a truncated sequence is never accepted; '
                'utf8::validate = true iff the string is *(UTF8-char) (HTML variant: all code points html_safe); the reported count = incoming '
                'count + number of code points of the unique decomposition; the two decoders agree on every input (incomplete collapsed to illegal, '
                'same iterator position); encode/decode are inverse on valid data. Single-byte: for all 17 validator bodies GENERATED from '
                'private/encoding_validators.h (36 table names): 0x20..0x7E, tab, LF, CR accepted, other C0 and DEL rejected, C1 rejected for '
                'every ISO-8859 name; valid(a++b) = valid a && valid b; encoding::valid by name = forallb of the generated predicate with count = '
                'length. validate_or_filter (UTF-8 and single-byte): returns true iff the input is valid, else the output is valid (for no replacement '
                'or an acceptable replacement character), idempotent, only deletes when there is no replacement. booster utf_to_utf<char,char>: skip yields '
                'well-formed text (a subsequence, identity on well-formed input), stop throws iff malformed. Form text widgets (form.cpp base_text): '
                'valid iff the value is valid for the locale encoding and the number of code points is within the limits. Encoding names: equivalent '
                'iff equal after normalisation; comparator is a strict weak order. Leafs utf::valid, is_trail, trail_length, width (both copies), the 17 loop bodies '
                'and the name-normalisation step are regenerated from source on every run and proved equal to the model leafs. '
                'Deepening round: the two filter functions of src/encoding.cpp are translated segment by segment (loop conditions, bodies, glue) and '
                'the functions assembled from the generated segments are proved equal to the model for every input / replacement byte / previous '
                'output / initial locals; on them: returns true and leaves the output alone iff valid, else the output is the unique token-wise image '
                '(safe character copied, unsafe character replaced whole, otherwise exactly one byte replaced and decoding resumes at the next byte), '
                'valid for an acceptable replacement, idempotent. The validators table (37 entries) is generated from validators_set() and equals the '
                'model table; keys pairwise inequivalent. UTF-16 (utf_traits<CharType,2>): encode/decode inverse on every scalar value, decode exact, '
                'UTF-8 -> UTF-16 -> UTF-8 through utf_to_utf preserves code points of well-formed text (skip and stop); generated leafs '
                'is_first/second_surrogate, combine_surrogate, trail_length, width, both encoders (UTF-8, UTF-16) and max_width linked. Form text widget: '
                'stored count = number of scalar values; exact behaviour at limits n-1, n, n+1. The whole bodies of utf8::next<char const*> and '
                'utf_traits<char>::decode<char const*> and the loop of utf8::validate(p,e,count,html) are translated from the source as well and proved '
                'equal to the model on every byte string (value and bytes consumed / answer and count); on the generated functions: next returns c iff the '
                'input starts with a UTF8-char denoting c (HTML mode: an HTML-safe one), both generated decoders agree everywhere, validate returns true '
                'iff well-formed (and HTML-safe) with count = incoming + number of code points. The text widget as an OBJECT across requests '
                '(state value_, code_points_, is_set_, is_valid_, limits, charset flag; transitions load (all paths) / clear / value(v) / limits / '
                'validate): every load establishes, and every history without the setter preserves, that the stored count is the count of the stored '
                'value; validate() = the one-shot widget answer for the current value and limits; the member functions load / validate / setter / clear '
                'and the constructor initialiser list (names and literal values) are tied rigidly to src/form.cpp. The invariant holds over ALL histories from '
                'the constructed widget, setters included: the setter holds v, valid, with count = code points when charset validation is on and v is '
                'HTML-safe UTF-8, bytes otherwise (a value set by the program that is not valid UTF-8 is not rejected, it is measured in bytes); a never-loaded '
                'widget validates as an empty value.'),
    level_note=('Trusted: Coq kernel + vm_compute; cxx2v translator (extended in checks/C14.py for the validator loop shape) and clang AST; '
                'ExtrOcamlBasic extraction; the decoder switch/loops, validators_set table, validate_or_filter loops are modelled by hand and '
                'tied by correspondence (all 1- and 2-byte sequences, boundary grid of 3/4-byte sequences, all 256 bytes and all byte pairs per '
                'name, composed random strings, form submissions through a real http::context), every tier: every 1..3-byte sequence natively under ASan '
                'against a table-driven reference, thorough tier: every 4-byte sequence as well. Oracles use '
                'Python 3 strict UTF-8 and the stdlib code-page tables as references. Not covered: iconv/ICU fall-back for names without a '
                'built-in validator (oracle-only: windows-1254 all bytes, EUC-JP/Shift_JIS/GB2312/GBK/CP936/Big5/EUC-KR/CP866 on a safe repertoire '
                'against Python codecs), the UTF-16 decode/encode bodies and the utf_to_utf loop (hand model, correspondence), '
                'the std::locale -> encoding-name step of valid(locale,...) '
                '(exercised for 14 locale names, not modelled), the file-name validation of the upload widget.'),
)

# ------------------------------------------------------------------------------------------------
# T: leaf functions regenerated from the current headers (extends tools/cxx2v.py in this file only)
# ------------------------------------------------------------------------------------------------
SB_VALIDATORS = [  # C++ template name in private/encoding_validators.h -> generated Coq name
    ('ascii_valid', 'g_sb_ascii'),
    ('iso_8859_1_2_4_5_9_10_13_14_15_16_valid', 'g_sb_iso_generic'),
    ('iso_8859_3_valid', 'g_sb_iso_3'), ('iso_8859_6_valid', 'g_sb_iso_6'), ('iso_8859_7_valid', 'g_sb_iso_7'),
    ('iso_8859_8_valid', 'g_sb_iso_8'), ('iso_8859_11_valid', 'g_sb_iso_11'),
    ('windows_1250_valid', 'g_sb_1250'), ('windows_1251_valid', 'g_sb_1251'), ('windows_1252_valid', 'g_sb_1252'),
    ('windows_1253_valid', 'g_sb_1253'), ('windows_1254_valid', 'g_sb_1254'), ('windows_1255_valid', 'g_sb_1255'),
    ('windows_1256_valid', 'g_sb_1256'), ('windows_1257_valid', 'g_sb_1257'), ('windows_1258_valid', 'g_sb_1258'),
    ('koi8_valid', 'g_sb_koi8'),
]


# top-level shape of the two filter functions that coq/C14/LinkF.v assembles (segment, loop, segment, ...)
EXPECT_SEGS = {'g_vof_u8': ['g_vof_u8_seg0', 'g_vof_u8_cond1', 'g_vof_u8_body1', 'g_vof_u8_seg1', 'g_vof_u8_cond2', 'g_vof_u8_body2', 'g_vof_u8_seg2'],
               'g_vof_sb': ['g_vof_sb_seg0', 'g_vof_sb_cond1', 'g_vof_sb_body1', 'g_vof_sb_inc1', 'g_vof_sb_seg1'],
               'g_val': ['g_val_seg0', 'g_val_cond1', 'g_val_body1', 'g_val_seg1'],
               'g_val3': ['g_val3_seg0', 'g_val3_cond1', 'g_val3_body1', 'g_val3_seg1']}
FILTER_SEGS = {}


def _strip(n):
    while n['kind'] in ('ImplicitCastExpr', 'ParenExpr', 'ExprWithCleanups', 'MaterializeTemporaryExpr'):
        n = n['inner'][0]
    return n


def _walk(n, f, parents=()):
    if not isinstance(n, dict):
        return
    f(n, parents)
    for c in n.get('inner', []) or []:
        _walk(c, f, parents + (n,))


def _has_body(n):
    return any(c.get('kind') == 'CompoundStmt' for c in n.get('inner', []) or [])


def make_translators():
    import cxx2v
    U = cxx2v.Unsupported

    class Tr14(cxx2v.Tr):
        """cxx2v.Tr + __builtin_expect(x, k) = x"""
        def expr(self, n):
            if n['kind'] == 'CallExpr':
                callee = _strip(n['inner'][0])
                if callee['kind'] == 'DeclRefExpr' and callee['referencedDecl'].get('name') == '__builtin_expect':
                    return self.expr(n['inner'][1])
            return super().expr(n)

    class PredTr(Tr14):
        """body of a per-byte validation loop
               while(p!=e) { count++; unsigned c=(unsigned char)*p++; ... continue; ... return false; ... }
           -> byte -> bool  (true: the loop goes on to the next byte, false: the function returns false)"""
        byte = None

        def expr(self, n):
            if n['kind'] == 'UnaryOperator' and n.get('opcode') == '*':
                s = _strip(n['inner'][0])
                if s['kind'] == 'UnaryOperator' and s.get('opcode') == '++' and s.get('isPostfix') \
                        and _strip(s['inner'][0])['kind'] == 'DeclRefExpr' and tuple(cxx2v.tyinfo(n['type'])) == ('s', 8):
                    if self.byte is None:
                        raise U('second read of the input in one loop iteration')
                    b, self.byte = self.byte, None
                    return b
            return super().expr(n)

        def stmts(self, ss, brk=None, void=False):
            if not ss and brk is None:
                return 'true'
            if ss:
                k = ss[0]['kind']
                if k == 'ContinueStmt':
                    return 'true'
                if k == 'ReturnStmt':
                    e = self.expr(ss[0]['inner'][0])
                    if e != 'false':
                        raise U('return of something other than false inside a validator loop')
                    return 'false'
            return super().stmts(ss, brk, void)

    def translate_validator(fd, coqname):
        """checks the shape  { while(p!=e){ count++; <body> } return true; }  and translates <body>"""
        body = [c for c in fd['inner'] if c['kind'] == 'CompoundStmt'][0]
        top = body.get('inner', [])
        if len(top) != 2 or top[0]['kind'] != 'WhileStmt' or top[1]['kind'] != 'ReturnStmt' \
                or _strip(top[1]['inner'][0]).get('value') is not True:
            raise U('%s: not of the form while(...){...} return true;' % coqname)
        cond, lbody = top[0]['inner'][0], top[0]['inner'][-1]
        if cond['kind'] != 'BinaryOperator' or cond['opcode'] != '!=' or \
                [_strip(x).get('referencedDecl', {}).get('name') for x in cond['inner']] != ['p', 'e']:
            raise U('%s: loop condition is not p!=e' % coqname)
        tr = PredTr('', {}, {})
        tr.consts = {}
        ss = tr.flatten(lbody)
        first = ss[0] if ss else {}
        if first.get('kind') != 'UnaryOperator' or first.get('opcode') != '++' or \
                _strip(first['inner'][0]).get('referencedDecl', {}).get('name') != 'count':
            raise U('%s: loop body does not start with count++' % coqname)
        tr.byte = '(wraps 8 byte)'
        code = tr.stmts(ss[1:])
        if tr.byte is not None:
            raise U('%s: loop body never reads *p++' % coqname)
        return 'Definition %s (byte : Z) : bool :=\n  %s.\n' % (coqname, code)

    class StepTr(Tr14):
        """body of encodings_comparator::next's loop: while(*p!=0){ char c=*p++; ... return <char>; ... }
           -> byte -> Z  (the returned character, or -1 when the loop moves on to the next byte)"""
        def stmts(self, ss, brk=None, void=False):
            if not ss and brk is None:
                return '(-1)'
            return super().stmts(ss, brk, void)

    def translate_step(fd, coqname):
        loops = []
        cxx2v.find_loops(fd, loops)
        if len(loops) != 1:
            raise U('%s: expected exactly one loop' % coqname)
        cond = loops[0]['inner'][0]
        # while(*p != 0)
        ok = cond['kind'] == 'BinaryOperator' and cond['opcode'] == '!=' and \
            _strip(cond['inner'][1]).get('kind') == 'IntegerLiteral' and _strip(cond['inner'][1]).get('value') == '0' and \
            _strip(cond['inner'][0]).get('kind') == 'UnaryOperator' and _strip(cond['inner'][0]).get('opcode') == '*'
        if not ok:
            raise U('%s: loop condition is not *p!=0' % coqname)
        tr = StepTr('', {}, {})
        tr.consts = {}
        ss = tr.flatten(loops[0]['inner'][-1])
        vd = ss[0]['inner'][0] if ss and ss[0]['kind'] == 'DeclStmt' else {}
        init = _strip(vd.get('inner', [{}])[0]) if vd.get('inner') else {}
        if vd.get('kind') != 'VarDecl' or tuple(cxx2v.tyinfo(vd['type'])) != ('s', 8) or init.get('opcode') != '*':
            raise U('%s: loop body does not start with char c=*p++' % coqname)
        nm = tr.fresh(vd['name'])
        tr.ids[vd['id']] = nm
        code = tr.stmts(ss[1:])
        # statement after the loop must be `return 0`
        body = [c for c in fd['inner'] if c['kind'] == 'CompoundStmt'][0]['inner']
        if body[-1]['kind'] != 'ReturnStmt' or _strip(body[-1]['inner'][0]).get('value') != '0':
            raise U('%s: function does not end with return 0' % coqname)
        return 'Definition %s (byte : Z) : Z :=\n  let %s := wraps 8 byte in %s.\n' % (coqname, nm, code)

    def translate_plain(fd, coqname, known):
        tr_cls = cxx2v.Tr
        cxx2v.Tr = Tr14
        try:
            return cxx2v.translate_function(fd, coqname, known, {}, {})
        finally:
            cxx2v.Tr = tr_cls

    def is_ptr(t):
        return t.get('qualType', '').replace(' ', '') in ('constchar*', 'charconst*')

    class LoopTr(Tr14):
        """the two filter functions of src/encoding.cpp (pointer loops that call a decoder / a tester and append to a std::string)
           -> one Gallina definition per top-level segment (straight-line code between loops, loop condition, loop body, for-increment):
                seg (nx : bool -> Z -> Z * Z) (tst : Z -> Z -> bool) (params : Z ...) (st : <tuple of the top-level locals>)
                    : g_ctl * <tuple> * list g_emit
           char const * values are Z (positions); utf8::next(ptr,end,html,false) == / != utf::illegal becomes
           `let r := nx html ptr in let ptr := snd r in Z.eqb (fst r) g_illegal`; tester(a,b,n) becomes `tst a b` (n is dead afterwards);
           output.clear() / append(a,b) / += *p / += c become emissions GClear / GRange a b / GAt p / GByte c; output.reserve is ignored;
           continue / end of body = GNext, break = GBreak, return b = GReturn b."""
        def __init__(self, state, out_id, end_id, tester_id):
            super().__init__('', {}, {})
            self.consts = {'illegal': 'g_illegal'}
            self.state = state              # [(decl id, coq type)] in declaration order
            self.out_id, self.end_id, self.tester_id = out_id, end_id, tester_id
            self.em = []
            self.dead = set()

        def wrap(self, t, e):
            if is_ptr(t):
                return e
            return super().wrap(t, e)

        def is_bool(self, n):
            return False if is_ptr(n['type']) else super().is_bool(n)

        def tuple_now(self):
            return '(' + ', '.join(self.ids[i] for i, _ in self.state) + ')'

        def result(self, ctl):
            return '(%s, %s, [%s])' % (ctl, self.tuple_now(), '; '.join(self.em))

        def ref_id(self, n):
            n = _strip(n)
            return n['referencedDecl']['id'] if n['kind'] == 'DeclRefExpr' else None

        def expr(self, n):
            if n['kind'] == 'DeclRefExpr' and n['referencedDecl']['id'] in self.dead:
                raise U('use of %s after it was passed by reference' % n['referencedDecl'].get('name'))
            if n['kind'] == 'CallExpr' and self.ref_id(n['inner'][0]) == self.tester_id and self.tester_id is not None:
                a, b, c = n['inner'][1:]
                cid = self.ref_id(c)
                if cid not in self.ids:
                    raise U('tester: third argument is not a local')
                self.dead.add(cid)
                return '(tst %s %s)' % (self.expr(a), self.expr(b))
            return super().expr(n)

        def decoder_cond(self, n):
            """utf8::next(ptr,end,<bool>,false) ==/!= utf::illegal  ->  (let-prefix, condition) and ptr is rebound"""
            n = _strip(n)
            if n['kind'] != 'BinaryOperator' or n.get('opcode') not in ('==', '!='):
                return None
            call, other = _strip(n['inner'][0]), n['inner'][1]
            if call['kind'] != 'CallExpr' or _strip(call['inner'][0]).get('referencedDecl', {}).get('name') != 'next':
                return None
            args = call['inner'][1:]
            pid = self.ref_id(args[0])
            if len(args) != 4 or pid not in self.ids or self.ref_id(args[1]) != self.end_id:
                raise U('decoder call is not next(<local>,end,html,decode)')
            html, dec = _strip(args[2]), _strip(args[3])
            if dec['kind'] == 'CXXDefaultArgExpr':
                pass                                     # the declaration says bool /*decode*/=false; the parameter is unused
            elif dec['kind'] != 'CXXBoolLiteralExpr' or dec['value'] is not False:
                raise U('decoder call with a decode flag other than false')
            if html['kind'] == 'CXXBoolLiteralExpr':
                hexp = 'true' if html['value'] else 'false'
            elif html['kind'] == 'DeclRefExpr' and html['referencedDecl']['id'] in self.ids and cxx2v.tyinfo(html['type'])[0] == 'b':
                hexp = self.ids[html['referencedDecl']['id']]
            else:
                raise U('decoder call with an html flag that is neither a literal nor a bool parameter')
            r = self.fresh('r')
            pre = '(let %s := nx %s %s in ' % (r, hexp, self.ids[pid])
            np = self.fresh('ptr')
            pre += 'let %s := snd %s in ' % (np, r)
            self.ids[pid] = np
            cond = '(Z.eqb (fst %s) %s)' % (r, self.expr(other))
            if n['opcode'] == '!=':
                cond = '(negb %s)' % cond
            return pre, cond

        def emission(self, s):
            s0 = _strip(s)
            if s0['kind'] == 'CXXMemberCallExpr':
                me = s0['inner'][0]
                if me['kind'] == 'MemberExpr' and self.ref_id(me['inner'][0]) == self.out_id:
                    nm = me.get('name')
                    args = s0['inner'][1:]
                    if nm == 'clear' and not args:
                        return 'GClear'
                    if nm == 'reserve':
                        return ''
                    if nm == 'append' and len(args) == 2 and all(is_ptr(a['type']) for a in args):
                        return 'GRange %s %s' % (self.expr(args[0]), self.expr(args[1]))
                    raise U('output.%s' % nm)
            if s0['kind'] == 'CXXOperatorCallExpr':
                callee = _strip(s0['inner'][0])
                if callee.get('referencedDecl', {}).get('name') == 'operator+=' and self.ref_id(s0['inner'][1]) == self.out_id:
                    v = _strip(s0['inner'][2])
                    if v['kind'] == 'UnaryOperator' and v.get('opcode') == '*' and self.ref_id(v['inner'][0]) in self.ids:
                        return 'GAt %s' % self.expr(v['inner'][0])
                    return 'GByte (wrapu 8 %s)' % self.expr(s0['inner'][2])
            return None

        def stmts(self, ss, brk=None, void=False):
            if not ss:
                return self.result('GNext')
            s, rest = ss[0], ss[1:]
            k = s['kind']
            if k == 'ContinueStmt':
                return self.result('GNext')
            if k == 'BreakStmt':
                return self.result('GBreak')
            if k == 'ReturnStmt':
                b = _strip(s['inner'][0])
                if b['kind'] != 'CXXBoolLiteralExpr':
                    raise U('return of a non-literal')
                return self.result('GReturn %s' % ('true' if b['value'] else 'false'))
            if k == 'IfStmt':
                inner = s['inner']
                saved_ids, saved_em = dict(self.ids), list(self.em)
                dc = self.decoder_cond(inner[0])
                pre, c = dc if dc else ('', self.expr(inner[0]))
                a = self.flatten(inner[1])
                b = self.flatten(inner[2]) if len(inner) > 2 else []
                mid_ids = dict(self.ids)
                ta = self.stmts(a + rest)
                self.ids, self.em = dict(mid_ids), list(saved_em)
                tb = self.stmts(b + rest)
                self.ids, self.em = saved_ids, saved_em
                return '%s(if %s then %s else %s)%s' % (pre, c, ta, tb, ')' if pre else '')
            em = self.emission(s)
            if em is not None:
                if em:
                    self.em.append(em)
                return self.stmts(rest)
            if k == 'DeclStmt' and len(s['inner']) == 1 and s['inner'][0]['kind'] == 'VarDecl':
                d = s['inner'][0]
                if d['id'] in self.ids or is_ptr(d['type']):      # top-level local (state) or a pointer local
                    nm = self.fresh(d['name'])
                    init = self.expr(d['inner'][0]) if d.get('inner') else '(0)'
                    self.ids[d['id']] = nm
                    return '(let %s := %s in %s)' % (nm, init, self.stmts(rest))
            if k == 'UnaryOperator' and s.get('opcode') == '++' and self.ref_id(s['inner'][0]) in self.ids and not is_ptr(s['type']):
                did = self.ref_id(s['inner'][0])
                kk, w = cxx2v.tyinfo(s['type'])
                if kk != 'u':
                    raise U('++ on a signed integer')
                nm = self.fresh('n')
                old = self.ids[did]
                self.ids[did] = nm
                return '(let %s := (wrapu %d (Z.add %s 1)) in %s)' % (nm, w, old, self.stmts(rest))
            if k == 'UnaryOperator' and s.get('opcode') == '++' and self.ref_id(s['inner'][0]) in self.ids and is_ptr(s['type']):
                did = self.ref_id(s['inner'][0])
                nm = self.fresh('p')
                old = self.ids[did]
                self.ids[did] = nm
                return '(let %s := (Z.add %s 1) in %s)' % (nm, old, self.stmts(rest))
            return super().stmts(ss, None, False)

    def translate_ptr_function(fd, prefix, state_params=()):
        """-> text of the segment definitions + list of segment names in source order.  Top-level shape: statements and loops; every
        loop is  while(cond) body  or  for(decl; cond; inc) body  whose init declaration is treated as a top-level local."""
        body = [c for c in fd['inner'] if c['kind'] == 'CompoundStmt'][0].get('inner', [])
        params = [c for c in fd['inner'] if c['kind'] == 'ParmVarDecl']
        out_id = end_id = tester_id = None
        zparams = []
        state = []
        for p in params:
            q = p['type']['qualType']
            if p.get('name') in state_params:          # a parameter the function modifies (iterator by value, counter by reference)
                state.append((p['id'], 'Z', p['name']))
            elif 'string' in q:
                out_id = p['id']
            elif '(*)' in q or 'encoding_tester_type' in q:
                tester_id = p['id']
            elif is_ptr(p['type']) or tuple(cxx2v.tyinfo(p['type'])) in (('s', 8), ('b', 1)):
                zparams.append(p)
                if p['name'] in ('end', 'e'):
                    end_id = p['id']
            else:
                raise U('%s: parameter %s' % (prefix, p['name']))
        # top-level locals = the rest of the state
        def add_state(d):
            if is_ptr(d['type']):
                state.append((d['id'], 'Z', d['name']))
            else:
                kind = cxx2v.tyinfo(d['type'])[0]
                state.append((d['id'], 'bool' if kind == 'b' else 'Z', d['name']))
        for s in body:
            if s['kind'] == 'DeclStmt':
                for d in s['inner']:
                    add_state(d)
            if s['kind'] == 'ForStmt' and s['inner'][0] and s['inner'][0].get('kind') == 'DeclStmt':
                for d in s['inner'][0]['inner']:
                    add_state(d)
        sty = ' * '.join(t for _, t, _ in state)
        segs, order = [], []

        def emit_seg(name, ss, cond=None):
            tr = LoopTr([(i, t) for i, t, _ in state], out_id, end_id, tester_id)
            ps = []
            for p in zparams:
                nm = tr.fresh(p['name'])
                tr.ids[p['id']] = nm
                ps.append('(%s : %s)' % (nm, 'Z' if is_ptr(p['type']) or cxx2v.tyinfo(p['type'])[0] != 'b' else 'bool'))
            names = []
            for i, t, n in state:
                nm = tr.fresh(n)
                tr.ids[i] = nm
                names.append(nm)
            pat = names[0] if len(names) == 1 else "'(" + ', '.join(names) + ')'
            head = 'Definition %s (nx : bool -> Z -> Z * Z) (tst : Z -> Z -> bool) %s (st : %s)' % (name, ' '.join(ps), sty)
            if cond is not None:
                code = tr.expr(cond)
                segs.append('%s : bool :=\n  let %s := st in %s.\n' % (head, pat, code))
            else:
                code = tr.stmts(ss)
                segs.append('%s : g_ctl * (%s) * list g_emit :=\n  let %s := st in %s.\n' % (head, sty, pat, code))
            order.append(name)

        pending, nseg, nloop = [], 0, 0
        tr0 = LoopTr([], None, None, None)
        for s in body:
            if s['kind'] in ('WhileStmt', 'ForStmt'):
                nloop += 1
                if s['kind'] == 'ForStmt':
                    init, _, cond, inc, lbody = s['inner']
                    if init:
                        pending.append(init)
                else:
                    cond, lbody = s['inner'][0], s['inner'][-1]
                    inc = None
                emit_seg('%s_seg%d' % (prefix, nseg), pending)
                nseg += 1
                pending = []
                emit_seg('%s_cond%d' % (prefix, nloop), None, cond=cond)
                emit_seg('%s_body%d' % (prefix, nloop), tr0.flatten(lbody))
                if inc is not None:
                    emit_seg('%s_inc%d' % (prefix, nloop), [inc])
            else:
                pending.append(s)
        emit_seg('%s_seg%d' % (prefix, nseg), pending)
        return '\n'.join(segs), order

    class EmitTr(Tr14):
        """an encoder  Iterator encode(code_point v, Iterator out) { ... *out++ = x; ... return out; }  ->  v -> list of code units"""
        unit = 8

        def emission(self, s):
            s0 = _strip(s)
            if s0['kind'] == 'BinaryOperator' and s0.get('opcode') == '=':
                l = _strip(s0['inner'][0])
                if l['kind'] == 'UnaryOperator' and l.get('opcode') == '*':
                    l2 = _strip(l['inner'][0])
                    if l2['kind'] == 'UnaryOperator' and l2.get('opcode') == '++' and l2.get('isPostfix') \
                            and _strip(l2['inner'][0]).get('referencedDecl', {}).get('id') == self.out_id:
                        return '[wrapu %d %s]' % (self.unit, self.expr(s0['inner'][1]))
            return None

        def stmts(self, ss, brk=None, void=False):
            if ss and ss[0]['kind'] == 'ReturnStmt':
                r = _strip(ss[0]['inner'][0])
                if r.get('referencedDecl', {}).get('id') != self.out_id:
                    raise U('encoder returns something other than the output iterator')
                return '[]'
            return super().stmts(ss, brk, void)

    def translate_encoder(fd, coqname, unit):
        tr = EmitTr('', {}, {})
        tr.consts = {}
        tr.unit = unit
        ps = [c for c in fd['inner'] if c['kind'] == 'ParmVarDecl']
        if len(ps) != 2:
            raise U('%s: expected (value, out)' % coqname)
        nm = tr.fresh(ps[0]['name'])
        tr.ids[ps[0]['id']] = nm
        tr.out_id = ps[1]['id']
        body = [c for c in fd['inner'] if c['kind'] == 'CompoundStmt'][0]
        return 'Definition %s (%s : Z) : list Z :=\n  %s.\n' % (coqname, nm, tr.stmts(tr.flatten(body), None, 'emit'))

    class DecTr(Tr14):
        """utf8::next(Iterator &p, Iterator e, bool html, bool) for a pointer iterator: loop-free, reads *p++ at statically known offsets
           -> g (rd : Z -> Z) (n : Z) (html : bool) : Z * Z   = (returned value, number of bytes consumed);  rd k = the k-th byte as a char"""
        POS = '__pos'

        def expr(self, n):
            n0 = _strip(n) if n['kind'] in ('ParenExpr',) else n
            if n0['kind'] == 'UnaryOperator' and n0.get('opcode') == '*':
                s1 = _strip(n0['inner'][0])
                if s1['kind'] == 'UnaryOperator' and s1.get('opcode') == '++' and s1.get('isPostfix') \
                        and _strip(s1['inner'][0]).get('referencedDecl', {}).get('id') == self.p_id:
                    k = self.ids[self.POS]
                    self.ids[self.POS] = k + 1
                    return '(wraps 8 (rd (%d)))' % k
            if n0['kind'] == 'BinaryOperator' and n0.get('opcode') == '==':
                a, b = [_strip(x).get('referencedDecl', {}).get('id') for x in n0['inner']]
                if a == self.p_id and b == self.e_id:
                    return '(Z.eqb (%d) n)' % self.ids[self.POS]
            return super().expr(n)

        def is_bool(self, n):
            return False if is_ptr(n['type']) else super().is_bool(n)

        def stmts(self, ss, brk=None, void=False):
            if ss:
                s = ss[0]
                if s['kind'] == 'DeclStmt' and all(d['kind'] in ('UsingDecl', 'UsingShadowDecl') for d in s['inner']):
                    return self.stmts(ss[1:], brk, void)
                if s['kind'] == 'ReturnStmt':
                    return '(%s, (%d))' % (self.expr(s['inner'][0]), self.ids[self.POS])
            return super().stmts(ss, brk, void)

    def translate_decoder(fd, coqname, known, consts=None):
        tr = DecTr('', known, {})
        tr.consts = consts or {'illegal': 'g_illegal'}
        ps = [c for c in fd['inner'] if c['kind'] == 'ParmVarDecl']
        if len(ps) not in (2, 4) or not all(is_ptr({'qualType': x['type']['qualType'].replace('&', '').strip()}) for x in ps[:2]):
            raise U('%s: expected (Iterator &p, Iterator e[, bool html, bool])' % coqname)
        tr.p_id, tr.e_id = ps[0]['id'], ps[1]['id']
        if len(ps) == 4:
            tr.ids[ps[2]['id']] = 'html'
        tr.ids[tr.POS] = 0
        body = [c for c in fd['inner'] if c['kind'] == 'CompoundStmt'][0]
        return 'Definition %s (rd : Z -> Z) (n : Z)%s : Z * Z :=\n  %s.\n' % (coqname, ' (html : bool)' if len(ps) == 4 else '', tr.stmts(tr.flatten(body)))

    class SeqTr(Tr14):
        """cppcms::utf8::encode(value): seq out=seq(); ... out.c[k]=x; ... out.len=n; return out;  ->  value -> list of bytes
           (the k-th assignment on a path must be to c[k], and len must be set to the number of bytes assigned)"""
        N, LEN = '__n', '__len'

        def member(self, n):
            n = _strip(n)
            if n['kind'] == 'MemberExpr' and _strip(n['inner'][0]).get('referencedDecl', {}).get('id') == self.out_id:
                return n.get('name')
            return None

        def emission(self, s):
            s0 = _strip(s)
            if s0['kind'] == 'BinaryOperator' and s0.get('opcode') == '=':
                l = _strip(s0['inner'][0])
                if l['kind'] == 'ArraySubscriptExpr' and self.member(l['inner'][0]) == 'c':
                    k = _strip(l['inner'][1])
                    if k['kind'] != 'IntegerLiteral' or int(k['value']) != self.ids[self.N]:
                        raise U('encode: bytes are not assigned in order')
                    self.ids[self.N] += 1
                    return '[wrapu 8 %s]' % self.expr(s0['inner'][1])
                if self.member(l) == 'len':
                    k = _strip(s0['inner'][1])
                    if k['kind'] != 'IntegerLiteral':
                        raise U('encode: len is not a literal')
                    self.ids[self.LEN] = int(k['value'])
                    return '[]'
            return None

        def stmts(self, ss, brk=None, void=False):
            if ss:
                s = ss[0]
                if s['kind'] == 'DeclStmt' and len(s['inner']) == 1 and s['inner'][0].get('type', {}).get('qualType', '').endswith('seq'):
                    self.out_id = s['inner'][0]['id']
                    return self.stmts(ss[1:], brk, void)
                if s['kind'] == 'ReturnStmt':
                    found = []
                    _walk(s, lambda x, ps: found.append(x) if x.get('kind') == 'DeclRefExpr' else None)
                    if [x['referencedDecl']['id'] for x in found] != [self.out_id]:
                        raise U('encode: returns something other than out')
                    if self.ids[self.LEN] != self.ids[self.N]:
                        raise U('encode: len = %s after %s bytes' % (self.ids[self.LEN], self.ids[self.N]))
                    return '[]'
            return super().stmts(ss, brk, void)

    def translate_seq_encoder(fd, coqname):
        tr = SeqTr('', {}, {})
        tr.consts = {}
        tr.out_id = None
        ps = [c for c in fd['inner'] if c['kind'] == 'ParmVarDecl']
        nm = tr.fresh(ps[0]['name'])
        tr.ids[ps[0]['id']] = nm
        tr.ids[tr.N], tr.ids[tr.LEN] = 0, None
        body = [c for c in fd['inner'] if c['kind'] == 'CompoundStmt'][0]
        return 'Definition %s (%s : Z) : list Z :=\n  %s.\n' % (coqname, nm, tr.stmts(tr.flatten(body), None, 'emit'))

    def translate_table(fd):
        body = [c for c in fd['inner'] if c['kind'] == 'CompoundStmt'][0].get('inner', [])
        index = dict((cxx, i) for i, (cxx, _) in enumerate(SB_VALIDATORS))
        index['utf8_valid'] = 100
        local = {}

        def fn_of(n):
            n = _strip(n)
            if n['kind'] == 'UnaryOperator' and n.get('opcode') == '&':
                n = _strip(n['inner'][0])
            if n['kind'] != 'DeclRefExpr':
                raise U('validators_set: right-hand side ' + n['kind'])
            rid = n['referencedDecl']['id']
            if rid in local:
                return local[rid]
            nm = n['referencedDecl'].get('name')
            if nm not in index:
                raise U('validators_set: unknown validator ' + str(nm))
            return index[nm]

        def assign(n):
            n = _strip(n)
            if n['kind'] == 'CXXBindTemporaryExpr':
                n = _strip(n['inner'][0])
            if n['kind'] != 'BinaryOperator' or n.get('opcode') != '=':
                raise U('validators_set: statement ' + n['kind'])
            lhs, rhs = _strip(n['inner'][0]), _strip(n['inner'][1])
            if lhs['kind'] != 'CXXOperatorCallExpr' or _strip(lhs['inner'][0]).get('referencedDecl', {}).get('name') != 'operator[]' \
                    or _strip(lhs['inner'][1]).get('name') != 'predefined_':
                raise U('validators_set: left-hand side is not predefined_[...]')
            lits = []
            _walk(lhs['inner'][2], lambda x, ps: lits.append(x) if x.get('kind') == 'StringLiteral' else None)
            if len(lits) != 1:
                raise U('validators_set: key is not a string literal')
            import json as _json
            name = _json.loads(lits[0]['value'])
            if rhs['kind'] == 'BinaryOperator' and rhs.get('opcode') == '=':
                names, f = assign(rhs)
                return [name] + names, f
            return [name], fn_of(rhs)

        rows = []
        for st in body:
            if st['kind'] == 'DeclStmt':
                for d in st['inner']:
                    local[d['id']] = fn_of(d['inner'][0])
                continue
            names, f = assign(st)
            for nm in names:
                rows.append('([%s], (%d))' % ('; '.join(str(ord(ch)) for ch in nm), f))
        return 'Definition g_enc_table : list (list Z * Z) :=\n  [%s].\n' % ';\n   '.join(rows)

    return cxx2v, translate_validator, translate_step, translate_plain, translate_ptr_function, translate_table, translate_encoder, translate_decoder, translate_seq_encoder


# ------------------------------------------------------------------------------------------------
# widgets::base_text as an object with state (src/form.cpp): rigid tie of the member functions load / validate / value(v) /
# base_widget::clear and of the constructor's initialiser list.  Every statement is printed in a canonical form; statements and the
# three conditions that talk to the outside world must be EXACTLY the known ones (table below: canonical text -> effect on the state
# (value tag, code_points_, is_set, is_valid)); the remaining conditions (over fields, getters and integers) are translated generically.
#   value tags: 0 = "" (cleared), 1 = the value found in the request, 2 = the argument of the setter, anything else = untouched old value
# ------------------------------------------------------------------------------------------------
_W_SKIP = ('ImplicitCastExpr', 'ParenExpr', 'ExprWithCleanups', 'MaterializeTemporaryExpr', 'CXXBindTemporaryExpr', 'ConstantExpr')


def w_canon(n):
    k = n['kind']
    if k in _W_SKIP:
        return w_canon(n['inner'][0])
    if k == 'CXXThisExpr':
        return 'this'
    if k == 'MemberExpr':
        return w_canon(n['inner'][0]) + '.' + n['name']
    if k == 'DeclRefExpr':
        return n['referencedDecl'].get('name', '?')
    if k == 'IntegerLiteral':
        return str(n['value'])
    if k == 'CXXBoolLiteralExpr':
        return 'true' if n['value'] else 'false'
    if k in ('CXXMemberCallExpr', 'CallExpr', 'CXXOperatorCallExpr'):
        return w_canon(n['inner'][0]) + '(' + ','.join(w_canon(a) for a in n['inner'][1:]) + ')'
    if k in ('BinaryOperator', 'CompoundAssignOperator'):
        return '(' + w_canon(n['inner'][0]) + n['opcode'] + w_canon(n['inner'][1]) + ')'
    if k == 'UnaryOperator':
        return n['opcode'] + w_canon(n['inner'][0])
    if k == 'CXXConstructExpr':
        args = [a for a in n.get('inner', []) if a['kind'] != 'CXXDefaultArgExpr']
        return w_canon(args[0]) if len(args) == 1 else 'ctor(' + ','.join(w_canon(a) for a in args) + ')'
    if k in ('CXXFunctionalCastExpr', 'CStyleCastExpr', 'CXXStaticCastExpr'):
        return 'cast<' + n['type']['qualType'] + '>(' + w_canon(n['inner'][0]) + ')'
    return '<' + k + '>'


W_STMT = {   # canonical statement -> [(state component, Coq expression)]
    'this.pre_load(context)': [],
    'this.value_.clear()': [('value', '(0)')],
    '(this.code_points_=0)': [('cp', '(0)')],
    'this.set(true)': [('is_set', 'true')],
    'this.set(false)': [('is_set', 'false')],
    'this.valid(true)': [('is_valid', 'true')],
    'this.valid(false)': [('is_valid', 'false')],
    'decl p': [],
    'operator=(p,context.request().post_or_get().find(this.name()))': [],
    'operator=(this.value_,operator->(p).second)': [('value', '(1)')],
    '(this.code_points_=this.value_.size())': [('cp', 'vsize')],
    'operator=(this.value_,v)': [('value', '(2)')],
}
W_COND = {   # canonical condition -> Coq bool over the inputs of the transition
    'this.name().empty()': 'name_empty',
    'operator==(p,context.request().post_or_get().end())': 'absent',
    'this.validate_charset_': 'cs',
}
W_EV = '!valid(context.locale(),this.value_.data(),(this.value_.data()+this.value_.size()),this.code_points_)'
# the setter (after the repair eb17578): !validate_charset_ || !encoding::valid_utf8(value_, code_points_)  -- short circuit: valid_utf8 is
# only called (and code_points_ only touched) when charset validation is on
W_EV8 = '(!this.validate_charset_||!valid_utf8(this.value_.data(),(this.value_.data()+this.value_.size()),this.code_points_))'
W_STATE = ('value', 'cp', 'is_set', 'is_valid')


class WidgetTr:
    """one member function -> Gallina state transformer over (value, cp, is_set, is_valid)"""
    def __init__(self, U):
        self.U = U
        self.n = 0

    def fresh(self, b):
        self.n += 1
        return '%s_%d' % (b, self.n)

    def cexpr(self, n, cur):
        """conditions / values over fields, getters and integers"""
        k = n['kind']
        if k in _W_SKIP:
            return self.cexpr(n['inner'][0], cur)
        c = w_canon(n)
        if c in ('this.low_', 'this.high_'):
            return c[5:-1]
        if c == 'this.code_points_':
            return cur['cp']
        if c == 'this.valid()':
            return cur['is_valid']
        if c == 'this.set()':
            return cur['is_set']
        if k == 'IntegerLiteral':
            return '(%s)' % n['value']
        if k == 'CXXBoolLiteralExpr':
            return 'true' if n['value'] else 'false'
        if k == 'UnaryOperator' and n['opcode'] == '!':
            return '(negb %s)' % self.cexpr(n['inner'][0], cur)
        if k == 'UnaryOperator' and n['opcode'] == '-' and _strip(n['inner'][0])['kind'] == 'IntegerLiteral':
            return '(-%s)' % _strip(n['inner'][0])['value']
        if k == 'CXXFunctionalCastExpr' and n['type']['qualType'] in ('size_t', 'std::size_t'):
            return '(wrapu 64 %s)' % self.cexpr(n['inner'][0], cur)
        if k == 'BinaryOperator':
            a, b = self.cexpr(n['inner'][0], cur), self.cexpr(n['inner'][1], cur)
            m = {'&&': 'andb %s %s', '||': 'orb %s %s', '==': 'Z.eqb %s %s', '<': 'Z.ltb %s %s', '>': 'Z.gtb %s %s', '>=': 'Z.geb %s %s',
                 '<=': 'Z.leb %s %s'}.get(n['opcode'])
            if m:
                return '(' + m % (a, b) + ')'
        raise self.U('widget tie: expression ' + c)

    def tuple(self, cur):
        return '(' + ', '.join(cur[x] for x in W_STATE) + ')'

    def flat(self, st):
        if st is None:
            return []
        if st['kind'] == 'CompoundStmt':
            out = []
            for c in st.get('inner', []) or []:
                out += self.flat(c)
            return out
        return [st]

    def stmts(self, ss, cur, ret_bool):
        if not ss:
            if ret_bool:
                raise self.U('widget tie: control reaches the end of a bool function')
            return self.tuple(cur)
        s, rest = ss[0], ss[1:]
        k = s['kind']
        if k == 'ReturnStmt':
            if ret_bool:
                return '(%s, %s)' % (self.cexpr(s['inner'][0], cur), self.tuple(cur))
            return self.tuple(cur)
        if k == 'IfStmt':
            cond = s['inner'][0]
            cc = w_canon(cond)
            pre, cur2 = '', dict(cur)
            if cc in W_COND:
                ce = W_COND[cc]
            elif cc == W_EV:
                r, ncp = self.fresh('r'), self.fresh('cp')
                pre = '(let %s := ev %s in let %s := snd %s in ' % (r, cur['cp'], ncp, r)
                cur2['cp'] = ncp
                ce = '(negb (fst %s))' % r
            elif cc == W_EV8:
                r, ncp = self.fresh('r'), self.fresh('cp')
                pre = '(let %s := (if cs then ev8 %s else (true, %s)) in let %s := snd %s in ' % (r, cur['cp'], cur['cp'], ncp, r)
                cur2['cp'] = ncp
                ce = '(orb (negb cs) (negb (fst %s)))' % r
            else:
                ce = self.cexpr(cond, cur)
            a = self.flat(s['inner'][1])
            b = self.flat(s['inner'][2]) if len(s['inner']) > 2 else []
            ta = self.stmts(a + rest, dict(cur2), ret_bool)
            tb = self.stmts(b + rest, dict(cur2), ret_bool)
            return '%s(if %s then %s else %s)%s' % (pre, ce, ta, tb, ')' if pre else '')
        c = 'decl ' + ','.join(x.get('name', '?') for x in s['inner']) if k == 'DeclStmt' else w_canon(s)
        if c not in W_STMT:
            raise self.U('widget tie: unknown statement ' + c)
        cur = dict(cur)
        txt = ''
        for comp, e in W_STMT[c]:
            nm = self.fresh(comp)
            txt += '(let %s := %s in ' % (nm, e)
            cur[comp] = nm
        return txt + self.stmts(rest, cur, ret_bool) + ')' * len(W_STMT[c])


def gen_widget(cxx2v, incs):
    """-> text of g_text_load / g_text_validate / g_text_set_value / g_widget_clear / g_text_ctor_inits"""
    U = cxx2v.Unsupported
    src = os.path.join(vlib.REPO, 'src', 'form.cpp')

    def method(filt, name, qual):
        found = []
        for o in cxx2v.run_clang(src, filt, incs):
            _walk(o, lambda n, ps: found.append(n) if n.get('kind') in ('CXXMethodDecl', 'CXXConstructorDecl') and n.get('name') == name
                  and _has_body(n) and n.get('type', {}).get('qualType') == qual else None)
        if len(found) != 1:
            raise U('widget tie: %s %s: %d definitions' % (filt, qual, len(found)))
        return found[0]

    def body(fd):
        return [c for c in fd['inner'] if c['kind'] == 'CompoundStmt'][0]
    out = []
    head = "(st : Z * Z * bool * bool) :=\n  let '(value, cp, is_set, is_valid) := st in "
    cur0 = dict((x, x) for x in W_STATE)
    tr = WidgetTr(U)
    out.append('Definition g_text_load (name_empty absent cs : bool) (vsize : Z) (ev : Z -> bool * Z) ' + head +
               tr.stmts(tr.flat(body(method('base_text::load', 'load', 'void (http::context &)'))), cur0, False) + '.\n')
    tr = WidgetTr(U)
    out.append('Definition g_text_validate (low high : Z) ' + head +
               tr.stmts(tr.flat(body(method('base_text::validate', 'validate', 'bool ()'))), cur0, True) + '.\n')
    tr = WidgetTr(U)
    out.append('Definition g_text_set_value (cs : bool) (vsize : Z) (ev8 : Z -> bool * Z) ' + head +
               tr.stmts(tr.flat(body(method('base_text::value', 'value', 'void (std::string)'))), cur0, False) + '.\n')
    tr = WidgetTr(U)
    out.append('Definition g_widget_clear ' + head +
               tr.stmts(tr.flat(body(method('base_widget::clear', 'clear', 'void ()'))), cur0, False) + '.\n')
    ctor = method('base_text::base_text', 'base_text', 'void ()')
    names = [c.get('anyInit', {}).get('name') for c in ctor['inner'] if c['kind'] == 'CXXCtorInitializer' and c.get('anyInit')]

    def init_value(c):
        e = _strip(c['inner'][0]) if c.get('inner') else {}
        if e.get('kind') == 'IntegerLiteral':
            return int(e['value'])
        if e.get('kind') == 'CXXBoolLiteralExpr':
            return 1 if e['value'] else 0
        if e.get('kind') == 'UnaryOperator' and e.get('opcode') == '-' and _strip(e['inner'][0]).get('kind') == 'IntegerLiteral':
            return -int(_strip(e['inner'][0])['value'])
        return 999          # default-constructed / not a literal
    values = [init_value(c) for c in ctor['inner'] if c['kind'] == 'CXXCtorInitializer' and c.get('anyInit')]
    if body(ctor).get('inner'):
        raise U('widget tie: base_text::base_text has a non-empty body')
    out.append('(* members named in the initialiser list of base_text::base_text (explicitly or default-constructed) *)\n'
               'Definition g_text_ctor_inits : list (list Z) :=\n  [%s].\n' % '; '.join('[%s]' % '; '.join(str(ord(ch)) for ch in nm) for nm in names))
    out.append('(* their initial values: integer / bool literals (true = 1), 999 = default-constructed *)\n'
               'Definition g_text_ctor_values : list Z := [%s].\n' % '; '.join('(%d)' % v for v in values))
    return '\n'.join(out)


def gen_c14():
    """writes coq/gen/Gen_C14.v from the current headers and src/encoding.cpp; returns [(name, error)]"""
    cxx2v, translate_validator, translate_step, translate_plain, translate_ptr_function, translate_table, translate_encoder, translate_decoder, translate_seq_encoder = make_translators()
    # one clang run per (file, filter) and check run
    _rc, _memo = cxx2v.run_clang, {}

    def run_clang_memo(src, filt, incs, *a, **k):
        key = (src, filt)
        if key not in _memo:
            _memo[key] = _rc(src, filt, incs, *a, **k)
        return _memo[key]
    cxx2v.run_clang = run_clang_memo
    out = os.path.join(vlib.COQ, 'gen', 'Gen_C14.v')
    tu = os.path.join(vlib.VERIF, 'harness', 'C14_tu.cpp')
    lines = ['(* GENERATED by checks/C14.py (tools/cxx2v.py) from private/utf_iterator.h, private/encoding_validators.h,',
             '   booster/booster/locale/utf.h and src/encoding.cpp of the checked tree -- do not edit *)',
             'From Coq Require Import ZArith List Bool.', 'From CppcmsV Require Import Base.CSem.',
             'Local Open Scope Z_scope.', 'Import ListNotations.', '',
             '(* what one segment of a filter function does to the output string / how it ends (see LoopTr in checks/C14.py) *)',
             'Inductive g_emit := GClear | GRange (a b : Z) | GAt (p : Z) | GByte (v : Z).',
             'Inductive g_ctl := GNext | GBreak | GReturn (b : bool).', '']
    try:
        incs = vlib.repo_incs()

        def decls(filt, kind, name, src=tu, pred=None):
            objs = cxx2v.run_clang(src, filt, incs)
            found = []

            def f(n, parents):
                if n.get('kind') == kind and n.get('name') == name and _has_body(n) and (pred is None or pred(n, parents)):
                    found.append(n)
            for o in objs:
                _walk(o, f)
            if not found:
                raise cxx2v.Unsupported('%s %s not found (filter %s)' % (kind, name, filt))
            return found[0]

        # 1. cppcms leaf functions of the UTF-8 decoder (private/utf_iterator.h)
        lines.append(translate_plain(decls('utf::valid', 'FunctionDecl', 'valid'), 'g_utf_valid', {}))
        for cxx, coq in [('is_trail', 'g_is_trail'), ('trail_length', 'g_trail_length'), ('width', 'g_width')]:
            lines.append(translate_plain(decls('utf8::' + cxx, 'FunctionDecl', cxx), coq, {}))
        # 1a. the framework's encoder utf8::encode (fills a struct seq)
        lines.append(translate_seq_encoder(decls('utf8::encode', 'FunctionDecl', 'encode'), 'g_encode'))
        # 1b. the framework's UTF-16 helpers of the same header (used by the JSON parser)
        for cxx, coq in [('is_first_surrogate', 'g_c16_is_first_surrogate'), ('is_second_surrogate', 'g_c16_is_second_surrogate'),
                         ('combine_surrogate', 'g_c16_combine_surrogate')]:
            lines.append(translate_plain(decls('utf16::' + cxx, 'FunctionDecl', cxx), coq, {}))
        # 2. the support library's copies (booster/locale/utf.h), instantiated for char
        lines.append(translate_plain(decls('is_valid_codepoint', 'FunctionDecl', 'is_valid_codepoint'), 'g_b_is_valid_codepoint', {}))

        def in_char_spec(n, parents):
            for p in parents:
                if p.get('kind') == 'ClassTemplateSpecializationDecl':
                    targs = [c for c in p.get('inner', []) if c.get('kind') == 'TemplateArgument']
                    return len(targs) == 2 and targs[0].get('type', {}).get('qualType') == 'char' and str(targs[1].get('value')) == '1'
            return False
        known = {}
        for cxx, coq in [('trail_length', 'g_b_trail_length'), ('width', 'g_b_width'), ('is_trail', 'g_b_is_trail'),
                         ('is_lead', 'g_b_is_lead')]:
            lines.append(translate_plain(decls('utf_traits', 'CXXMethodDecl', cxx, pred=in_char_spec), coq, dict(known)))
            known[cxx] = coq
        # 2b. the UTF-16 arithmetic of the support library: utf_traits<char16_t,2>
        def in_u16_spec(n, parents):
            for p in parents:
                if p.get('kind') == 'ClassTemplateSpecializationDecl':
                    targs = [c for c in p.get('inner', []) if c.get('kind') == 'TemplateArgument']
                    return len(targs) == 2 and targs[0].get('type', {}).get('qualType') == 'char16_t' and str(targs[1].get('value')) == '2'
            return False
        known16 = {}
        for cxx, coq in [('is_first_surrogate', 'g_b16_is_first_surrogate'), ('is_second_surrogate', 'g_b16_is_second_surrogate'),
                         ('combine_surrogate', 'g_b16_combine_surrogate'), ('trail_length', 'g_b16_trail_length'), ('width', 'g_b16_width')]:
            lines.append(translate_plain(decls('utf_traits', 'CXXMethodDecl', cxx, pred=in_u16_spec), coq, dict(known16)))
            known16[cxx] = coq
        # 2c. the encoders of the support library (instantiated for plain pointers in the TU) and max_width
        def inst(spec, ptr):
            return lambda n, parents: spec(n, parents) and n.get('type', {}).get('qualType', '').replace(' ', '').startswith(ptr + '(')
        lines.append(translate_encoder(decls('utf_traits', 'CXXMethodDecl', 'encode', pred=inst(in_char_spec, 'char*')), 'g_b_encode', 8))
        lines.append(translate_encoder(decls('utf_traits', 'CXXMethodDecl', 'encode', pred=inst(in_u16_spec, 'char16_t*')), 'g_b16_encode', 16))
        for spec, coq in ((in_char_spec, 'g_b_max_width'), (in_u16_spec, 'g_b16_max_width')):
            found = []
            for o in cxx2v.run_clang(tu, 'utf_traits', incs):
                _walk(o, lambda n, ps: found.append(n) if n.get('kind') == 'VarDecl' and n.get('name') == 'max_width' and n.get('inner') and spec(n, ps) else None)
            if not found:
                raise cxx2v.Unsupported('max_width not found')
            lines.append('Definition %s : Z := (%d).\n' % (coq, cxx2v.const_int(found[0]['inner'][0])))
        # 3. single-byte validators: the per-byte loop body as a predicate
        def is_inst(n, parents):
            return 'const char *' in n.get('type', {}).get('qualType', '')
        for cxx, coq in SB_VALIDATORS:
            lines.append(translate_validator(decls(cxx, 'FunctionDecl', cxx, pred=is_inst), coq))
        # 4. encoding-name normalisation step (src/encoding.cpp: encodings_comparator::next)
        enc_src = os.path.join(vlib.REPO, 'src', 'encoding.cpp')
        lines.append(translate_step(decls('encodings_comparator::next', 'CXXMethodDecl', 'next', src=enc_src), 'g_enc_name_step'))
        # 5. the filter functions of src/encoding.cpp, segment by segment (loop conditions, loop bodies, the code between the loops)
        objs = cxx2v.run_clang(tu, 'utf::illegal', incs)
        vds = [v for v in cxx2v.find_decl(objs, 'VarDecl', 'illegal') if v.get('inner')]
        if not vds:
            raise cxx2v.Unsupported('utf::illegal not found')
        lines.append('Definition g_illegal : Z := (%d).\n' % cxx2v.const_int(vds[0]['inner'][0]))
        global FILTER_SEGS
        FILTER_SEGS = {}
        for cxx, pre in [('validate_or_filter_utf8', 'g_vof_u8'), ('validate_or_filter_single_byte_charset', 'g_vof_sb')]:
            txt, order = translate_ptr_function(decls(cxx, 'FunctionDecl', cxx, src=enc_src), pre)
            lines.append(txt)
            FILTER_SEGS[pre] = order
        # 6. the validators table: validators_set::validators_set() as a list (name, index of the validator in SB_VALIDATORS; 100 = utf8_valid),
        #    in textual order of the name literals
        lines.append(translate_table(decls('validators_set::validators_set', 'CXXConstructorDecl', 'validators_set', src=enc_src)))
        # 5a. the next-character function itself: utf8::next<char const *>
        def is_next_inst(n, parents):
            return 'const char *&' in n.get('type', {}).get('qualType', '')
        lines.append(translate_decoder(decls('utf8::next', 'FunctionDecl', 'next', pred=is_next_inst), 'g_next',
                                       {'trail_length': 'g_trail_length', 'is_trail': 'g_is_trail', 'valid': 'g_utf_valid', 'width': 'g_width'}))
        #     and the support library's utf_traits<char,1>::decode<char const *>
        for nm, coq in (('illegal', 'g_b_illegal'), ('incomplete', 'g_b_incomplete')):
            vds = [v for o in cxx2v.run_clang(tu, 'booster::locale::utf::' + nm, incs) for v in cxx2v.find_decl([o], 'VarDecl', nm) if v.get('inner')]
            if not vds:
                raise cxx2v.Unsupported('booster %s not found' % nm)
            lines.append('Definition %s : Z := (%d).\n' % (coq, cxx2v.const_int(vds[0]['inner'][0])))
        def is_decode_inst(n, parents):
            return in_char_spec(n, parents) and 'const char *&' in n.get('type', {}).get('qualType', '')
        lines.append(translate_decoder(decls('utf_traits', 'CXXMethodDecl', 'decode', pred=is_decode_inst), 'g_b_decode',
                                       {'trail_length': 'g_b_trail_length', 'is_trail': 'g_b_is_trail', 'is_valid_codepoint': 'g_b_is_valid_codepoint',
                                        'width': 'g_b_width'}, {'illegal': 'g_b_illegal', 'incomplete': 'g_b_incomplete'}))
        # 5b. the validate loop of private/utf_iterator.h: utf8::validate(p,e,count,html), instantiated for char const *
        def is_validate4(n, parents):
            return len([c for c in n.get('inner', []) if c.get('kind') == 'ParmVarDecl']) == 4 and 'const char *' in n.get('type', {}).get('qualType', '')
        txt, order = translate_ptr_function(decls('utf8::validate', 'FunctionDecl', 'validate', pred=is_validate4), 'g_val', state_params=('p', 'count'))
        lines.append(txt)
        FILTER_SEGS['g_val'] = order
        def is_validate3(n, parents):
            return len([c for c in n.get('inner', []) if c.get('kind') == 'ParmVarDecl']) == 3 and 'const char *' in n.get('type', {}).get('qualType', '')
        txt, order = translate_ptr_function(decls('utf8::validate', 'FunctionDecl', 'validate', pred=is_validate3), 'g_val3', state_params=('p',))
        lines.append(txt)
        FILTER_SEGS['g_val3'] = order
        # 7. widgets::base_text as an object with state (src/form.cpp)
        lines.append(gen_widget(cxx2v, incs))
        for pre, want in EXPECT_SEGS.items():
            if FILTER_SEGS[pre] != want:
                raise cxx2v.Unsupported('%s: the function is no longer of the shape %s (found %s)' % (pre, ' ; '.join(want), ' ; '.join(FILTER_SEGS[pre])))
        txt = '\n'.join(lines) + '\n'
        err = []
    except cxx2v.Unsupported as e:
        txt = '(* translator failed: %s *)\nDefinition broken : False := I.\n' % str(e).replace('*)', '* )').replace('"', "'")
        err = [('Gen_C14', str(e))]
    cxx2v.run_clang = _rc
    with vlib.Lock('gen-Gen_C14'):
        vlib.write_if_changed(out, txt)
    return err


# ------------------------------------------------------------------------------------------------
# references used by the oracles (independent of model and implementation)
# ------------------------------------------------------------------------------------------------
# RFC 3629 section 4, UTF8-char
U8CHAR = re.compile(rb'[\x00-\x7F]|[\xC2-\xDF][\x80-\xBF]|\xE0[\xA0-\xBF][\x80-\xBF]|[\xE1-\xEC][\x80-\xBF]{2}|'
                    rb'\xED[\x80-\x9F][\x80-\xBF]|[\xEE\xEF][\x80-\xBF]{2}|\xF0[\x90-\xBF][\x80-\xBF]{2}|'
                    rb'[\xF1-\xF3][\x80-\xBF]{3}|\xF4[\x80-\x8F][\x80-\xBF]{2}', re.S)


def html_safe(c):
    return c in (9, 10, 13) or (c >= 0x20 and c != 0x7F and not (0x80 <= c <= 0x9F))


def ref_next(s):
    """(code point, length) of the UTF8-char at the start of s, or None"""
    m = U8CHAR.match(s)
    if not m:
        return None
    return ord(m.group(0).decode('utf-8')), m.end()


def ref_cps(s):
    """list of code points when s is well-formed UTF-8 (Python strict decoder = RFC 3629), else None"""
    try:
        return [ord(ch) for ch in s.decode('utf-8')]
    except UnicodeDecodeError:
        return None


def ref_valid(s, html):
    cps = ref_cps(s)
    if cps is None:
        return None
    if html and not all(html_safe(c) for c in cps):
        return None
    return len(cps)


def why_malformed(s):
    """names the class of malformed sequence at the start of s (for finding keys)"""
    if not s:
        return 'empty'
    a = s[0]
    if 0x80 <= a <= 0xBF:
        return 'lone-trail-byte'
    if a in (0xC0, 0xC1):
        return 'overlong-2'
    if a >= 0xF5:
        return 'lead-above-f4'
    need = 2 if a < 0xE0 else 3 if a < 0xF0 else 4
    t = s[1:need]
    if any(not (0x80 <= x <= 0xBF) for x in t):
        return 'bad-trail-byte'
    if len(s) < need:
        return 'truncated'
    if a == 0xE0 and s[1] < 0xA0:
        return 'overlong-3'
    if a == 0xF0 and s[1] < 0x90:
        return 'overlong-4'
    if a == 0xED and s[1] >= 0xA0:
        return 'surrogate'
    if a == 0xF4 and s[1] >= 0x90:
        return 'above-10ffff'
    return 'other'


def norm_name(b):
    """encodings_comparator: letters (lower-cased) and digits up to the first NUL"""
    out = []
    for c in b:
        if c == 0:
            break
        if 48 <= c <= 57 or 97 <= c <= 122:
            out.append(c)
        elif 65 <= c <= 90:
            out.append(c + 32)
    return bytes(out).decode('ascii')


# normalised table name -> Python codec holding the code page (None: ASCII, 'utf8': the UTF-8 validator)
TABLE = {'latin1': 'iso8859-1', 'utf8': 'utf8', 'usascii': None, 'ascii': None, 'koi8r': 'koi8-r', 'koi8u': 'koi8-u'}
for _n in (1, 2, 3, 4, 5, 6, 7, 8, 9, 10, 11, 13, 14, 15, 16):
    TABLE['iso8859%d' % _n] = 'iso8859-%d' % _n
for _n in (1250, 1251, 1252, 1253, 1255, 1256, 1257, 1258):
    TABLE['windows%d' % _n] = 'cp%d' % _n
    TABLE['cp%d' % _n] = 'cp%d' % _n
ISO_NAMES = set(n for n in TABLE if n.startswith('iso8859') or n == 'latin1')
_SBREF = {}


def sb_ref(nname):
    """256 booleans: the byte is text in this code page: tab, LF, CR or a printable ASCII character, or a byte above 0x7F that
    the code page assigns (Python's stdlib tables, generated from the Unicode mapping files) to something that is not a control"""
    if nname not in _SBREF:
        codec = TABLE[nname]
        r = []
        for b in range(256):
            if b in (9, 10, 13):
                ok = True
            elif b < 0x20 or b == 0x7F:
                ok = False
            elif b < 0x7F:
                ok = True
            elif codec is None:
                ok = False
            else:
                try:
                    ch = ord(bytes([b]).decode(codec))
                    ok = not (0x80 <= ch <= 0x9F)
                except UnicodeDecodeError:
                    ok = False
            r.append(ok)
        _SBREF[nname] = r
    return _SBREF[nname]


def bits_to_bools(h, n=256):
    v = int(h, 16)
    return [bool((v >> (n - 1 - i)) & 1) for i in range(n)]


def ref_filter_utf8(s, repl):
    """token-wise image (Props.filter_utf8_tokenwise): HTML-safe UTF8-char copied, unsafe UTF8-char replaced as a whole, and where
    no UTF8-char starts one byte replaced"""
    out = bytearray()
    rp = bytes([repl]) if repl else b''
    i = 0
    while i < len(s):
        m = U8CHAR.match(s, i)
        if m:
            if html_safe(ord(m.group(0).decode('utf-8'))):
                out += m.group(0)
            else:
                out += rp
            i = m.end()
        else:
            out += rp
            i += 1
    return bytes(out)


def is_subseq(o, s):
    it = iter(s)
    return all(any(x == y for y in it) for x in o)


# ------------------------------------------------------------------------------------------------
# generators
# ------------------------------------------------------------------------------------------------
GRIDV = [0x00, 0x7F, 0x80, 0xBF, 0xC0, 0xFF]
BOUNDARY_CPS = [0, 1, 8, 9, 10, 11, 12, 13, 14, 0x1F, 0x20, 0x7E, 0x7F, 0x80, 0x85, 0x9F, 0xA0, 0xFF, 0x7FF, 0x800, 0xFFF, 0x1000,
                0xCFFF, 0xD000, 0xD7FF, 0xE000, 0xFFFD, 0xFFFE, 0xFFFF, 0x10000, 0x3FFFF, 0x40000, 0xFFFFF, 0x100000, 0x10FFFF]
BAD_PIECES = [b'\x80', b'\xbf', b'\xc0\x80', b'\xc1\xbf', b'\xc2', b'\xc2\x7f', b'\xc2\xc0', b'\xdf', b'\xe0\x80\x80', b'\xe0\x9f\xbf',
              b'\xe0\xa0', b'\xe0', b'\xe2\x82', b'\xe2\x28\xa1', b'\xe2\x82\x28', b'\xed\xa0\x80', b'\xed\xbf\xbf', b'\xed\xa0',
              b'\xef\xbf', b'\xf0\x80\x80\x80', b'\xf0\x8f\xbf\xbf', b'\xf0\x90\x80', b'\xf0\x9f\x98', b'\xf0\x9f', b'\xf0',
              b'\xf0\x28\x8c\xbc', b'\xf0\x90\x28\xbc', b'\xf0\x90\x8c\x28', b'\xf4\x90\x80\x80', b'\xf4\xbf\xbf\xbf', b'\xf4\x8f\xbf',
              b'\xf5\x80\x80\x80', b'\xf7\xbf\xbf\xbf', b'\xf8\x88\x80\x80\x80', b'\xfc\x84\x80\x80\x80\x80', b'\xfe', b'\xff',
              b'\xc0\xaf', b'\xe0\x80\xaf', b'\xf0\x80\x80\xaf', b'\xed\xa0\x80\xed\xb0\x80']
CTRL_PIECES = [bytes([c]) for c in (0, 1, 8, 11, 12, 14, 0x1B, 0x1F, 0x7F)] + [b'\xc2\x80', b'\xc2\x85', b'\xc2\x9f']
TABLE_NAMES = ['latin1', 'iso88591', 'iso88592', 'iso88594', 'iso88595', 'iso88599', 'iso885910', 'iso885913', 'iso885914', 'iso885915',
               'iso885916', 'iso88593', 'iso88596', 'iso88597', 'iso88598', 'iso885911', 'windows1250', 'windows1251', 'windows1252',
               'windows1253', 'windows1255', 'windows1256', 'windows1257', 'windows1258', 'cp1250', 'cp1251', 'cp1252', 'cp1253', 'cp1255',
               'cp1256', 'cp1257', 'cp1258', 'koi8r', 'koi8u', 'utf8', 'usascii', 'ascii']
PRETTY = {'latin1': ['Latin1', 'LATIN-1', 'latin_1'], 'utf8': ['UTF-8', 'utf-8', 'Utf_8', 'UTF8', 'u.t.f.8'], 'usascii': ['US-ASCII', 'us-ascii'],
          'ascii': ['ASCII', 'Ascii'], 'koi8r': ['KOI8-R', 'koi8-r'], 'koi8u': ['KOI8-U']}
UNKNOWN_NAMES = [b'', b'utf', b'utf16', b'utf-16', b'utf88', b'8', b'utf8x', b'xutf8', b'iso885912', b'iso8859', b'iso-8859-17', b'cp1254',
                 b'windows-1254', b'cp125', b'cp12500', b'euc-jp', b'shift_jis', b'koi8', b'koi8-ru', b'latin2', b'latin', b'asci', b'ascii7',
                 b'\x00utf8', b'---', b'u\x00tf8']


def rand_valid_char(rng):
    r = rng.random()
    if r < 0.35:
        c = rng.randrange(0x20, 0x7F)
    elif r < 0.5:
        c = rng.choice(BOUNDARY_CPS)
        if c < 0x20 and c not in (9, 10, 13) or c == 0x7F or 0x80 <= c <= 0x9F:
            c = rng.choice((9, 10, 13, 0xA0))
    elif r < 0.65:
        c = rng.randrange(0xA0, 0x800)
    elif r < 0.85:
        c = rng.randrange(0x800, 0x10000)
        if 0xD800 <= c <= 0xDFFF:
            c = 0xD7FF
    else:
        c = rng.randrange(0x10000, 0x110000)
    return chr(c).encode('utf-8')


def mix(rng, npieces, p_bad, p_ctrl):
    out = []
    for _ in range(npieces):
        r = rng.random()
        if r < p_bad:
            if rng.random() < 0.7:
                out.append(rng.choice(BAD_PIECES))
            else:
                out.append(bytes(rng.getrandbits(8) for _ in range(rng.randrange(1, 4))))
        elif r < p_bad + p_ctrl:
            out.append(rng.choice(CTRL_PIECES))
        else:
            out.append(rand_valid_char(rng))
    return b''.join(out)


def name_variants(rng, base, k):
    """spellings that normalise to the same key: case changes, inserted punctuation/space/high bytes, trailing NUL + junk"""
    out = [base.encode()] + [x.encode() for x in PRETTY.get(base, [])]
    m = re.match(r'(iso8859)(\d+)$', base)
    if m:
        out += [('ISO-8859-' + m.group(2)).encode(), ('Iso_8859_' + m.group(2)).encode()]
    m = re.match(r'(windows|cp)(\d+)$', base)
    if m:
        out += [(m.group(1).upper() + '-' + m.group(2)).encode(), (m.group(1).capitalize() + '_' + m.group(2)).encode()]
    for _ in range(k):
        v = bytearray()
        for ch in base.encode():
            while rng.random() < 0.25:
                v.append(rng.choice(b'-_ .:/\x80\xff\x01@[`{'))
            v.append(ch - 32 if 97 <= ch <= 122 and rng.random() < 0.5 else ch)
        if rng.random() < 0.3:
            v += b'\x00' + bytes(rng.choice(b'abz019-') for _ in range(rng.randrange(0, 4)))
        out.append(bytes(v))
    return out


def sb_string(rng, nname, n, p_bad):
    """a string for a single-byte code page: mostly accepted bytes, some rejected ones"""
    ref = sb_ref(nname)
    good = [b for b in range(256) if ref[b]]
    bad = [b for b in range(256) if not ref[b]]
    return bytes(rng.choice(bad) if rng.random() < p_bad else rng.choice(good) for _ in range(n))


def gen_cases(ctx):
    rng = ctx.rng
    cases = []
    # ---- decoders: exhaustive short sequences, boundary grid ----
    cases.append('nx -')
    for a in range(256):
        cases.append('nx %02x' % a)
    for a in range(256):
        for b in range(256):
            cases.append('nx %02x%02x' % (a, b))
    leads = list(range(0xC0, 0x100)) + [0x00, 0x7F, 0x80, 0xBF] if ctx.quick() else list(range(256))
    for a in leads:
        for b in range(256):
            cases.append('grid %02x %02x' % (a, b))
    # every boundary code point, its neighbours in byte space, every truncation, with a tail
    for c in BOUNDARY_CPS + [0xD800, 0xDBFF, 0xDC00, 0xDFFF, 0x110000, 0x1FFFFF]:
        cases.append('enc %x' % c)
        if c < 0x110000 and not (0xD800 <= c <= 0xDFFF):
            e = chr(c).encode('utf-8')
            for k in range(1, len(e) + 1):
                cases.append('nx ' + hexs(e[:k]))
            for i in range(len(e)):
                for d in (-1, 1):
                    m = bytearray(e)
                    m[i] = (m[i] + d) & 0xFF
                    cases.append('nx ' + hexs(bytes(m) + b'A'))
            cases.append('nx ' + hexs(e + b'\x80'))
    # the unchecked decoder of the support library, on input that starts with a well-formed sequence
    for c in BOUNDARY_CPS:
        if not (0xD800 <= c <= 0xDFFF):
            cases.append('dv ' + hexs(chr(c).encode('utf-8')))
            cases.append('dv ' + hexs(chr(c).encode('utf-8') + b'\xbf\x80'))
    for _ in range(ctx.scale(3000, 30000)):
        cases.append('dv ' + hexs(rand_valid_char(rng) + bytes(rng.getrandbits(8) for _ in range(rng.randrange(0, 3)))))
    for p in BAD_PIECES + CTRL_PIECES:
        cases.append('nx ' + hexs(p))
        cases.append('nx ' + hexs(p + b'\x80\x80'))
    for _ in range(ctx.scale(20000, 400000)):
        r = rng.random()
        if r < 0.4:
            s = rand_valid_char(rng) + bytes(rng.getrandbits(8) for _ in range(rng.randrange(0, 3)))
        elif r < 0.7:
            lead = rng.choice((0xE0, 0xED, 0xF0, 0xF4, 0xC2, 0xDF, 0xE1, 0xEC, 0xEE, 0xEF, 0xF1, 0xF3))
            s = bytes([lead]) + bytes(rng.choice((0x7F, 0x80, 0x8F, 0x90, 0x9F, 0xA0, 0xBF, 0xC0, rng.getrandbits(8))) for _ in range(rng.randrange(0, 5)))
        else:
            s = bytes(rng.getrandbits(8) for _ in range(rng.randrange(1, 6)))
        cases.append('nx ' + hexs(s))
    for _ in range(ctx.scale(3000, 30000)):
        cases.append('enc %x' % rng.choice((rng.randrange(0, 0x800), rng.randrange(0x800, 0x10000), rng.randrange(0x10000, 0x110000),
                                             rng.randrange(0x110000, 0x200000), rng.randrange(0xD7F0, 0xE010))))
    # ---- UTF-16 side of the support library: decode / encode / conversions between UTF-8 and UTF-16 ----
    U16B = [0x0000, 0x0041, 0x007F, 0x0080, 0x07FF, 0x0800, 0xD7FF, 0xD800, 0xD801, 0xDBFF, 0xDC00, 0xDC01, 0xDFFF, 0xE000, 0xFFFD, 0xFFFF]
    cases.append('d16 -')
    for a in U16B:
        cases.append('d16 %04x' % a)
        for b in U16B:
            cases.append('d16 %04x%04x' % (a, b))
            cases.append('d16 %04x%04x0041' % (a, b))
    for c in BOUNDARY_CPS + [0xD7FF, 0xE000, 0x10001, 0x103FF, 0x10400, 0xFFFFF, 0x10FFFE]:
        if not (0xD800 <= c <= 0xDFFF):
            cases.append('e16 %x' % c)
    for _ in range(ctx.scale(1500, 15000)):
        cases.append('e16 %x' % rng.choice((rng.randrange(0, 0xD800), rng.randrange(0xE000, 0x10000), rng.randrange(0x10000, 0x110000))))

    def rand_units(n):
        out = []
        for _ in range(n):
            r = rng.random()
            if r < 0.5:
                out.append(rng.choice((rng.randrange(0x20, 0x7F), rng.randrange(0x80, 0xD800), rng.randrange(0xE000, 0x10000))))
            elif r < 0.8:
                out += [rng.randrange(0xD800, 0xDC00), rng.randrange(0xDC00, 0xE000)]
            else:
                out.append(rng.choice(U16B[7:13] + [rng.randrange(0xD800, 0xE000)]))
        return out
    for _ in range(ctx.scale(2500, 25000)):
        u = rand_units(rng.choice((0, 1, 2, 3, 5, 9)))
        h = ''.join('%04x' % x for x in u) or '-'
        cases.append('c168 ' + h)
        if rng.random() < 0.3:
            cases.append('d16 ' + h)
    for _ in range(ctx.scale(2500, 25000)):
        n = rng.choice((0, 1, 2, 3, 5, 9))
        r = rng.random()
        s = mix(rng, n, 0.0, 0.1) if r < 0.5 else mix(rng, n, 0.25, 0.05)
        cases.append('c816 ' + hexs(s))
    # ---- whole-string validators and counters ----
    for _ in range(ctx.scale(7000, 100000)):
        n = rng.choice((0, 1, 2, 3, 5, 8, 13, 21, 40))
        r = rng.random()
        s = mix(rng, n, 0.0, 0.0) if r < 0.35 else mix(rng, n, 0.0, 0.15) if r < 0.55 else mix(rng, n, 0.12, 0.05)
        if rng.random() < 0.15 and s:
            s = s[:rng.randrange(0, len(s) + 1)]           # cut anywhere (truncation at the end)
        c0 = rng.choice((0, 0, 0, 1, 7, 1000, 2 ** 32 - 1, 2 ** 40))
        h = hexs(s)
        cases.append('val %d %d %s' % (rng.getrandbits(1), c0, h))
        if rng.random() < 0.4:
            cases.append('val 0 %d %s' % (c0, h))
            cases.append('val 1 %d %s' % (c0, h))
        if rng.random() < 0.3:
            cases.append('vu8 %d %s' % (c0, h))
        if rng.random() < 0.3:
            cases.append('u2u ' + h)
    for ln in ([1000, 4096, 65536] if ctx.quick() else [1000, 4096, 65536, 65537, 300000]):
        for pb in (0.0, 0.0005):
            s = mix(rng, ln // 2, pb, 0.0)
            cases.append('val 1 0 ' + hexs(s))
            cases.append('val 0 3 ' + hexs(s + b'\xf0\x9f\x98'))
            cases.append('vu8 0 ' + hexs(s))
    # ---- names: dispatch ----
    for nm in TABLE_NAMES:
        for v in name_variants(rng, nm, ctx.scale(4, 20)):
            cases.append('cmp ' + hexs(v))
    for nm in UNKNOWN_NAMES:
        cases.append('cmp ' + hexs(nm))
    for _ in range(ctx.scale(300, 3000)):
        base = rng.choice(TABLE_NAMES).encode()
        v = bytearray(base)
        r = rng.random()
        if r < 0.4 and v:
            v[rng.randrange(len(v))] = rng.choice(b'0123456789abcxyzABZ-_')
        elif r < 0.7:
            v.insert(rng.randrange(len(v) + 1), rng.choice(b'0123456789abz'))
        elif v:
            del v[rng.randrange(len(v))]
        cases.append('cmp ' + hexs(bytes(v)))
    # ---- single-byte code pages: all bytes, all byte pairs, strings ----
    for nm in TABLE_NAMES:
        for v in name_variants(rng, nm, 1)[:3]:
            cases.append('sb1 ' + hexs(v))
        if nm == 'utf8':
            continue
        for a in range(256):
            cases.append('sb2 %s %02x' % (hexs(nm.encode()), a))
        for v in name_variants(rng, nm, 2):
            for _ in range(ctx.scale(6, 40)):
                n = rng.choice((0, 1, 2, 5, 17, 64))
                s = sb_string(rng, nm, n, rng.choice((0.0, 0.0, 0.05, 0.3)))
                cases.append('vnm %s %d %s' % (hexs(v), rng.choice((0, 0, 5, 2 ** 33)), hexs(s)))
            for _ in range(ctx.scale(6, 40)):
                n = rng.choice((0, 1, 2, 5, 17, 64))
                s = sb_string(rng, nm, n, rng.choice((0.0, 0.05, 0.3, 1.0)))
                ref = sb_ref(nm)
                okb = [b for b in range(256) if ref[b]]
                repl = rng.choice((0, 0, 0x3F, 0x20, rng.choice(okb), rng.getrandbits(8)))
                cases.append('flt %s %02x %s' % (hexs(v), repl, hexs(s)))
    # ---- UTF-8 by name and the UTF-8 filter ----
    u8names = name_variants(rng, 'utf8', 6)
    for _ in range(ctx.scale(2500, 30000)):
        s = mix(rng, rng.choice((0, 1, 2, 3, 8, 20)), rng.choice((0.0, 0.1, 0.3)), rng.choice((0.0, 0.1)))
        cases.append('vnm %s %d %s' % (hexs(rng.choice(u8names)), rng.choice((0, 0, 9)), hexs(s)))
    for _ in range(ctx.scale(9000, 120000)):
        n = rng.choice((0, 1, 2, 3, 4, 6, 10, 25))
        r = rng.random()
        s = mix(rng, n, 0.0, 0.0) if r < 0.15 else mix(rng, n, 0.25, 0.1) if r < 0.7 else mix(rng, n, 0.7, 0.2)
        if rng.random() < 0.2 and s:
            s = s[:rng.randrange(0, len(s) + 1)]
        repl = rng.choice((0, 0, 0, 0x3F, 0x3F, 0x20, 0x58, 0x09, 0x7E, 0x01, 0x7F, 0x80, 0xFF, rng.getrandbits(8)))
        cases.append('flt %s %02x %s' % (hexs(rng.choice(u8names)), repl, hexs(s)))
    # exhaustive small domain for the filter loops (case splits of LinkF.loop1 / loop2: safe character, unsafe character, no character
    # here -- bad lead, bad / missing trail, over-long, surrogate, too large, truncated -- in every order): all strings of length <= 3
    # over a boundary alphabet, without and with a replacement character
    FA = [0x41, 0x1B, 0x7F, 0x80, 0xBF, 0xC2, 0xE0, 0xA0, 0xED, 0xF0, 0x90, 0xF4, 0xFF]
    for n in (1, 2, 3):
        for t in itertools.product(FA, repeat=n):
            for repl in (0x00, 0x3F):
                cases.append('flt 75746638 %02x %s' % (repl, hexs(bytes(t))))
    for nm in ('iso88591', 'cp1252', 'koi8r', 'ascii'):
        for t in itertools.product([0x41, 0x09, 0x1B, 0x7F, 0x81, 0x9F, 0xA0, 0xFF], repeat=3):
            cases.append('flt %s %02x %s' % (hexs(nm.encode()), rng.choice((0x00, 0x3F)), hexs(bytes(t))))
    # one output string object reused across consecutive filter calls (valid text must leave it alone, invalid text must replace it
    # completely whatever it held: a long filtered text followed by a short one, a valid one in between)
    for _ in range(ctx.scale(600, 6000)):
        nm = rng.choice(u8names) if rng.random() < 0.6 else rng.choice(('iso88591', 'cp1251', 'koi8r', 'ascii')).encode()
        isu = norm_name(nm) == 'utf8'
        items = []
        for _k in range(rng.randrange(2, 6)):
            n = rng.choice((0, 1, 3, 12))
            if isu:
                items.append(mix(rng, n, rng.choice((0.0, 0.3, 0.6)), rng.choice((0.0, 0.2))))
            else:
                items.append(sb_string(rng, norm_name(nm), n, rng.choice((0.0, 0.3, 1.0))))
        cases.append('fls %s %02x %s' % (hexs(nm), rng.choice((0, 0x3F)), ' '.join(hexs(x) for x in items)))
    for ln in ([2000] if ctx.quick() else [2000, 8000]):
        s = mix(rng, ln // 2, 0.01, 0.01)
        cases.append('flt 75746638 3f ' + hexs(s))
        cases.append('flt 75746638 00 ' + hexs(s))
    return cases


FORM_LOCALES = [b'en_US.UTF-8', b'en_US.utf8', b'de_DE.UTF-8@euro', b'ja_JP.Utf-8', b'en_US.ISO8859-1', b'he_IL.ISO8859-8', b'ar_EG.iso88596',
                b'ru_RU.CP1251', b'ru_RU.KOI8-R', b'el_GR.windows-1253', b'en_US.windows-1252', b'C', b'en_US', b'en_US.US-ASCII']


def locale_encoding(loc):
    """booster::locale::util::locale_data: lang_COUNTRY.encoding@variant; no encoding given = us-ascii"""
    if b'.' not in loc:
        return 'usascii'
    return norm_name(loc.split(b'.', 1)[1].split(b'@')[0])


def gen_form_cases(ctx):
    rng = ctx.rng
    cases = []
    for _ in range(ctx.scale(2500, 25000)):
        loc = rng.choice(FORM_LOCALES)
        enc = locale_encoding(loc)
        n = rng.choice((0, 1, 2, 3, 4, 5, 8))
        if enc == 'utf8':
            r = rng.random()
            v = mix(rng, n, 0.0, 0.0) if r < 0.6 else mix(rng, n, 0.0, 0.3) if r < 0.75 else mix(rng, n, 0.3, 0.0)
            ncp = len(v.decode('utf-8', 'replace'))
        else:
            v = sb_string(rng, enc, n, rng.choice((0.0, 0.0, 0.2)))
            ncp = len(v)
        # limits around the number of code points and around the number of bytes
        piv = rng.choice((ncp, len(v)))
        low = max(0, piv + rng.choice((-1, 0, 0, 1, -piv)))
        high = rng.choice((-1, piv - 1, piv, piv, piv + 1, len(v)))
        if high < -1:
            high = -1
        cs = 0 if rng.random() < 0.15 else 1
        cases.append('frm %s %d %d %d %s' % (hexs(loc), low, high, cs, hexs(v)))
    # exact limit boundary (Props.form_text_limit_boundary): n code points of 1..4 bytes each against limits n-1, n, n+1 and against the
    # same offsets around the byte length; the multi-byte characters straddle every byte position a byte-counting widget would cut at
    u8locs = [l for l in FORM_LOCALES if locale_encoding(l) == 'utf8']
    widths = [lambda: chr(rng.randrange(0x20, 0x7F)), lambda: chr(rng.randrange(0xA0, 0x800)),
              lambda: chr(rng.choice((rng.randrange(0x800, 0xD800), rng.randrange(0xE000, 0x10000)))), lambda: chr(rng.randrange(0x10000, 0x110000))]
    for n in (1, 2, 3, 4, 5, 7, 16) if ctx.quick() else (1, 2, 3, 4, 5, 6, 7, 8, 16, 31, 64):
        for shape in range(ctx.scale(4, 12)):
            t = ''.join(widths[(shape + i) % 4 if shape < 4 else rng.randrange(4)]() for i in range(n))
            v = t.encode('utf-8')
            nb = len(v)
            lims = {(0, n - 1), (0, n), (0, n + 1), (n, -1), (n + 1, -1), (n, n), (n - 1, n - 1), (n + 1, n + 1),
                    (0, nb - 1), (0, nb), (nb, -1), (nb - 1, -1), (n, nb), (nb, nb)}
            for low, high in sorted(lims):
                if low >= 0 and high >= -1:
                    cases.append('frm %s %d %d 1 %s' % (hexs(rng.choice(u8locs)), low, high, hexs(v)))
            cases.append('frm %s %d %d 0 %s' % (hexs(rng.choice(u8locs)), n + 1, nb, hexs(v)))      # charset validation off: bytes count
    return cases


def form_oracle(case, out):
    c = case.split()
    o = out.split()
    if out.startswith('<crash'):
        return ('crash-frm', 'form harness died: ' + out)
    if len(o) != 4 or o[0] != 'frm' or o[1] not in '01':
        return ('bad-output-frm', 'unexpected harness answer ' + out[:200])
    loc, low, high, cs, v = unhex(c[1]), int(c[2]), int(c[3]), c[4] == '1', unhex(c[5])
    enc = locale_encoding(loc)
    if unhex(o[3]) != v:
        return ('form-value-changed', 'the widget holds a different value than was submitted')
    if not cs:
        valid, n = True, len(v)
    elif enc == 'utf8':
        n = ref_valid(v, True)
        valid = n is not None
    elif enc in TABLE:
        ref = sb_ref(enc)
        valid, n = all(ref[b] for b in v), len(v)
    else:
        return None
    if (o[2] == '1') != valid:
        return ('form-text-charset', 'text widget (%s) %s a value that is %s' % (enc, 'accepted' if o[2] == '1' else 'rejected', 'invalid' if not valid else 'valid'))
    exp = valid and low <= n and (high < 0 or n <= high)
    if (o[1] == '1') != exp:
        return ('form-text-length-limit', 'text widget with limits %d..%d %s a valid value of %s characters (%d bytes)' % (
            low, high, 'accepted' if o[1] == '1' else 'rejected', n, len(v)))
    return None


# ---- one form object across several requests (seq cases): state that survives between operations on one widget ----
def _seq_fields(rng, enc, vals):
    f = []
    for i in range(3):
        r = rng.random()
        if r < 0.3:
            f.append('-')
        elif r < 0.4:
            f.append('=')
        else:
            f.append('=' + hexs(rng.choice(vals)))
    return 'L' + ','.join(f)


def _count_for(enc, v):
    if enc == 'utf8':
        try:
            return len(v.decode('utf-8'))
        except UnicodeDecodeError:
            return len(v)
    return len(v)


def gen_seq_cases(ctx):
    rng = ctx.rng
    cases = []
    locs = [b'en_US.UTF-8', b'de_DE.utf8', b'en_US.ISO8859-1', b'ru_RU.KOI8-R']
    for loc in locs:
        enc = locale_encoding(loc)
        h = hexs(loc)
        if enc == 'utf8':
            vals = [b'abc', b'x', '\u20ac\u20ac'.encode(), 'h\xe9llo w\xf6rld'.encode(), '\U0001f600'.encode() * 4, b'\xff', b'\xe2\x82', b'a\x01b', b'0123456789']
        else:
            vals = [b'abc', b'x', b'\xe9\xe8', b'hello world', b'\x81\x01', b'a\x01b', b'0123456789']
        # the scenario of the stale counter: a field present in the first request and absent (or empty) in the second one, with a lower
        # limit (required field) and with an upper limit, on every widget, with and without clear() in between
        for v in vals:
            n = _count_for(enc, v)
            for w in range(3):
                for lim in ((1, -1), (0, max(0, n - 1)), (n, n), (n + 1, -1), (0, 3)):
                    f1 = ['-', '-', '-']
                    f1[w] = '=' + hexs(v)
                    for mid in ('', 'C ', 'c%d ' % w):
                        for second in ('-', '='):
                            f2 = ['-', '-', '-']
                            f2[w] = second
                            cases.append('seq %s M%d=%d:%d L%s G V %sL%s G V F' % (h, w, lim[0], lim[1], ','.join(f1), mid, ','.join(f2)))
        # random histories
        for _ in range(ctx.scale(600, 6000)):
            ops = []
            for w in range(3):
                if rng.random() < 0.7:
                    n = _count_for(enc, rng.choice(vals))
                    lo, hi = rng.choice(((1, -1), (0, n), (n, n), (n + 1, -1), (0, max(0, n - 1)), (0, -1), (0, 3), (2, 5)))
                    ops.append('M%d=%d:%d' % (w, lo, hi))
                if rng.random() < 0.15:
                    ops.append('H%d=0' % w)
            for _k in range(rng.randrange(2, 6)):
                ops.append(_seq_fields(rng, enc, vals))
                r = rng.random()
                ops += ['V'] if r < 0.5 else ['G', 'V'] if r < 0.8 else ['F', 'V']
                r = rng.random()
                if r < 0.25:
                    ops.append('C')
                elif r < 0.35:
                    ops.append('c%d' % rng.randrange(3))
                if rng.random() < 0.3:
                    ops.append(rng.choice(('G', 'V')))
                if rng.random() < 0.1:
                    w = rng.randrange(3)
                    n = _count_for(enc, rng.choice(vals))
                    ops.append('M%d=%d:%d' % (w, rng.choice((0, 1, n)), rng.choice((-1, n, n + 1))))
                    ops.append(rng.choice(('H%d=0' % w, 'H%d=1' % w)))
            cases.append('seq %s %s' % (h, ' '.join(ops)))
    # the setter value(v) after loads of every kind and a never-loaded widget (the input classes of the former findings, repaired by eb17578)
    for loc in locs:
        enc = locale_encoding(loc)
        h = hexs(loc)
        svals = [b'', b'hi', '\u20ac'.encode(), b'\xff', b'a\x01b', b'0123456789', '\U0001f600\u00e9'.encode(), b'\xe2\x82']
        for v in svals:
            n = len(v.decode('utf-8')) if ref_cps(v) is not None else len(v)
            for w in range(3):
                for first in ('=616263', '-', '=ff', '='):
                    for lim in ((1, -1), (n, n), (n + 1, -1), (0, max(0, n - 1)), (len(v), len(v))):
                        f1 = ['-', '-', '-']
                        f1[w] = first
                        cases.append('seq %s M%d=%d:%d L%s V S%d=%s G V F' % (h, w, lim[0], lim[1], ','.join(f1), w, hexs(v) if v else ''))
            cases.append('seq %s H0=0 M0=%d:%d S0=%s G V L-,-,- V' % (h, len(v), len(v), hexs(v) if v else ''))
        for _ in range(ctx.scale(300, 3000)):
            ops = []
            for _k in range(rng.randrange(2, 7)):
                r = rng.random()
                w = rng.randrange(3)
                if r < 0.35:
                    ops.append(_seq_fields(rng, enc, [b'abc', '\u20ac\u20ac'.encode(), b'\xff', b'a\x01b'] if enc == 'utf8' else [b'abc', b'\xe9', b'a\x01b']))
                elif r < 0.7:
                    v = rng.choice(svals)
                    ops.append('S%d=%s' % (w, hexs(v) if v else ''))
                elif r < 0.8:
                    ops.append(rng.choice(('C', 'c%d' % w)))
                elif r < 0.9:
                    ops.append('M%d=%d:%d' % (w, rng.choice((0, 1, 2)), rng.choice((-1, 1, 2, 10))))
                else:
                    ops.append('H%d=%d' % (w, rng.getrandbits(1)))
                ops.append(rng.choice(('V', 'V', 'G', 'F')))
            if not any(o.startswith('L') for o in ops):
                ops.insert(0, 'L-,-,-')
            cases.append('seq %s %s' % (h, ' '.join(ops)))
    h = hexs(b'en_US.UTF-8')
    cases.append('seq %s M0=1:-1 L=616263,-,- V S0= G V' % h)
    cases.append('seq %s L-,-,- M0=1:-1 S0=68656c6c6f G V' % h)
    cases.append('seq %s L=ff,-,- V S0=6f6b G V' % h)
    cases.append('seq %s N00:1:-1 Nff:1:-1 N00:0:-1 Nff:0:3 N55:0:-1' % h)
    return cases


def seq_oracle(case, out):
    """the property on the implementation alone: after any history of one widget, value() is the value of the last load (the field of the
    last request, "" when it was absent) or of the last setter, it throws after clear(); validate() = the current value is valid for the
    charset in force when it was loaded && its number of code points (bytes: single-byte charset / validation off) is within the current
    limits && no validate() has failed since that value arrived"""
    c = case.split()
    o = out.split()
    if out.startswith('<crash'):
        return ('crash-seq', 'form harness died: ' + out)
    if not o or o[0] != 'seq' or 'EXC' in o or 'BAD-OP' in out:
        return ('bad-output-seq', 'unexpected harness answer ' + out[:200])
    enc = locale_encoding(unhex(c[1]))
    if enc not in TABLE:
        return None
    W = [dict(value=b'', src=None, set=False, low=0, high=-1, cs=True, cs_at=True, failed=False) for _ in range(3)]
    obs = o[1:]
    oi = 0

    def expect(w):
        v = w['value']
        if w['src'] is None:
            ok, n = True, 0
        elif w['src'] == 'setter':
            # value(v): never rejected; code points when charset validation is on and v is HTML-safe UTF-8, bytes otherwise
            n = ref_valid(v, True) if w['cs_at'] else None
            ok, n = True, (len(v) if n is None else n)
        elif not w['cs_at']:
            ok, n = True, len(v)
        elif enc == 'utf8':
            n = ref_valid(v, True)
            ok = n is not None
        else:
            ref = sb_ref(enc)
            ok, n = all(ref[b] for b in v), len(v)
        return bool(ok and not w['failed'] and w['low'] <= n and (w['high'] < 0 or n <= w['high']))

    for op in c[2:]:
        k = op[0]
        if k == 'L':
            for i, f in enumerate(op[1:].split(',')):
                w = W[i]
                w.update(value=unhex(f[1:]) if f.startswith('=') and len(f) > 1 else b'', src='load', set=True, cs_at=w['cs'], failed=False)
        elif k == 'C':
            for w in W:
                w['set'] = False
        elif k == 'c':
            W[int(op[1])]['set'] = False
        elif k == 'S':
            w = W[int(op[1])]
            w.update(value=unhex(op[3:]) if len(op) > 3 else b'', src='setter', set=True, cs_at=w['cs'], failed=False)
        elif k == 'M':
            lo, hi = op[3:].split(':')
            W[int(op[1])].update(low=int(lo), high=int(hi))
        elif k == 'H':
            W[int(op[1])]['cs'] = op[3] == '1'
        elif k in ('V', 'F'):
            if oi >= len(obs) or obs[oi][0] != k:
                return ('bad-output-seq', 'observations out of step: ' + out[:200])
            exp = [expect(w) for w in W]
            if k == 'V':
                got = [ch == '1' for ch in obs[oi][1:]]
            else:
                got = None
                if (obs[oi][1] == '1') != all(exp):
                    bad = [i for i in range(3) if not exp[i]] or [0]
                    src = W[bad[0]]['src']
                    return ('form-text-stale-state', 'form::validate() = %s, but the current values / limits give %s (history: %s)' % (obs[oi][1], exp, ' '.join(c[2:])))
            for i in range(3):
                if got is not None and got[i] != exp[i]:
                    w = W[i]
                    return ('form-text-stale-state', 'widget %d: validate() = %s although the current value %s (from the last %s%s) and limits %d..%d give %s: '
                            'state of an earlier operation survived' % (i, got[i], w['value'].hex() or '""', w['src'], '' if w['set'] else ', then clear()',
                                                                      w['low'], w['high'], exp[i]))
            for i in range(3):
                if not exp[i]:
                    W[i]['failed'] = True          # a failed validate() is sticky until the next load / setter
            oi += 1
        elif k == 'G':
            if oi >= len(obs) or obs[oi][0] != 'G':
                return ('bad-output-seq', 'observations out of step: ' + out[:200])
            got = obs[oi][1:].split(',')
            for i in range(3):
                w = W[i]
                e = '!' if not w['set'] else (w['value'].hex() or '-')
                if got[i] != e:
                    return ('form-value-stale', 'widget %d: value() = %s, expected %s after %s' % (i, got[i], e, ' '.join(c[2:])))
            oi += 1
        elif k == 'N':
            fill, lo, hi = op[1:].split(':')
            lo, hi = int(lo), int(hi)
            exp = lo <= 0 and (hi < 0 or 0 <= hi)
            if oi >= len(obs) or obs[oi][0] != 'N':
                return ('bad-output-seq', 'observations out of step: ' + out[:200])
            if (obs[oi][1] == '1') != exp:
                return ('form-text-stale-state', 'a never-loaded text widget (memory previously filled with 0x%s) with limits %d..%d: validate() = %s; '
                        'the answer must be the limits applied to an empty value' % (fill, lo, hi, obs[oi][1]))
            oi += 1
    return None


def gen_fallback_cases(ctx):
    """names without a built-in validator go through iconv/ICU (not modelled): oracle only"""
    rng = ctx.rng
    cases = []
    for nm in (b'windows-1254', b'cp1254'):
        for b in range(256):
            cases.append('vnm %s 0 %02x' % (hexs(nm), b))
        for _ in range(ctx.scale(50, 500)):
            s = bytes(rng.getrandbits(8) if rng.random() < 0.1 else rng.randrange(0x20, 0x7F) for _ in range(rng.randrange(0, 30)))
            cases.append('vnm %s 4 %s' % (hexs(nm), hexs(s)))
    # multi-byte and other code pages without a built-in validator: text from a repertoire both Python and iconv/ICU know
    for nm, codec in sorted(FALLBACK_CODECS.items()):
        rep = fallback_repertoire(codec)
        for _ in range(ctx.scale(25, 250)):
            t = ''.join(rng.choice(rep) if rng.random() < 0.6 else chr(rng.randrange(0x20, 0x7F)) for _ in range(rng.randrange(0, 12)))
            b = t.encode(codec)
            r = rng.random()
            if r < 0.2 and b:
                b = b[:-1]                                           # possibly a truncated multi-byte character
            elif r < 0.35:
                k = rng.randrange(len(b) + 1) if not FALLBACK_MULTIBYTE[nm] else len(b)
                b = b[:k] + bytes([rng.choice((0, 1, 8, 0x0B, 0x1F, 0x7F))]) + b[k:]   # a control character
            cases.append('vnm %s %d %s' % (hexs(rng.choice(FALLBACK_SPELLINGS[nm]).encode()), rng.choice((0, 7)), hexs(b)))
    return cases


# names that go through booster::locale::conv::between (iconv or ICU): normalised name -> Python codec (reference for the oracle only)
FALLBACK_CODECS = {'eucjp': 'euc_jp', 'shiftjis': 'shift_jis', 'gb2312': 'gb2312', 'gbk': 'gbk', 'cp936': 'cp936', 'big5': 'big5',
                   'euckr': 'euc_kr', 'cp866': 'cp866'}
FALLBACK_MULTIBYTE = dict((n, n != 'cp866') for n in FALLBACK_CODECS)
FALLBACK_SPELLINGS = {'eucjp': ['EUC-JP', 'euc-jp'], 'shiftjis': ['Shift_JIS', 'shift-jis'], 'gb2312': ['GB2312', 'gb2312'], 'gbk': ['GBK', 'gbk'],
                      'cp936': ['CP936', 'cp936'], 'big5': ['Big5', 'BIG5'], 'euckr': ['EUC-KR', 'euc-kr'], 'cp866': ['CP866', 'cp866']}
_FBREP = {}


def fallback_repertoire(codec):
    """kana, Cyrillic, a few common Han characters and Hangul syllables, as far as the code page has them (round trip in Python)"""
    if codec not in _FBREP:
        cand = [chr(c) for c in itertools.chain(range(0x3041, 0x3094), range(0x30A1, 0x30F7), range(0x0410, 0x0450))]
        cand += list('\u65e5\u672c\u8a9e\u6f22\u5b57\u4e2d\u6587\u672c\u5c71\u5ddd\u6c34\u706b\u4eba\u5927\u5c0f') + [chr(c) for c in range(0xAC00, 0xAC00 + 588 * 19, 588)]
        ok = []
        for ch in cand:
            try:
                if ch.encode(codec).decode(codec) == ch:
                    ok.append(ch)
            except UnicodeError:
                pass
        _FBREP[codec] = ok
    return _FBREP[codec]


def fallback_expect(nn, s):
    """None = no opinion; else (valid, code points).  Python's codec is the reference only where it is safe: text it decodes (valid iff
    HTML-safe), and input it rejects as cut in the middle of a multi-byte character"""
    codec = FALLBACK_CODECS[nn]
    try:
        t = s.decode(codec)
    except UnicodeDecodeError as e:
        if 'incomplete' in e.reason and e.end == len(s):
            return (False, 0)
        return None
    return (all(html_safe(ord(ch)) for ch in t), len(t))


# ------------------------------------------------------------------------------------------------
# oracle: the property evaluated on the implementation's answer alone
# ------------------------------------------------------------------------------------------------
def check_three(s, txt):
    parts = txt.split('/')
    if len(parts) != 3:
        return ('bad-output-nx', 'unexpected decoder answer ' + txt)
    ref = ref_next(s)
    res = []
    for part in parts:
        if ':' in part:
            cp, k = part.split(':')
            res.append((int(cp, 16), int(k)))
        elif part[:1] in ('i', 'n'):
            res.append(None)
        else:
            return ('bad-output-nx', 'unexpected decoder answer ' + txt)
    names = ('cppcms::utf8::next(html=false)', 'cppcms::utf8::next(html=true)', 'booster utf_traits<char>::decode')
    for i in (0, 2, 1):
        expect = ref if (i != 1 or (ref and html_safe(ref[0]))) else None
        got = res[i]
        if got is not None and ref is None:
            return ('utf8-accepts-' + why_malformed(s), '%s returned U+%04X for %s, which is not a UTF8-char of RFC 3629' % (names[i], got[0], s.hex()))
        if got is not None and expect is None:
            return ('utf8-html-accepts-control', '%s returned U+%04X (a C0/C1 control or DEL) in HTML-safe mode' % (names[i], got[0]))
        if got is None and expect is not None:
            return ('utf8-rejects-wellformed', '%s rejected %s = U+%04X' % (names[i], s[:ref[1]].hex(), ref[0]))
        if got is not None and got != expect:
            return ('utf8-wrong-code-point', '%s returned U+%04X consuming %d bytes for %s (expected U+%04X, %d bytes)' % (
                names[i], got[0], got[1], s.hex(), expect[0], expect[1]))
    if (res[0] is None) != (res[2] is None) or (res[0] and res[0] != res[2]):
        return ('decoders-disagree', 'the framework decoder and the support-library decoder disagree on ' + s.hex())
    if parts[2].startswith('n') and len(s) >= 4:
        return ('incomplete-with-4-bytes', 'support-library decoder reports incomplete although four bytes were available')
    return None


def grid_seqs(a, b):
    out = [bytes([a, b])]
    out += [bytes([a, b, c]) for c in GRIDV]
    out += [bytes([a, b, c, d]) for c in GRIDV for d in GRIDV]
    return out


def oracle(case, out):
    c = case.split()
    o = out.split()
    op = c[0]
    if out.startswith('<crash'):
        return ('crash-' + op, 'harness died on this input: ' + out)
    if len(o) < 2 or o[0] != op or 'BAD-CASE' in out:
        return ('bad-output-' + op, 'unexpected harness answer ' + out[:200])
    if 'PATHS-DIFFER' in out:
        return (op + '-entry-points-differ', 'two entry points of the same function disagree: ' + out[:200])
    if op == 'nx':
        return check_three(unhex(c[1]), o[1])
    if op == 'dv':
        s = unhex(c[1])
        ref = ref_next(s)
        if ref is None:
            return None          # undefined behaviour of the unchecked decoder: never generated
        if o[1] != '%x:%d' % ref:
            return ('decode_valid-wrong', 'utf_traits<char>::decode_valid returned %s for %s (expected U+%04X, %d bytes)' % (o[1], s.hex(), ref[0], ref[1]))
        return None
    if op == 'grid':
        seqs = grid_seqs(int(c[1], 16), int(c[2], 16))
        rs = o[1].split(',')
        if len(rs) != len(seqs):
            return ('bad-output-grid', 'wrong number of answers')
        for s, t in zip(seqs, rs):
            r = check_three(s, t)
            if r:
                return r
        return None
    if op in ('val', 'vu8'):
        html = True if op == 'vu8' else c[1] == '1'
        c0 = int(c[-2])
        s = unhex(c[-1])
        ok, cnt = o[1] == '1', int(o[2])
        n = ref_valid(s, html)
        if ok and n is None:
            if ref_cps(s) is None:
                return ('validate-accepts-malformed', 'utf8::validate accepted a string that is not well-formed UTF-8')
            return ('validate-html-accepts-control', 'HTML-safe validation accepted a C0/C1 control or DEL')
        if not ok and n is not None:
            return ('validate-rejects-wellformed', 'utf8::validate rejected a well-formed string')
        if ok and cnt != (c0 + n) % 2 ** 64:
            return ('validate-count-wrong', 'reported count %d, expected %d + %d code points' % (cnt, c0, n))
        return None
    if op == 'vnm':
        nn = norm_name(unhex(c[1]))
        c0 = int(c[2])
        s = unhex(c[3])
        ok, cnt = o[1] == '1', int(o[2])
        if nn == 'utf8':
            n = ref_valid(s, True)
            if ok != (n is not None):
                return ('named-utf8-valid-wrong', 'encoding::valid(utf-8) %s a string that is %s' % ('accepted' if ok else 'rejected', 'invalid' if ok else 'valid'))
            if ok and cnt != c0 + n:
                return ('named-count-wrong', 'count %d, expected %d' % (cnt, c0 + n))
            return None
        if nn == 'windows1254' or nn == 'cp1254':
            ref = _cp1254_ref()
        elif nn in TABLE:
            ref = sb_ref(nn)
        elif nn in FALLBACK_CODECS:
            fe = fallback_expect(nn, s)
            if fe is None:
                return None
            if ok != fe[0]:
                return ('fallback-valid-wrong', 'encoding::valid(%s) (iconv/ICU fall-back) %s %s' % (nn, 'accepted' if ok else 'rejected', s.hex()))
            if ok and cnt != c0 + fe[1]:
                return ('fallback-count-wrong', 'encoding::valid(%s): count %d, expected %d + %d code points' % (nn, cnt, c0, fe[1]))
            return None
        else:
            return None
        exp = all(ref[b] for b in s)
        if ok != exp:
            return ('single-byte-valid-wrong', 'encoding::valid(%s) %s %s' % (nn, 'accepted' if ok else 'rejected', s.hex()))
        if ok and cnt != c0 + len(s):
            return ('named-count-wrong', 'count %d, expected %d' % (cnt, c0 + len(s)))
        return None
    if op == 'sb1':
        nn = norm_name(unhex(c[1]))
        got = bits_to_bools(o[1])
        if nn == 'utf8':
            ref = [b < 0x80 and html_safe(b) for b in range(256)]
        elif nn in TABLE:
            ref = sb_ref(nn)
        else:
            return None
        for b in range(256):
            if got[b] != ref[b]:
                if 0x20 <= b <= 0x7E or b in (9, 10, 13):
                    return ('single-byte-rejects-ascii-text', '%s rejects byte 0x%02x' % (nn, b))
                if b < 0x20:
                    return ('single-byte-accepts-c0', '%s accepts C0 control 0x%02x' % (nn, b))
                if b == 0x7F:
                    return ('single-byte-accepts-del', '%s accepts DEL' % nn)
                if 0x80 <= b <= 0x9F and nn in ISO_NAMES:
                    return ('single-byte-accepts-c1', '%s accepts C1 control 0x%02x' % (nn, b))
                return ('single-byte-code-page-table', '%s %s byte 0x%02x; the code page says otherwise' % (nn, 'accepts' if got[b] else 'rejects', b))
        return None
    if op == 'sb2':
        pair, va, single = bits_to_bools(o[1]), o[2] == '1', bits_to_bools(o[3])
        for b in range(256):
            if pair[b] != (va and single[b]):
                return ('single-byte-context-dependent', 'valid(%s %02x) differs from valid(%s) && valid(%02x)' % (c[2], b, c[2], b))
        return None
    if op == 'enc':
        cp = int(c[1], 16)
        if cp < 0x110000 and not (0xD800 <= cp <= 0xDFFF):
            e = chr(cp).encode('utf-8')
            if unhex(o[1]) != e:
                return ('encode-wrong', 'utf8::encode(U+%04X) = %s' % (cp, o[1]))
            if int(o[2]) != len(e):
                return ('width-wrong', 'utf8::width(U+%04X) = %s' % (cp, o[2]))
        return None
    if op == 'flt':
        nn = norm_name(unhex(c[1]))
        repl = int(c[2], 16)
        s = unhex(c[3])
        if nn == 'utf8':
            valid = ref_valid(s, True) is not None
            good = lambda t: ref_valid(t, True) is not None
            repl_ok = repl == 0 or (repl < 0x80 and html_safe(repl))
        elif nn in TABLE:
            ref = sb_ref(nn)
            valid = all(ref[b] for b in s)
            good = lambda t: all(ref[b] for b in t)
            repl_ok = repl == 0 or ref[repl]
        else:
            return None
        if o[1] == 'valid':
            if len(o) > 2:
                return ('filter-touches-valid-text', 'validate_or_filter returned true but modified the output string')
            if not valid:
                return ('filter-passes-invalid-text', 'validate_or_filter(%s) returned true for invalid text' % nn)
            return None
        if valid:
            return ('filter-rejects-valid-text', 'validate_or_filter(%s) returned false for valid text' % nn)
        t = unhex(o[2])
        if repl_ok and not good(t):
            return ('filter-output-invalid', 'filtered text is not valid %s' % nn)
        if repl == 0 and not is_subseq(t, s):
            return ('filter-invents-bytes', 'filtered text (no replacement character) is not a subsequence of the input')
        if nn != 'utf8' and repl != 0 and len(t) != len(s):
            return ('filter-length', 'single-byte filter with a replacement character changed the length')
        if nn == 'utf8' and t != ref_filter_utf8(s, repl):
            return ('filter-resynchronisation', 'filtered text differs from the token-wise image of the input (valid characters kept, an unsafe '
                    'character replaced as a whole, one byte replaced where no character starts): expected ' + hexs(ref_filter_utf8(s, repl)))
        if nn != 'utf8' and t != b''.join(bytes([b]) if ref[b] else (bytes([repl]) if repl else b'') for b in s):
            return ('filter-bytewise', 'single-byte filter output is not the input with each rejected byte replaced')
        return None
    if op == 'cmp':
        exp = norm_name(unhex(c[1])) in TABLE
        if (o[1] == '1') != exp:
            return ('encoding-name-dispatch', 'is_ascii_compatible(%r) = %s' % (unhex(c[1]), o[1]))
        return None
    if op == 'u2u':
        s = unhex(c[1])
        cps = ref_cps(s)
        skip = unhex(o[1])
        if ref_cps(skip) is None:
            return ('utf_to_utf-output-invalid', 'utf_to_utf<char,char>(skip) produced malformed UTF-8')
        if cps is not None and skip != s:
            return ('utf_to_utf-changes-valid', 'utf_to_utf<char,char>(skip) changed well-formed text')
        if not is_subseq(skip, s):
            return ('utf_to_utf-invents-bytes', 'utf_to_utf<char,char>(skip) output is not a subsequence of the input')
        if (o[2] == 'throw') != (cps is None):
            return ('utf_to_utf-stop-wrong', 'utf_to_utf<char,char>(stop) %s' % ('threw on valid text' if cps is not None else 'accepted malformed text'))
        if cps is not None and unhex(o[2]) != s:
            return ('utf_to_utf-changes-valid', 'utf_to_utf<char,char>(stop) changed well-formed text')
        return None
    if op in ('d16', 'c168', 'c816', 'e16'):
        return oracle16(op, c, o)
    if op == 'fls':
        nn = norm_name(unhex(c[1]))
        repl = int(c[2], 16)
        prev = b'\x01untouched'
        if len(o) - 1 != len(c) - 3:
            return ('bad-output-fls', 'wrong number of answers')
        for h, t in zip(c[3:], o[1:]):
            s = unhex(h)
            if nn == 'utf8':
                valid = ref_valid(s, True) is not None
                exp = ref_filter_utf8(s, repl)
            elif nn in TABLE:
                ref = sb_ref(nn)
                valid = all(ref[b] for b in s)
                exp = b''.join(bytes([b]) if ref[b] else (bytes([repl]) if repl else b'') for b in s)
            else:
                return None
            if valid:
                exp = prev
            if t[0] != ('v' if valid else 'f') or unhex(t[2:]) != exp:
                return ('filter-output-depends-on-previous-content', 'validate_or_filter(%s) on %s with an output string that held %s: answer %s, expected %s:%s' % (
                    nn, s.hex(), prev.hex(), t, 'v' if valid else 'f', exp.hex()))
            prev = exp
        return None
    return ('bad-case', 'unknown case ' + case[:100])


def units_of(h):
    return [] if h == '-' else [int(h[i:i + 4], 16) for i in range(0, len(h), 4)]


def ref16_next(u):
    """RFC 2781: (code point, units) at the start of u, or None"""
    if not u:
        return None
    if u[0] < 0xD800 or u[0] > 0xDFFF:
        return u[0], 1
    if u[0] <= 0xDBFF and len(u) > 1 and 0xDC00 <= u[1] <= 0xDFFF:
        return 0x10000 + ((u[0] - 0xD800) << 10) + (u[1] - 0xDC00), 2
    return None


def ref16_cps(u):
    out, i = [], 0
    while i < len(u):
        r = ref16_next(u[i:])
        if r is None:
            return None
        out.append(r[0])
        i += r[1]
    return out


def oracle16(op, c, o):
    """UTF-16: what decodes is exactly a BMP non-surrogate unit or a surrogate pair (RFC 2781) with its value; encode is the inverse;
    conversions preserve the code points of well-formed text, never produce ill-formed output, stop throws exactly on ill-formed input"""
    if op == 'd16':
        u = units_of(c[1])
        ref = ref16_next(u)
        t = o[1]
        if ':' in t:
            cp, k = t.split(':')
            got = (int(cp, 16), int(k))
            if ref is None:
                return ('utf16-accepts-ill-formed', 'utf_traits<char16_t>::decode returned U+%04X for %s' % (got[0], c[1]))
            if got != ref:
                return ('utf16-wrong-code-point', 'utf_traits<char16_t>::decode returned U+%04X/%d units for %s' % (got[0], got[1], c[1]))
        elif ref is not None:
            return ('utf16-rejects-wellformed', 'utf_traits<char16_t>::decode rejected %s' % c[1])
        return None
    if op == 'e16':
        cp = int(c[1], 16)
        exp = chr(cp).encode('utf-16-be').hex()
        if o[1] != exp or int(o[2]) != len(exp) // 4:
            return ('utf16-encode-wrong', 'utf_traits<char16_t>::encode/width(U+%04X) = %s %s' % (cp, o[1], o[2]))
        return None
    if op == 'c816':
        s = unhex(c[1])
        cps = ref_cps(s)
        skip = units_of(o[1])
        sk = ref16_cps(skip)
        if sk is None:
            return ('utf8-to-utf16-output-ill-formed', 'utf_to_utf<char16_t,char>(skip) produced ill-formed UTF-16')
        if cps is not None and sk != cps:
            return ('utf8-to-utf16-changes-code-points', 'utf_to_utf<char16_t,char> changed the code points of well-formed text')
        # skip policy: the code points of the maximal well-formed pieces, in order (same tokens as the UTF-8 filter without HTML mode)
        exp, i = [], 0
        while i < len(s):
            m = U8CHAR.match(s, i)
            if m:
                exp.append(ord(m.group(0).decode('utf-8')))
                i = m.end()
            else:
                i = skip_bad_utf8(s, i)
        if sk != exp:
            return ('utf8-to-utf16-skip-policy', 'utf_to_utf<char16_t,char>(skip): code points %s, expected %s' % (sk, exp))
        if (o[2] == 'throw') != (cps is None):
            return ('utf8-to-utf16-stop-wrong', 'utf_to_utf<char16_t,char>(stop) %s' % ('threw on valid text' if cps is not None else 'accepted malformed text'))
        if cps is not None and ref16_cps(units_of(o[2])) != cps:
            return ('utf8-to-utf16-changes-code-points', 'utf_to_utf<char16_t,char>(stop) changed the code points')
        return None
    if op == 'c168':
        u = units_of(c[1])
        cps = ref16_cps(u)
        skip = unhex(o[1])
        sk = ref_cps(skip)
        if sk is None:
            return ('utf16-to-utf8-output-invalid', 'utf_to_utf<char,char16_t>(skip) produced malformed UTF-8')
        if cps is not None and sk != cps:
            return ('utf16-to-utf8-changes-code-points', 'utf_to_utf<char,char16_t> changed the code points of well-formed text')
        if (o[2] == 'throw') != (cps is None):
            return ('utf16-to-utf8-stop-wrong', 'utf_to_utf<char,char16_t>(stop) %s' % ('threw on valid text' if cps is not None else 'accepted ill-formed text'))
        if cps is not None and ref_cps(unhex(o[2])) != cps:
            return ('utf16-to-utf8-changes-code-points', 'utf_to_utf<char,char16_t>(stop) changed the code points')
        return None


def skip_bad_utf8(s, i):
    """where the support library's decoder resumes after an ill-formed sequence at i: after the lead byte when it is no lead byte, else after
    the first byte that is not a trail byte (that byte is consumed), or after all the trail bytes that were read"""
    a = s[i]
    need = 0 if a < 0x80 else -1 if a < 0xC2 else 1 if a < 0xE0 else 2 if a < 0xF0 else 3 if a <= 0xF4 else -1
    i += 1
    if need < 0:
        return i
    for _ in range(need):
        if i >= len(s):
            return i
        b = s[i]
        i += 1
        if not (0x80 <= b <= 0xBF):
            return i
    return i


_CP1254 = []


def _cp1254_ref():
    if not _CP1254:
        for b in range(256):
            if b in (9, 10, 13):
                ok = True
            elif b < 0x20 or b == 0x7F:
                ok = False
            elif b < 0x7F:
                ok = True
            else:
                try:
                    ch = ord(bytes([b]).decode('cp1254'))
                    ok = not (0x80 <= ch <= 0x9F)
                except UnicodeDecodeError:
                    ok = False
            _CP1254.append(ok)
    return _CP1254


def nontrivial(case, out):
    c = case.split()
    op = c[0]
    if op in ('grid', 'sb1', 'sb2', 'cmp', 'd16', 'c168', 'fls'):
        return True
    if op == 'e16':
        return int(c[1], 16) >= 0x80
    if op == 'enc':
        return int(c[1], 16) >= 0x80
    if c[-1] == '-':
        return False
    s = unhex(c[-1])
    if op == 'flt':
        return 'filtered' in out
    return any(b >= 0x80 or (b < 0x20) or b == 0x7F for b in s)


def classify(case, out):
    c = case.split()
    op = c[0]
    if op == 'nx':
        n = 0 if c[1] == '-' else len(c[1]) // 2
        return 'nx:len%s:%s' % (n if n < 5 else '5+', 'cp' if ':' in out.split('/')[0] else 'illegal')
    if op in ('val', 'vu8', 'vnm'):
        return op + (':valid' if out.split()[1] == '1' else ':invalid')
    if op == 'flt':
        return 'flt:' + ('utf8' if norm_name(unhex(c[1])) == 'utf8' else 'single-byte') + ':' + out.split()[1]
    if op == 'u2u':
        return 'u2u:' + ('throw' if out.endswith('throw') else 'ok')
    if op == 'cmp':
        return 'cmp:' + out.split()[-1]
    if op == 'd16':
        t = out.split()[1]
        return 'd16:' + ('cp%s' % t.split(':')[1] if ':' in t else t[0])
    if op in ('c168', 'c816'):
        return op + ':' + ('throw' if out.endswith('throw') else 'ok')
    return op


# ------------------------------------------------------------------------------------------------
# thorough tier: native exhaustive sweep, coqchk
# ------------------------------------------------------------------------------------------------
def sweep_expect():
    """expected (accepted, accepted in HTML mode, sum of code points) per sweep case, from Python's own encoder over all scalar values"""
    # stats[(lead, second or None)][len] = [count, html_count, cp_sum]
    st = {}
    for cp in itertools.chain(range(0, 0xD800), range(0xE000, 0x110000)):
        e = chr(cp).encode('utf-8')
        key = (e[0], e[1] if len(e) > 1 else None)
        d = st.setdefault(key, {}).setdefault(len(e), [0, 0, 0])
        d[0] += 1
        d[1] += 1 if html_safe(cp) else 0
        d[2] += cp
    exp = {}
    for lead in range(256):
        # 1..3 bytes available, prefix = [lead]
        for avail in (1, 2, 3):
            a = h = sm = 0
            for (l0, l1), d in st.items():
                if l0 != lead:
                    continue
                for ln, (cnt, hc, cs) in d.items():
                    if ln <= avail:
                        w = 256 ** (avail - ln)
                        a += cnt * w
                        h += hc * w
                        sm += cs * w
            exp['sw%d %02x' % (avail, lead)] = (256 ** (avail - 1), a, h, sm)
        for second in range(256):
            a = h = sm = 0
            for key in ((lead, None), (lead, second)):
                for ln, (cnt, hc, cs) in st.get(key, {}).items():
                    w = 256 ** (4 - max(ln, 2))
                    a += cnt * w
                    h += hc * w
                    sm += cs * w
            exp['sw4 %02x %02x' % (lead, second)] = (65536, a, h, sm)
    return exp


SW_RE = re.compile(r'(sw\d) n=(\d+) acc=(\d+) acch=(\d+) accb=(\d+) sum=(\d+) mism=(\d+) first=(\S+)$')
_SWEXP = {}


def make_sw_oracle(follow):
    def sw_oracle(case, out):
        if out.startswith('<crash'):
            return ('crash-sweep', 'the decoder harness died (AddressSanitizer: read outside the input?) in block %s: %s' % (case, out[:600]))
        m = SW_RE.match(out)
        if not m:
            return ('bad-output-sweep', out[:200])
        n, a, h, b, sm, mism = (int(m.group(i)) for i in range(2, 8))
        if mism:
            follow.append('nx ' + m.group(8))
            return ('utf8-sweep-mismatch', '%d of the %d sequences of block %s are decoded differently from the table-driven reference, first %s' % (
                mism, n, case, m.group(8)))
        if not _SWEXP:
            _SWEXP.update(sweep_expect())
        en, ea, eh, es = _SWEXP[case]
        if (n, a, h, b, sm) != (en, ea, eh, ea, es):
            return ('utf8-sweep-count', 'block totals n/acc/html/booster/sum = %s, expected %s' % ((n, a, h, b, sm), (en, ea, eh, ea, es)))
        return None
    return sw_oracle


ASAN_FLAGS = ['-O0', '-fsanitize=address', '-fno-omit-frame-pointer']   # -O0: at -O1 gcc 12 drops the check of the second byte read (seen with mutation m11)
ASAN_ENV = {'ASAN_OPTIONS': 'detect_leaks=0:abort_on_error=0:exitcode=66'}


def run_sweep(ctx, native4):
    """ASan build: every sequence of length 1..3 on exactly sized heap blocks; native build (thorough): every sequence of length 4"""
    follow = []
    orc = make_sw_oracle(follow)
    t0 = time.time()
    ev0 = ctx.coverage.get('evaluations', 0)
    short = ['sw%d %02x' % (k, a) for k in (1, 2, 3) for a in range(256)]
    # interleave so that the parallel runner gives every worker the same mix of cheap and expensive blocks
    short.sort(key=lambda c: (int(c.split()[1], 16) * 7919) % 256)
    exe, err = vlib.build_harness('C14_sweep_asan', ['C14_sweep.cpp'], link=False, extra=ASAN_FLAGS)
    if not exe:
        ctx.broke('sweep harness (ASan) build failed', err)
        return follow
    # the generic runner parallelises only lists of >= 2000 lines: split by hand
    import concurrent.futures
    parts = [short[i::8] for i in range(8)]
    with concurrent.futures.ThreadPoolExecutor(8) as ex:
        rs = list(ex.map(lambda part: vlib.run_lines(exe, part, env=ASAN_ENV), parts))
    nseq = 0
    for part, (rc, out, errtxt) in zip(parts, rs):
        if len(out) != len(part):
            bad = part[len(out)] if len(out) < len(part) else part[-1]
            ctx.broke('ASan sweep harness produced %d lines for %d blocks (rc=%s)' % (len(out), len(part), rc), errtxt[-3000:])
            r = orc(bad, '<crash rc=%s> %s' % (rc, errtxt[:600].replace('\n', ' | ')))
            ctx.fail(r[0], r[1], bad)
            continue
        for c, o in zip(part, out):
            r = orc(c, o)
            if r:
                ctx.fail(r[0], r[1] + '\n  case: %s\n  impl: %s' % (c, o), c)
            nseq += 256 ** (int(c[2]) - 1)
    ctx.coverage['evaluations'] = ev0 + len(short)
    sw = {'asan_short': {'blocks': len(short), 'sequences': nseq, 'decoder_calls': 3 * nseq, 'wall_s': round(time.time() - t0, 1),
                         'what': 'every byte sequence of length 1, 2 and 3, each on a heap block of exactly its length, through cppcms::utf8::next '
                                 '(both modes) and booster decode built with AddressSanitizer, against the table-driven RFC 3629 reference of '
                                 'harness/C14_sweep.cpp; block totals against totals computed in Python from its own encoder'}}
    if native4:
        t1 = time.time()
        exe4, err = vlib.build_harness('C14_sweep', ['C14_sweep.cpp'], link=False, extra=['-O2'])
        if not exe4:
            ctx.broke('sweep harness build failed', err)
        else:
            cases = ['sw4 %02x %02x' % (a, b) for b in range(256) for a in range(256)]
            vlib.differential(ctx, cases, exe4, None, orc, lambda c, o: True, lambda c, o: c.split()[0])
            sw['native_len4'] = {'blocks': len(cases), 'sequences': 2 ** 32, 'decoder_calls': 3 * 2 ** 32, 'wall_s': round(time.time() - t1, 1),
                                 'what': 'every 4-byte sequence through the same three entry points, natively (-O2), same reference and totals'}
    ctx.coverage['sweep'] = sw
    return follow


AX_RE = re.compile(r'\* Axioms:\s*(.*?)\n\s*\n\* Constants', re.S)


def _coqchk(mods, timeout, lock=False):
    # coqchk only reads .vo files: it runs without the shared build lock (it takes minutes and would block every other
    # build); a .vo rewritten underneath it makes it fail, hence one retry under the lock for our own closure
    cmd = ['coqchk', '-silent', '-o', '-Q', vlib.COQ, 'CppcmsV'] + mods
    if lock:
        with vlib.Lock('coq'):
            p = vlib.sh(cmd, cwd=vlib.COQ, timeout=timeout)
    else:
        p = vlib.sh(cmd, cwd=vlib.COQ, timeout=timeout)
    txt = (p.stdout + p.stderr).decode(errors='replace')
    i = txt.find('CONTEXT SUMMARY')
    return p.returncode, (txt[i:] if i >= 0 else txt[-1500:])


def _coqchk_own():
    t0 = time.time()
    try:
        rc, summ = _coqchk(['CppcmsV.C14.Props'], 900)
        if rc != 0:
            rc, summ = _coqchk(['CppcmsV.C14.Props'], 900, lock=True)
    except Exception as e:
        rc, summ = 99, 'coqchk did not finish: %r' % e
    m = AX_RE.search(summ)
    return {'cmd': 'coqchk -silent -o -Q coq CppcmsV CppcmsV.C14.Props', 'rc': rc,
            'context_summary': [l.strip() for l in summ.split('\n') if l.strip() and not set(l.strip()) <= set('=')],
            'axioms': m.group(1).strip() if m else 'unparsed', 'wall_s': round(time.time() - t0, 1), '_raw': summ}


def _coqchk_project(budget):
    """all compiled modules of the project (other properties are built by other people; informative only).  A directory
    whose .vo files are mutually inconsistent (being rebuilt) is dropped and the rest re-checked, within the time budget."""
    t0 = time.time()
    mods = []
    for f in sorted(glob.glob(os.path.join(vlib.COQ, '*', '*.vo'))):
        rel = os.path.relpath(f, vlib.COQ)[:-3]
        v = os.path.join(vlib.COQ, rel + '.v')
        if os.path.exists(v) and os.path.getmtime(f) >= os.path.getmtime(v):
            mods.append('CppcmsV.' + rel.replace('/', '.'))
    proj = {'rc': None, 'modules_found': len(mods)}
    excluded = []
    while time.time() - t0 < budget - 20:
        try:
            rc2, summ2 = _coqchk(mods, max(20, int(budget - (time.time() - t0))))
        except Exception as e:
            proj.pop('axioms', None)
            proj.update({'rc': None, 'note': 'coqchk over %d compiled modules did not finish within %d s (%s); the closure of C14/Props.vo is '
                                             'checked separately' % (len(mods), budget, type(e).__name__)})
            break
        m2 = AX_RE.search(summ2)
        proj.update({'rc': rc2, 'modules_checked': len(mods), 'axioms': m2.group(1).strip() if m2 else summ2[-600:]})
        if rc2 == 0:
            proj.pop('note', None)
            break
        bad = re.search(r'CppcmsV\.([A-Za-z0-9_]+)\.', summ2)
        if not bad or bad.group(1) in ('C14', 'Base'):
            break
        excluded.append(bad.group(1))
        mods = [x for x in mods if not x.startswith('CppcmsV.%s.' % bad.group(1))]
    proj['excluded_dirs_with_inconsistent_vo'] = excluded
    proj['wall_s'] = round(time.time() - t0, 1)
    return proj


def start_coqchk():
    """coqchk -o: the compiled proofs are re-checked by the independent checker, concurrently with the rest of the run"""
    import concurrent.futures
    ex = concurrent.futures.ThreadPoolExecutor(2)
    own = ex.submit(_coqchk_own)
    proj = ex.submit(_coqchk_project, 400) if os.environ.get('C14_COQCHK_PROJECT', '1') != '0' else None
    return ex, own, proj


def finish_coqchk(ctx, handle):
    ex, own, proj = handle
    info = own.result()
    summ = info.pop('_raw')
    if info['rc'] != 0:
        ctx.broke('coqchk rejected the compiled C14 proofs', summ[-2000:])
    elif info['axioms'] != '<none>':
        ctx.broke('coqchk reports axioms in the closure of C14/Props.vo: ' + info['axioms'][:500])
    if proj is not None:
        info['project'] = proj.result()
    ex.shutdown()
    ctx.coverage['coqchk'] = info


def run(ctx):
    box = {}
    try:
        _run(ctx, box)
    finally:
        if box.get('chk'):
            finish_coqchk(ctx, box.pop('chk'))


def _run(ctx, box):
    errs = gen_c14()
    for n, e in errs:
        ctx.broke('translator cxx2v failed on %s (tie to source broken)' % n, e)
    res = vlib.coq_props('C14')
    ctx.proof(res)
    if not ctx.quick() and ctx.replay_cases is None and not res['failing']:
        box['chk'] = start_coqchk()
    ctx.coverage['trusted_base'] = [
        'Coq 8.16.1 kernel, vm_compute (256-point sweeps); no native_compute',
        'tools/cxx2v.py + clang JSON AST, extended in checks/C14.py (validator loop body -> byte predicate, comparator loop body -> step function, '
        '__builtin_expect, LoopTr: pointer loops of the two filter functions -> segment definitions over an abstract decoder/tester, translate_table: '
        'validators_set constructor -> table, EmitTr: encoders -> list of code units); coq/C14/FilterSem.v (run_loop, emissions, assembly of the '
        'generated segments in source order, shape checked against EXPECT_SEGS); sources: private/utf_iterator.h, private/encoding_validators.h, booster/booster/locale/utf.h, src/encoding.cpp via harness/C14_tu.cpp',
        'extraction: ExtrOcamlBasic only, OCaml 4.13.1',
        'harness/C14_text.cpp, harness/C14_sweep.cpp (table-driven RFC 3629 reference), ocaml/C14_driver.ml, checks/C14.py (generators; oracles use '
        'Python 3 strict UTF-8 decoding, a regular expression transcribed from the RFC 3629 ABNF, and the stdlib code-page tables)',
        'DecTr (decoder bodies -> function of the bytes read at static offsets); FilterSem.run_loop / nx_of (meaning of while / of calling the decoder at a position)',
        'hand model of utf_to_utf, decode_valid, UTF-16 decode/encode, form widget (coq/C14/Defs.v, Defs16.v), tied by correspondence',
        'coq/C14/Spec.v: transcription of the RFC 3629 section 4 ABNF and of the section 3 encoding table']
    ctx.assumptions = ['bytes < 256; char is signed 8-bit and int at least 32 bits on this target (x86-64), as clang reports',
                       'the replacement character of validate_or_filter is absent (0) or itself acceptable (HTML-safe ASCII for UTF-8; a byte the code page '
                       'accepts for single-byte encodings); otherwise only `returns true iff valid` is claimed',
                       'counts do not overflow size_t',
                       'encode is modelled for values below 2^21',
                       'names without a built-in validator (iconv/ICU fall-back) are outside the model']
    exe, err = vlib.build_harness('C14_text', ['C14_text.cpp'])
    if not exe:
        ctx.broke('harness build failed', err)
        return
    mexe, err = vlib.build_model('C14', 'C14_driver.ml', 'c14m')
    if not mexe:
        ctx.broke('model extraction/build failed', err)
    ctx.coverage['rule'] = (
        'cases: op + hex arguments. Exhaustive: every byte sequence of length 0, 1, 2 through the three decoder entry points (nx); boundary grid '
        'lead x second x {00,7F,80,BF,C0,FF}^{0,1,2} (grid; quick: leads C0..FF and 00,7F,80,BF, thorough: all 256 leads); all 256 single bytes for '
        'every table name (sb1) and all 65536 byte pairs for each of the 36 single-byte names (sb2: 256 lines per name, each all 256 second bytes, '
        'compared with the bytes judged alone). Structured/random (seeded): boundary code points with every truncation and +-1 byte neighbours; '
        'strings composed of valid characters (all lengths, boundaries), control characters and 41 kinds of malformed pieces (over-long, surrogate, '
        '> U+10FFFF, F5..FF, lone trail, truncated, bad trail) through validate (both modes, several incoming counts), valid_utf8, valid by name '
        '(spelling variants of every table name incl. embedded NUL), validate_or_filter with replacement in {none, ?, space, X, tab, ~, 01, 7F, 80, FF, '
        'random}, utf_to_utf skip/stop; encode/width for code points up to 2^21; name dispatch incl. near-miss names; form submissions (frm: real '
        'cppcms::form + widgets::text loaded from an http::context, 14 locale names, limits around the code-point count and the byte count, charset '
        'validation on/off; plus exact limit boundaries: n code points of 1..4 bytes each against limits n-1, n, n+1, (n,n) and the same around the byte length); '
        'UTF-16 (d16: all pairs of 16 boundary code units through utf_traits<char16_t>::decode on exactly sized blocks, e16: encode/width, c816 / c168: '
        'utf_to_utf between UTF-8 and UTF-16, skip and stop, on malformed mixes and unit strings with lone / swapped surrogates); '
        'seq: ONE form with three text widgets across several requests (present / empty / absent fields, form.clear(), widget clear, setter, '
        'limits and charset changes, repeated validate(), value()), scenario matrix first-present-then-absent x limits x clear + random histories; '
        'fls: one output string reused across consecutive validate_or_filter calls; '
        'windows-1254/cp1254 (all bytes) and EUC-JP, Shift_JIS, GB2312, GBK, CP936, Big5, EUC-KR, CP866 (safe repertoire, truncations, control characters) '
        'through the iconv/ICU fall-back (oracle only, no model). Every tier: all sequences of '
        'length 1..3 natively under ASan against a table-driven reference (one evaluation per block of 1/256/65536 sequences); thorough adds all 2^32 '
        'sequences of length 4. Non-trivial: the input contains a byte outside printable ASCII (decoders, validators), the filter '
        'had to change the text (flt), a non-ASCII code point (enc); grid/sb1/sb2/cmp lines always. distinct = distinct case lines.')
    ctx.coverage['exhaustive'] = False
    ctx.coverage['exhaustive_parts'] = ['all byte sequences of length 0..2 x 3 decoder entry points', 'all 256 bytes x 37 names', 'all 65536 byte pairs x 36 single-byte names']
    if ctx.replay_cases is not None:
        sw = [c for c in ctx.replay_cases if c.startswith('sw')]
        cases = [c for c in ctx.replay_cases if not c.startswith('sw')]
        if sw:
            sexe, err = vlib.build_harness('C14_sweep_asan', ['C14_sweep.cpp'], link=False, extra=ASAN_FLAGS)
            if not sexe:
                ctx.broke('sweep harness (ASan) build failed', err)
            else:
                vlib.differential(ctx, sw, sexe, None, make_sw_oracle([]), impl_env=ASAN_ENV, parallel=False)
        seqc = [c for c in cases if c.startswith('seq ')]
        cases = [c for c in cases if not c.startswith('seq ')]
        if seqc:
            fexe, err = vlib.build_harness('C14_form', ['C14_form.cpp'], extra=['-I' + os.path.join(vlib.REPO, 'tests')])
            if not fexe:
                ctx.broke('form harness build failed', err)
            else:
                vlib.differential(ctx, seqc, fexe, mexe, seq_oracle)
        frm = [c for c in cases if c.startswith('frm ')]
        cases = [c for c in cases if not c.startswith('frm ')]
        if frm:
            fexe, err = vlib.build_harness('C14_form', ['C14_form.cpp'], extra=['-I' + os.path.join(vlib.REPO, 'tests')])
            if not fexe:
                ctx.broke('form harness build failed', err)
            else:
                vlib.differential(ctx, frm, fexe, mexe, form_oracle)
        fb = [c for c in cases if c.startswith('vnm ') and (norm_name(unhex(c.split()[1])) in ('windows1254', 'cp1254') or norm_name(unhex(c.split()[1])) in FALLBACK_CODECS)]
        cases = [c for c in cases if c not in fb]
        if cases:
            vlib.differential(ctx, cases, exe, mexe, oracle, nontrivial, classify)
        if fb:
            vlib.differential(ctx, fb, exe, None, oracle, nontrivial, classify)
        return
    corpus = vlib.corpus_cases('C14')
    cases = [c for c in corpus if not c.startswith(('seq ', 'frm '))] + gen_cases(ctx)
    vlib.differential(ctx, cases, exe, mexe, oracle, nontrivial, classify)
    fexe, err = vlib.build_harness('C14_form', ['C14_form.cpp'], extra=['-I' + os.path.join(vlib.REPO, 'tests')])
    if not fexe:
        ctx.broke('form harness build failed', err)
    else:
        vlib.differential(ctx, [c for c in corpus if c.startswith('frm ')] + gen_form_cases(ctx), fexe, mexe, form_oracle, lambda c, o: True, lambda c, o: 'frm:' + ' '.join(o.split()[1:3]),
                          what='correspondence model vs form widget')
    if fexe:
        vlib.differential(ctx, [c for c in corpus if c.startswith('seq ')] + gen_seq_cases(ctx), fexe, mexe, seq_oracle, lambda c, o: True,
                          lambda c, o: 'seq:%d-loads%s%s' % (c.count(' L'), ':clear' if (' C' in c or ' c' in c) else '', ':setter' if ' S' in c else ''),
                          what='correspondence model vs one form object across requests')
    fb = gen_fallback_cases(ctx)
    vlib.differential(ctx, fb, exe, None, oracle, nontrivial, lambda c, o: 'fallback:' + classify(c, o), what='fallback (oracle only)')
    ctx.coverage['fallback_oracle_only'] = len(fb)
    follow = run_sweep(ctx, native4=not ctx.quick())
    if follow:
        vlib.differential(ctx, sorted(set(follow))[:50], exe, mexe, oracle, nontrivial, classify)
    ctx.coverage['exhaustive_parts'].append('all byte sequences of length 1..3 (2^24+2^16+2^8) x 3 decoder entry points under AddressSanitizer')
    if not ctx.quick():
        ctx.coverage['exhaustive_parts'].append('thorough: all 2^32 byte sequences of length 4 x 3 decoder entry points, natively')
