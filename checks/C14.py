"""C14 -- text validators accept exactly the well-formed strings of their encoding."""
import os, re, sys, itertools, time, glob, codecs
import vlib
from vlib import hexs, unhex

META = dict(
    property_id='C14',
    design_ref='DESIGN.md section 4, C14',
    technique='Coq proof (case analysis per lead-byte class against the RFC 3629 ABNF as an inductive predicate, induction over strings, '
              '256-point sweeps over source-generated leaf functions) + extracted-model correspondence + reference-decoder oracle; '
              'native 2^32 four-byte sweep in the thorough tier',
    level_text=('Theorems in coq/C14/Props.v, for all byte strings: cppcms::utf8::next (both modes) and booster utf_traits<char>::decode return '
                'a code point exactly on one UTF8-char of the RFC 3629 section 4 ABNF (inductive predicate Seq) followed by an arbitrary rest, '
                'with its scalar value, in HTML mode exactly when the value is no C0 control other than tab/LF/CR, not DEL, no C1 control; what is accepted '
                'is the shortest-form encoding of a scalar value (<= U+10FFFF, no surrogate); a truncated sequence is never accepted; '
                'utf8::validate = true iff the string is *(UTF8-char) (HTML variant: all code points html_safe); the reported count = incoming '
                'count + number of code points of the unique decomposition; the two decoders agree on every input (incomplete collapsed to illegal, '
                'same iterator position); encode/decode are inverse on valid data. Single-byte: for all 17 validator bodies GENERATED from '
                'private/encoding_validators.h (36 table names): 0x20..0x7E, tab, LF, CR accepted, other C0 and DEL rejected, C1 rejected for '
                'every ISO-8859 name; valid(a++b) = valid a && valid b; encoding::valid by name = forallb of the generated predicate with count = '
                'length. validate_or_filter (UTF-8 and single-byte): returns true iff the input is valid, else the output is valid (for no replacement '
                'or an acceptable replacement character), idempotent, only deletes when there is no replacement. booster utf_to_utf<char,char>: skip yields '
                'well-formed text (a subsequence, identity on well-formed input), stop throws iff malformed. Form text widgets (form.cpp base_text): '
                'valid iff the value is valid for the locale encoding and the number of code points is within the limits. Encoding names: equivalent '
                'iff equal after normalisation; comparator is a strict weak order. Leafs utf::valid, is_trail, trail_length, width (both copies), the 17 loop bodies '
                'and the name-normalisation step are regenerated from source on every run and proved equal to the model leafs.'),
    level_note=('Trusted: Coq kernel + vm_compute; cxx2v translator (extended in checks/C14.py for the validator loop shape) and clang AST; '
                'ExtrOcamlBasic extraction; the decoder switch/loops, validators_set table, validate_or_filter loops are modelled by hand and '
                'tied by correspondence (all 1- and 2-byte sequences, boundary grid of 3/4-byte sequences, all 256 bytes and all byte pairs per '
                'name, composed random strings, form submissions through a real http::context), every tier: every 1..3-byte sequence natively under ASan '
                'against a table-driven reference, thorough tier: every 4-byte sequence as well. Oracles use '
                'Python 3 strict UTF-8 and the stdlib code-page tables as references. Not covered: iconv/ICU fall-back for names without a '
                'built-in validator (oracle-only samples for windows-1254), the std::locale -> encoding-name step of valid(locale,...) '
                '(exercised for 14 locale names, not modelled), the file-name validation of the upload widget.'),
)

# ------------------------------------------------------------------------------------------------
# T: leaf functions regenerated from the current headers (extends tools/cxx2v.py in this file only)
# ------------------------------------------------------------------------------------------------
SB_VALIDATORS = [  # C++ template name in private/encoding_validators.h -> generated Coq name
    ('ascii_valid', 'g_sb_ascii'),
    ('iso_8859_1_2_4_5_9_10_13_14_15_16_valid', 'g_sb_iso_generic'),
    ('iso_8859_3_valid', 'g_sb_iso_3'), ('iso_8859_6_valid', 'g_sb_iso_6'), ('iso_8859_7_valid', 'g_sb_iso_7'),
    ('iso_8859_8_valid', 'g_sb_iso_8'), ('iso_8859_11_valid', 'g_sb_iso_11'),
    ('windows_1250_valid', 'g_sb_1250'), ('windows_1251_valid', 'g_sb_1251'), ('windows_1252_valid', 'g_sb_1252'),
    ('windows_1253_valid', 'g_sb_1253'), ('windows_1254_valid', 'g_sb_1254'), ('windows_1255_valid', 'g_sb_1255'),
    ('windows_1256_valid', 'g_sb_1256'), ('windows_1257_valid', 'g_sb_1257'), ('windows_1258_valid', 'g_sb_1258'),
    ('koi8_valid', 'g_sb_koi8'),
]


def _strip(n):
    while n['kind'] in ('ImplicitCastExpr', 'ParenExpr', 'ExprWithCleanups', 'MaterializeTemporaryExpr'):
        n = n['inner'][0]
    return n


def _walk(n, f, parents=()):
    if not isinstance(n, dict):
        return
    f(n, parents)
    for c in n.get('inner', []) or []:
        _walk(c, f, parents + (n,))


def _has_body(n):
    return any(c.get('kind') == 'CompoundStmt' for c in n.get('inner', []) or [])


def make_translators():
    import cxx2v
    U = cxx2v.Unsupported

    class Tr14(cxx2v.Tr):
        """cxx2v.Tr + __builtin_expect(x, k) = x"""
        def expr(self, n):
            if n['kind'] == 'CallExpr':
                callee = _strip(n['inner'][0])
                if callee['kind'] == 'DeclRefExpr' and callee['referencedDecl'].get('name') == '__builtin_expect':
                    return self.expr(n['inner'][1])
            return super().expr(n)

    class PredTr(Tr14):
        """body of a per-byte validation loop
               while(p!=e) { count++; unsigned c=(unsigned char)*p++; ... continue; ... return false; ... }
           -> byte -> bool  (true: the loop goes on to the next byte, false: the function returns false)"""
        byte = None

        def expr(self, n):
            if n['kind'] == 'UnaryOperator' and n.get('opcode') == '*':
                s = _strip(n['inner'][0])
                if s['kind'] == 'UnaryOperator' and s.get('opcode') == '++' and s.get('isPostfix') \
                        and _strip(s['inner'][0])['kind'] == 'DeclRefExpr' and tuple(cxx2v.tyinfo(n['type'])) == ('s', 8):
                    if self.byte is None:
                        raise U('second read of the input in one loop iteration')
                    b, self.byte = self.byte, None
                    return b
            return super().expr(n)

        def stmts(self, ss, brk=None, void=False):
            if not ss and brk is None:
                return 'true'
            if ss:
                k = ss[0]['kind']
                if k == 'ContinueStmt':
                    return 'true'
                if k == 'ReturnStmt':
                    e = self.expr(ss[0]['inner'][0])
                    if e != 'false':
                        raise U('return of something other than false inside a validator loop')
                    return 'false'
            return super().stmts(ss, brk, void)

    def translate_validator(fd, coqname):
        """checks the shape  { while(p!=e){ count++; <body> } return true; }  and translates <body>"""
        body = [c for c in fd['inner'] if c['kind'] == 'CompoundStmt'][0]
        top = body.get('inner', [])
        if len(top) != 2 or top[0]['kind'] != 'WhileStmt' or top[1]['kind'] != 'ReturnStmt' \
                or _strip(top[1]['inner'][0]).get('value') is not True:
            raise U('%s: not of the form while(...){...} return true;' % coqname)
        cond, lbody = top[0]['inner'][0], top[0]['inner'][-1]
        if cond['kind'] != 'BinaryOperator' or cond['opcode'] != '!=' or \
                [_strip(x).get('referencedDecl', {}).get('name') for x in cond['inner']] != ['p', 'e']:
            raise U('%s: loop condition is not p!=e' % coqname)
        tr = PredTr('', {}, {})
        tr.consts = {}
        ss = tr.flatten(lbody)
        first = ss[0] if ss else {}
        if first.get('kind') != 'UnaryOperator' or first.get('opcode') != '++' or \
                _strip(first['inner'][0]).get('referencedDecl', {}).get('name') != 'count':
            raise U('%s: loop body does not start with count++' % coqname)
        tr.byte = '(wraps 8 byte)'
        code = tr.stmts(ss[1:])
        if tr.byte is not None:
            raise U('%s: loop body never reads *p++' % coqname)
        return 'Definition %s (byte : Z) : bool :=\n  %s.\n' % (coqname, code)

    class StepTr(Tr14):
        """body of encodings_comparator::next's loop: while(*p!=0){ char c=*p++; ... return <char>; ... }
           -> byte -> Z  (the returned character, or -1 when the loop moves on to the next byte)"""
        def stmts(self, ss, brk=None, void=False):
            if not ss and brk is None:
                return '(-1)'
            return super().stmts(ss, brk, void)

    def translate_step(fd, coqname):
        loops = []
        cxx2v.find_loops(fd, loops)
        if len(loops) != 1:
            raise U('%s: expected exactly one loop' % coqname)
        cond = loops[0]['inner'][0]
        # while(*p != 0)
        ok = cond['kind'] == 'BinaryOperator' and cond['opcode'] == '!=' and \
            _strip(cond['inner'][1]).get('kind') == 'IntegerLiteral' and _strip(cond['inner'][1]).get('value') == '0' and \
            _strip(cond['inner'][0]).get('kind') == 'UnaryOperator' and _strip(cond['inner'][0]).get('opcode') == '*'
        if not ok:
            raise U('%s: loop condition is not *p!=0' % coqname)
        tr = StepTr('', {}, {})
        tr.consts = {}
        ss = tr.flatten(loops[0]['inner'][-1])
        vd = ss[0]['inner'][0] if ss and ss[0]['kind'] == 'DeclStmt' else {}
        init = _strip(vd.get('inner', [{}])[0]) if vd.get('inner') else {}
        if vd.get('kind') != 'VarDecl' or tuple(cxx2v.tyinfo(vd['type'])) != ('s', 8) or init.get('opcode') != '*':
            raise U('%s: loop body does not start with char c=*p++' % coqname)
        nm = tr.fresh(vd['name'])
        tr.ids[vd['id']] = nm
        code = tr.stmts(ss[1:])
        # statement after the loop must be `return 0`
        body = [c for c in fd['inner'] if c['kind'] == 'CompoundStmt'][0]['inner']
        if body[-1]['kind'] != 'ReturnStmt' or _strip(body[-1]['inner'][0]).get('value') != '0':
            raise U('%s: function does not end with return 0' % coqname)
        return 'Definition %s (byte : Z) : Z :=\n  let %s := wraps 8 byte in %s.\n' % (coqname, nm, code)

    def translate_plain(fd, coqname, known):
        tr_cls = cxx2v.Tr
        cxx2v.Tr = Tr14
        try:
            return cxx2v.translate_function(fd, coqname, known, {}, {})
        finally:
            cxx2v.Tr = tr_cls

    return cxx2v, translate_validator, translate_step, translate_plain


def gen_c14():
    """writes coq/gen/Gen_C14.v from the current headers and src/encoding.cpp; returns [(name, error)]"""
    cxx2v, translate_validator, translate_step, translate_plain = make_translators()
    out = os.path.join(vlib.COQ, 'gen', 'Gen_C14.v')
    tu = os.path.join(vlib.VERIF, 'harness', 'C14_tu.cpp')
    lines = ['(* GENERATED by checks/C14.py (tools/cxx2v.py) from private/utf_iterator.h, private/encoding_validators.h,',
             '   booster/booster/locale/utf.h and src/encoding.cpp of the checked tree -- do not edit *)',
             'From Coq Require Import ZArith List Bool.', 'From CppcmsV Require Import Base.CSem.',
             'Local Open Scope Z_scope.', 'Import ListNotations.', '']
    try:
        incs = vlib.repo_incs()

        def decls(filt, kind, name, src=tu, pred=None):
            objs = cxx2v.run_clang(src, filt, incs)
            found = []

            def f(n, parents):
                if n.get('kind') == kind and n.get('name') == name and _has_body(n) and (pred is None or pred(n, parents)):
                    found.append(n)
            for o in objs:
                _walk(o, f)
            if not found:
                raise cxx2v.Unsupported('%s %s not found (filter %s)' % (kind, name, filt))
            return found[0]

        # 1. cppcms leaf functions of the UTF-8 decoder (private/utf_iterator.h)
        lines.append(translate_plain(decls('utf::valid', 'FunctionDecl', 'valid'), 'g_utf_valid', {}))
        for cxx, coq in [('is_trail', 'g_is_trail'), ('trail_length', 'g_trail_length'), ('width', 'g_width')]:
            lines.append(translate_plain(decls('utf8::' + cxx, 'FunctionDecl', cxx), coq, {}))
        # 2. the support library's copies (booster/locale/utf.h), instantiated for char
        lines.append(translate_plain(decls('is_valid_codepoint', 'FunctionDecl', 'is_valid_codepoint'), 'g_b_is_valid_codepoint', {}))

        def in_char_spec(n, parents):
            for p in parents:
                if p.get('kind') == 'ClassTemplateSpecializationDecl':
                    targs = [c for c in p.get('inner', []) if c.get('kind') == 'TemplateArgument']
                    return len(targs) == 2 and targs[0].get('type', {}).get('qualType') == 'char' and str(targs[1].get('value')) == '1'
            return False
        known = {}
        for cxx, coq in [('trail_length', 'g_b_trail_length'), ('width', 'g_b_width'), ('is_trail', 'g_b_is_trail'),
                         ('is_lead', 'g_b_is_lead')]:
            lines.append(translate_plain(decls('utf_traits', 'CXXMethodDecl', cxx, pred=in_char_spec), coq, dict(known)))
            known[cxx] = coq
        # 3. single-byte validators: the per-byte loop body as a predicate
        def is_inst(n, parents):
            return 'const char *' in n.get('type', {}).get('qualType', '')
        for cxx, coq in SB_VALIDATORS:
            lines.append(translate_validator(decls(cxx, 'FunctionDecl', cxx, pred=is_inst), coq))
        # 4. encoding-name normalisation step (src/encoding.cpp: encodings_comparator::next)
        enc_src = os.path.join(vlib.REPO, 'src', 'encoding.cpp')
        lines.append(translate_step(decls('encodings_comparator::next', 'CXXMethodDecl', 'next', src=enc_src), 'g_enc_name_step'))
        txt = '\n'.join(lines) + '\n'
        err = []
    except cxx2v.Unsupported as e:
        txt = '(* translator failed: %s *)\nDefinition broken : False := I.\n' % str(e).replace('*)', '* )').replace('"', "'")
        err = [('Gen_C14', str(e))]
    with vlib.Lock('gen-Gen_C14'):
        vlib.write_if_changed(out, txt)
    return err


# ------------------------------------------------------------------------------------------------
# references used by the oracles (independent of model and implementation)
# ------------------------------------------------------------------------------------------------
# RFC 3629 section 4, UTF8-char
U8CHAR = re.compile(rb'[\x00-\x7F]|[\xC2-\xDF][\x80-\xBF]|\xE0[\xA0-\xBF][\x80-\xBF]|[\xE1-\xEC][\x80-\xBF]{2}|'
                    rb'\xED[\x80-\x9F][\x80-\xBF]|[\xEE\xEF][\x80-\xBF]{2}|\xF0[\x90-\xBF][\x80-\xBF]{2}|'
                    rb'[\xF1-\xF3][\x80-\xBF]{3}|\xF4[\x80-\x8F][\x80-\xBF]{2}', re.S)


def html_safe(c):
    return c in (9, 10, 13) or (c >= 0x20 and c != 0x7F and not (0x80 <= c <= 0x9F))


def ref_next(s):
    """(code point, length) of the UTF8-char at the start of s, or None"""
    m = U8CHAR.match(s)
    if not m:
        return None
    return ord(m.group(0).decode('utf-8')), m.end()


def ref_cps(s):
    """list of code points when s is well-formed UTF-8 (Python strict decoder = RFC 3629), else None"""
    try:
        return [ord(ch) for ch in s.decode('utf-8')]
    except UnicodeDecodeError:
        return None


def ref_valid(s, html):
    cps = ref_cps(s)
    if cps is None:
        return None
    if html and not all(html_safe(c) for c in cps):
        return None
    return len(cps)


def why_malformed(s):
    """names the class of malformed sequence at the start of s (for finding keys)"""
    if not s:
        return 'empty'
    a = s[0]
    if 0x80 <= a <= 0xBF:
        return 'lone-trail-byte'
    if a in (0xC0, 0xC1):
        return 'overlong-2'
    if a >= 0xF5:
        return 'lead-above-f4'
    need = 2 if a < 0xE0 else 3 if a < 0xF0 else 4
    t = s[1:need]
    if any(not (0x80 <= x <= 0xBF) for x in t):
        return 'bad-trail-byte'
    if len(s) < need:
        return 'truncated'
    if a == 0xE0 and s[1] < 0xA0:
        return 'overlong-3'
    if a == 0xF0 and s[1] < 0x90:
        return 'overlong-4'
    if a == 0xED and s[1] >= 0xA0:
        return 'surrogate'
    if a == 0xF4 and s[1] >= 0x90:
        return 'above-10ffff'
    return 'other'


def norm_name(b):
    """encodings_comparator: letters (lower-cased) and digits up to the first NUL"""
    out = []
    for c in b:
        if c == 0:
            break
        if 48 <= c <= 57 or 97 <= c <= 122:
            out.append(c)
        elif 65 <= c <= 90:
            out.append(c + 32)
    return bytes(out).decode('ascii')


# normalised table name -> Python codec holding the code page (None: ASCII, 'utf8': the UTF-8 validator)
TABLE = {'latin1': 'iso8859-1', 'utf8': 'utf8', 'usascii': None, 'ascii': None, 'koi8r': 'koi8-r', 'koi8u': 'koi8-u'}
for _n in (1, 2, 3, 4, 5, 6, 7, 8, 9, 10, 11, 13, 14, 15, 16):
    TABLE['iso8859%d' % _n] = 'iso8859-%d' % _n
for _n in (1250, 1251, 1252, 1253, 1255, 1256, 1257, 1258):
    TABLE['windows%d' % _n] = 'cp%d' % _n
    TABLE['cp%d' % _n] = 'cp%d' % _n
ISO_NAMES = set(n for n in TABLE if n.startswith('iso8859') or n == 'latin1')
_SBREF = {}


def sb_ref(nname):
    """256 booleans: the byte is text in this code page: tab, LF, CR or a printable ASCII character, or a byte above 0x7F that
    the code page assigns (Python's stdlib tables, generated from the Unicode mapping files) to something that is not a control"""
    if nname not in _SBREF:
        codec = TABLE[nname]
        r = []
        for b in range(256):
            if b in (9, 10, 13):
                ok = True
            elif b < 0x20 or b == 0x7F:
                ok = False
            elif b < 0x7F:
                ok = True
            elif codec is None:
                ok = False
            else:
                try:
                    ch = ord(bytes([b]).decode(codec))
                    ok = not (0x80 <= ch <= 0x9F)
                except UnicodeDecodeError:
                    ok = False
            r.append(ok)
        _SBREF[nname] = r
    return _SBREF[nname]


def bits_to_bools(h, n=256):
    v = int(h, 16)
    return [bool((v >> (n - 1 - i)) & 1) for i in range(n)]


def ref_filter_utf8(s, repl):
    """token-wise image (Props.filter_utf8_tokenwise): HTML-safe UTF8-char copied, unsafe UTF8-char replaced as a whole, and where
    no UTF8-char starts one byte replaced"""
    out = bytearray()
    rp = bytes([repl]) if repl else b''
    i = 0
    while i < len(s):
        m = U8CHAR.match(s, i)
        if m:
            if html_safe(ord(m.group(0).decode('utf-8'))):
                out += m.group(0)
            else:
                out += rp
            i = m.end()
        else:
            out += rp
            i += 1
    return bytes(out)


def is_subseq(o, s):
    it = iter(s)
    return all(any(x == y for y in it) for x in o)


# ------------------------------------------------------------------------------------------------
# generators
# ------------------------------------------------------------------------------------------------
GRIDV = [0x00, 0x7F, 0x80, 0xBF, 0xC0, 0xFF]
BOUNDARY_CPS = [0, 1, 8, 9, 10, 11, 12, 13, 14, 0x1F, 0x20, 0x7E, 0x7F, 0x80, 0x85, 0x9F, 0xA0, 0xFF, 0x7FF, 0x800, 0xFFF, 0x1000,
                0xCFFF, 0xD000, 0xD7FF, 0xE000, 0xFFFD, 0xFFFE, 0xFFFF, 0x10000, 0x3FFFF, 0x40000, 0xFFFFF, 0x100000, 0x10FFFF]
BAD_PIECES = [b'\x80', b'\xbf', b'\xc0\x80', b'\xc1\xbf', b'\xc2', b'\xc2\x7f', b'\xc2\xc0', b'\xdf', b'\xe0\x80\x80', b'\xe0\x9f\xbf',
              b'\xe0\xa0', b'\xe0', b'\xe2\x82', b'\xe2\x28\xa1', b'\xe2\x82\x28', b'\xed\xa0\x80', b'\xed\xbf\xbf', b'\xed\xa0',
              b'\xef\xbf', b'\xf0\x80\x80\x80', b'\xf0\x8f\xbf\xbf', b'\xf0\x90\x80', b'\xf0\x9f\x98', b'\xf0\x9f', b'\xf0',
              b'\xf0\x28\x8c\xbc', b'\xf0\x90\x28\xbc', b'\xf0\x90\x8c\x28', b'\xf4\x90\x80\x80', b'\xf4\xbf\xbf\xbf', b'\xf4\x8f\xbf',
              b'\xf5\x80\x80\x80', b'\xf7\xbf\xbf\xbf', b'\xf8\x88\x80\x80\x80', b'\xfc\x84\x80\x80\x80\x80', b'\xfe', b'\xff',
              b'\xc0\xaf', b'\xe0\x80\xaf', b'\xf0\x80\x80\xaf', b'\xed\xa0\x80\xed\xb0\x80']
CTRL_PIECES = [bytes([c]) for c in (0, 1, 8, 11, 12, 14, 0x1B, 0x1F, 0x7F)] + [b'\xc2\x80', b'\xc2\x85', b'\xc2\x9f']
TABLE_NAMES = ['latin1', 'iso88591', 'iso88592', 'iso88594', 'iso88595', 'iso88599', 'iso885910', 'iso885913', 'iso885914', 'iso885915',
               'iso885916', 'iso88593', 'iso88596', 'iso88597', 'iso88598', 'iso885911', 'windows1250', 'windows1251', 'windows1252',
               'windows1253', 'windows1255', 'windows1256', 'windows1257', 'windows1258', 'cp1250', 'cp1251', 'cp1252', 'cp1253', 'cp1255',
               'cp1256', 'cp1257', 'cp1258', 'koi8r', 'koi8u', 'utf8', 'usascii', 'ascii']
PRETTY = {'latin1': ['Latin1', 'LATIN-1', 'latin_1'], 'utf8': ['UTF-8', 'utf-8', 'Utf_8', 'UTF8', 'u.t.f.8'], 'usascii': ['US-ASCII', 'us-ascii'],
          'ascii': ['ASCII', 'Ascii'], 'koi8r': ['KOI8-R', 'koi8-r'], 'koi8u': ['KOI8-U']}
UNKNOWN_NAMES = [b'', b'utf', b'utf16', b'utf-16', b'utf88', b'8', b'utf8x', b'xutf8', b'iso885912', b'iso8859', b'iso-8859-17', b'cp1254',
                 b'windows-1254', b'cp125', b'cp12500', b'euc-jp', b'shift_jis', b'koi8', b'koi8-ru', b'latin2', b'latin', b'asci', b'ascii7',
                 b'\x00utf8', b'---', b'u\x00tf8']


def rand_valid_char(rng):
    r = rng.random()
    if r < 0.35:
        c = rng.randrange(0x20, 0x7F)
    elif r < 0.5:
        c = rng.choice(BOUNDARY_CPS)
        if c < 0x20 and c not in (9, 10, 13) or c == 0x7F or 0x80 <= c <= 0x9F:
            c = rng.choice((9, 10, 13, 0xA0))
    elif r < 0.65:
        c = rng.randrange(0xA0, 0x800)
    elif r < 0.85:
        c = rng.randrange(0x800, 0x10000)
        if 0xD800 <= c <= 0xDFFF:
            c = 0xD7FF
    else:
        c = rng.randrange(0x10000, 0x110000)
    return chr(c).encode('utf-8')


def mix(rng, npieces, p_bad, p_ctrl):
    out = []
    for _ in range(npieces):
        r = rng.random()
        if r < p_bad:
            if rng.random() < 0.7:
                out.append(rng.choice(BAD_PIECES))
            else:
                out.append(bytes(rng.getrandbits(8) for _ in range(rng.randrange(1, 4))))
        elif r < p_bad + p_ctrl:
            out.append(rng.choice(CTRL_PIECES))
        else:
            out.append(rand_valid_char(rng))
    return b''.join(out)


def name_variants(rng, base, k):
    """spellings that normalise to the same key: case changes, inserted punctuation/space/high bytes, trailing NUL + junk"""
    out = [base.encode()] + [x.encode() for x in PRETTY.get(base, [])]
    m = re.match(r'(iso8859)(\d+)$', base)
    if m:
        out += [('ISO-8859-' + m.group(2)).encode(), ('Iso_8859_' + m.group(2)).encode()]
    m = re.match(r'(windows|cp)(\d+)$', base)
    if m:
        out += [(m.group(1).upper() + '-' + m.group(2)).encode(), (m.group(1).capitalize() + '_' + m.group(2)).encode()]
    for _ in range(k):
        v = bytearray()
        for ch in base.encode():
            while rng.random() < 0.25:
                v.append(rng.choice(b'-_ .:/\x80\xff\x01@[`{'))
            v.append(ch - 32 if 97 <= ch <= 122 and rng.random() < 0.5 else ch)
        if rng.random() < 0.3:
            v += b'\x00' + bytes(rng.choice(b'abz019-') for _ in range(rng.randrange(0, 4)))
        out.append(bytes(v))
    return out


def sb_string(rng, nname, n, p_bad):
    """a string for a single-byte code page: mostly accepted bytes, some rejected ones"""
    ref = sb_ref(nname)
    good = [b for b in range(256) if ref[b]]
    bad = [b for b in range(256) if not ref[b]]
    return bytes(rng.choice(bad) if rng.random() < p_bad else rng.choice(good) for _ in range(n))


def gen_cases(ctx):
    rng = ctx.rng
    cases = []
    # ---- decoders: exhaustive short sequences, boundary grid ----
    cases.append('nx -')
    for a in range(256):
        cases.append('nx %02x' % a)
    for a in range(256):
        for b in range(256):
            cases.append('nx %02x%02x' % (a, b))
    leads = list(range(0xC0, 0x100)) + [0x00, 0x7F, 0x80, 0xBF] if ctx.quick() else list(range(256))
    for a in leads:
        for b in range(256):
            cases.append('grid %02x %02x' % (a, b))
    # every boundary code point, its neighbours in byte space, every truncation, with a tail
    for c in BOUNDARY_CPS + [0xD800, 0xDBFF, 0xDC00, 0xDFFF, 0x110000, 0x1FFFFF]:
        cases.append('enc %x' % c)
        if c < 0x110000 and not (0xD800 <= c <= 0xDFFF):
            e = chr(c).encode('utf-8')
            for k in range(1, len(e) + 1):
                cases.append('nx ' + hexs(e[:k]))
            for i in range(len(e)):
                for d in (-1, 1):
                    m = bytearray(e)
                    m[i] = (m[i] + d) & 0xFF
                    cases.append('nx ' + hexs(bytes(m) + b'A'))
            cases.append('nx ' + hexs(e + b'\x80'))
    # the unchecked decoder of the support library, on input that starts with a well-formed sequence
    for c in BOUNDARY_CPS:
        if not (0xD800 <= c <= 0xDFFF):
            cases.append('dv ' + hexs(chr(c).encode('utf-8')))
            cases.append('dv ' + hexs(chr(c).encode('utf-8') + b'\xbf\x80'))
    for _ in range(ctx.scale(3000, 30000)):
        cases.append('dv ' + hexs(rand_valid_char(rng) + bytes(rng.getrandbits(8) for _ in range(rng.randrange(0, 3)))))
    for p in BAD_PIECES + CTRL_PIECES:
        cases.append('nx ' + hexs(p))
        cases.append('nx ' + hexs(p + b'\x80\x80'))
    for _ in range(ctx.scale(20000, 400000)):
        r = rng.random()
        if r < 0.4:
            s = rand_valid_char(rng) + bytes(rng.getrandbits(8) for _ in range(rng.randrange(0, 3)))
        elif r < 0.7:
            lead = rng.choice((0xE0, 0xED, 0xF0, 0xF4, 0xC2, 0xDF, 0xE1, 0xEC, 0xEE, 0xEF, 0xF1, 0xF3))
            s = bytes([lead]) + bytes(rng.choice((0x7F, 0x80, 0x8F, 0x90, 0x9F, 0xA0, 0xBF, 0xC0, rng.getrandbits(8))) for _ in range(rng.randrange(0, 5)))
        else:
            s = bytes(rng.getrandbits(8) for _ in range(rng.randrange(1, 6)))
        cases.append('nx ' + hexs(s))
    for _ in range(ctx.scale(3000, 30000)):
        cases.append('enc %x' % rng.choice((rng.randrange(0, 0x800), rng.randrange(0x800, 0x10000), rng.randrange(0x10000, 0x110000),
                                             rng.randrange(0x110000, 0x200000), rng.randrange(0xD7F0, 0xE010))))
    # ---- whole-string validators and counters ----
    for _ in range(ctx.scale(7000, 100000)):
        n = rng.choice((0, 1, 2, 3, 5, 8, 13, 21, 40))
        r = rng.random()
        s = mix(rng, n, 0.0, 0.0) if r < 0.35 else mix(rng, n, 0.0, 0.15) if r < 0.55 else mix(rng, n, 0.12, 0.05)
        if rng.random() < 0.15 and s:
            s = s[:rng.randrange(0, len(s) + 1)]           # cut anywhere (truncation at the end)
        c0 = rng.choice((0, 0, 0, 1, 7, 1000, 2 ** 32 - 1, 2 ** 40))
        h = hexs(s)
        cases.append('val %d %d %s' % (rng.getrandbits(1), c0, h))
        if rng.random() < 0.4:
            cases.append('val 0 %d %s' % (c0, h))
            cases.append('val 1 %d %s' % (c0, h))
        if rng.random() < 0.3:
            cases.append('vu8 %d %s' % (c0, h))
        if rng.random() < 0.3:
            cases.append('u2u ' + h)
    for ln in ([1000, 4096, 65536] if ctx.quick() else [1000, 4096, 65536, 65537, 300000]):
        for pb in (0.0, 0.0005):
            s = mix(rng, ln // 2, pb, 0.0)
            cases.append('val 1 0 ' + hexs(s))
            cases.append('val 0 3 ' + hexs(s + b'\xf0\x9f\x98'))
            cases.append('vu8 0 ' + hexs(s))
    # ---- names: dispatch ----
    for nm in TABLE_NAMES:
        for v in name_variants(rng, nm, ctx.scale(4, 20)):
            cases.append('cmp ' + hexs(v))
    for nm in UNKNOWN_NAMES:
        cases.append('cmp ' + hexs(nm))
    for _ in range(ctx.scale(300, 3000)):
        base = rng.choice(TABLE_NAMES).encode()
        v = bytearray(base)
        r = rng.random()
        if r < 0.4 and v:
            v[rng.randrange(len(v))] = rng.choice(b'0123456789abcxyzABZ-_')
        elif r < 0.7:
            v.insert(rng.randrange(len(v) + 1), rng.choice(b'0123456789abz'))
        elif v:
            del v[rng.randrange(len(v))]
        cases.append('cmp ' + hexs(bytes(v)))
    # ---- single-byte code pages: all bytes, all byte pairs, strings ----
    for nm in TABLE_NAMES:
        for v in name_variants(rng, nm, 1)[:3]:
            cases.append('sb1 ' + hexs(v))
        if nm == 'utf8':
            continue
        for a in range(256):
            cases.append('sb2 %s %02x' % (hexs(nm.encode()), a))
        for v in name_variants(rng, nm, 2):
            for _ in range(ctx.scale(6, 40)):
                n = rng.choice((0, 1, 2, 5, 17, 64))
                s = sb_string(rng, nm, n, rng.choice((0.0, 0.0, 0.05, 0.3)))
                cases.append('vnm %s %d %s' % (hexs(v), rng.choice((0, 0, 5, 2 ** 33)), hexs(s)))
            for _ in range(ctx.scale(6, 40)):
                n = rng.choice((0, 1, 2, 5, 17, 64))
                s = sb_string(rng, nm, n, rng.choice((0.0, 0.05, 0.3, 1.0)))
                ref = sb_ref(nm)
                okb = [b for b in range(256) if ref[b]]
                repl = rng.choice((0, 0, 0x3F, 0x20, rng.choice(okb), rng.getrandbits(8)))
                cases.append('flt %s %02x %s' % (hexs(v), repl, hexs(s)))
    # ---- UTF-8 by name and the UTF-8 filter ----
    u8names = name_variants(rng, 'utf8', 6)
    for _ in range(ctx.scale(2500, 30000)):
        s = mix(rng, rng.choice((0, 1, 2, 3, 8, 20)), rng.choice((0.0, 0.1, 0.3)), rng.choice((0.0, 0.1)))
        cases.append('vnm %s %d %s' % (hexs(rng.choice(u8names)), rng.choice((0, 0, 9)), hexs(s)))
    for _ in range(ctx.scale(9000, 120000)):
        n = rng.choice((0, 1, 2, 3, 4, 6, 10, 25))
        r = rng.random()
        s = mix(rng, n, 0.0, 0.0) if r < 0.15 else mix(rng, n, 0.25, 0.1) if r < 0.7 else mix(rng, n, 0.7, 0.2)
        if rng.random() < 0.2 and s:
            s = s[:rng.randrange(0, len(s) + 1)]
        repl = rng.choice((0, 0, 0, 0x3F, 0x3F, 0x20, 0x58, 0x09, 0x7E, 0x01, 0x7F, 0x80, 0xFF, rng.getrandbits(8)))
        cases.append('flt %s %02x %s' % (hexs(rng.choice(u8names)), repl, hexs(s)))
    for ln in ([2000] if ctx.quick() else [2000, 8000]):
        s = mix(rng, ln // 2, 0.01, 0.01)
        cases.append('flt 75746638 3f ' + hexs(s))
        cases.append('flt 75746638 00 ' + hexs(s))
    return cases


FORM_LOCALES = [b'en_US.UTF-8', b'en_US.utf8', b'de_DE.UTF-8@euro', b'ja_JP.Utf-8', b'en_US.ISO8859-1', b'he_IL.ISO8859-8', b'ar_EG.iso88596',
                b'ru_RU.CP1251', b'ru_RU.KOI8-R', b'el_GR.windows-1253', b'en_US.windows-1252', b'C', b'en_US', b'en_US.US-ASCII']


def locale_encoding(loc):
    """booster::locale::util::locale_data: lang_COUNTRY.encoding@variant; no encoding given = us-ascii"""
    if b'.' not in loc:
        return 'usascii'
    return norm_name(loc.split(b'.', 1)[1].split(b'@')[0])


def gen_form_cases(ctx):
    rng = ctx.rng
    cases = []
    for _ in range(ctx.scale(2500, 25000)):
        loc = rng.choice(FORM_LOCALES)
        enc = locale_encoding(loc)
        n = rng.choice((0, 1, 2, 3, 4, 5, 8))
        if enc == 'utf8':
            r = rng.random()
            v = mix(rng, n, 0.0, 0.0) if r < 0.6 else mix(rng, n, 0.0, 0.3) if r < 0.75 else mix(rng, n, 0.3, 0.0)
            ncp = len(v.decode('utf-8', 'replace'))
        else:
            v = sb_string(rng, enc, n, rng.choice((0.0, 0.0, 0.2)))
            ncp = len(v)
        # limits around the number of code points and around the number of bytes
        piv = rng.choice((ncp, len(v)))
        low = max(0, piv + rng.choice((-1, 0, 0, 1, -piv)))
        high = rng.choice((-1, piv - 1, piv, piv, piv + 1, len(v)))
        if high < -1:
            high = -1
        cs = 0 if rng.random() < 0.15 else 1
        cases.append('frm %s %d %d %d %s' % (hexs(loc), low, high, cs, hexs(v)))
    return cases


def form_oracle(case, out):
    c = case.split()
    o = out.split()
    if out.startswith('<crash'):
        return ('crash-frm', 'form harness died: ' + out)
    if len(o) != 4 or o[0] != 'frm' or o[1] not in '01':
        return ('bad-output-frm', 'unexpected harness answer ' + out[:200])
    loc, low, high, cs, v = unhex(c[1]), int(c[2]), int(c[3]), c[4] == '1', unhex(c[5])
    enc = locale_encoding(loc)
    if unhex(o[3]) != v:
        return ('form-value-changed', 'the widget holds a different value than was submitted')
    if not cs:
        valid, n = True, len(v)
    elif enc == 'utf8':
        n = ref_valid(v, True)
        valid = n is not None
    elif enc in TABLE:
        ref = sb_ref(enc)
        valid, n = all(ref[b] for b in v), len(v)
    else:
        return None
    if (o[2] == '1') != valid:
        return ('form-text-charset', 'text widget (%s) %s a value that is %s' % (enc, 'accepted' if o[2] == '1' else 'rejected', 'invalid' if not valid else 'valid'))
    exp = valid and low <= n and (high < 0 or n <= high)
    if (o[1] == '1') != exp:
        return ('form-text-length-limit', 'text widget with limits %d..%d %s a valid value of %s characters (%d bytes)' % (
            low, high, 'accepted' if o[1] == '1' else 'rejected', n, len(v)))
    return None


def gen_fallback_cases(ctx):
    """names without a built-in validator go through iconv/ICU (not modelled): oracle only"""
    rng = ctx.rng
    cases = []
    for nm in (b'windows-1254', b'cp1254'):
        for b in range(256):
            cases.append('vnm %s 0 %02x' % (hexs(nm), b))
        for _ in range(ctx.scale(50, 500)):
            s = bytes(rng.getrandbits(8) if rng.random() < 0.1 else rng.randrange(0x20, 0x7F) for _ in range(rng.randrange(0, 30)))
            cases.append('vnm %s 4 %s' % (hexs(nm), hexs(s)))
    return cases


# ------------------------------------------------------------------------------------------------
# oracle: the property evaluated on the implementation's answer alone
# ------------------------------------------------------------------------------------------------
def check_three(s, txt):
    parts = txt.split('/')
    if len(parts) != 3:
        return ('bad-output-nx', 'unexpected decoder answer ' + txt)
    ref = ref_next(s)
    res = []
    for part in parts:
        if ':' in part:
            cp, k = part.split(':')
            res.append((int(cp, 16), int(k)))
        elif part[:1] in ('i', 'n'):
            res.append(None)
        else:
            return ('bad-output-nx', 'unexpected decoder answer ' + txt)
    names = ('cppcms::utf8::next(html=false)', 'cppcms::utf8::next(html=true)', 'booster utf_traits<char>::decode')
    for i in (0, 2, 1):
        expect = ref if (i != 1 or (ref and html_safe(ref[0]))) else None
        got = res[i]
        if got is not None and ref is None:
            return ('utf8-accepts-' + why_malformed(s), '%s returned U+%04X for %s, which is not a UTF8-char of RFC 3629' % (names[i], got[0], s.hex()))
        if got is not None and expect is None:
            return ('utf8-html-accepts-control', '%s returned U+%04X (a C0/C1 control or DEL) in HTML-safe mode' % (names[i], got[0]))
        if got is None and expect is not None:
            return ('utf8-rejects-wellformed', '%s rejected %s = U+%04X' % (names[i], s[:ref[1]].hex(), ref[0]))
        if got is not None and got != expect:
            return ('utf8-wrong-code-point', '%s returned U+%04X consuming %d bytes for %s (expected U+%04X, %d bytes)' % (
                names[i], got[0], got[1], s.hex(), expect[0], expect[1]))
    if (res[0] is None) != (res[2] is None) or (res[0] and res[0] != res[2]):
        return ('decoders-disagree', 'the framework decoder and the support-library decoder disagree on ' + s.hex())
    if parts[2].startswith('n') and len(s) >= 4:
        return ('incomplete-with-4-bytes', 'support-library decoder reports incomplete although four bytes were available')
    return None


def grid_seqs(a, b):
    out = [bytes([a, b])]
    out += [bytes([a, b, c]) for c in GRIDV]
    out += [bytes([a, b, c, d]) for c in GRIDV for d in GRIDV]
    return out


def oracle(case, out):
    c = case.split()
    o = out.split()
    op = c[0]
    if out.startswith('<crash'):
        return ('crash-' + op, 'harness died on this input: ' + out)
    if len(o) < 2 or o[0] != op or 'BAD-CASE' in out:
        return ('bad-output-' + op, 'unexpected harness answer ' + out[:200])
    if 'PATHS-DIFFER' in out:
        return (op + '-entry-points-differ', 'two entry points of the same function disagree: ' + out[:200])
    if op == 'nx':
        return check_three(unhex(c[1]), o[1])
    if op == 'dv':
        s = unhex(c[1])
        ref = ref_next(s)
        if ref is None:
            return None          # undefined behaviour of the unchecked decoder: never generated
        if o[1] != '%x:%d' % ref:
            return ('decode_valid-wrong', 'utf_traits<char>::decode_valid returned %s for %s (expected U+%04X, %d bytes)' % (o[1], s.hex(), ref[0], ref[1]))
        return None
    if op == 'grid':
        seqs = grid_seqs(int(c[1], 16), int(c[2], 16))
        rs = o[1].split(',')
        if len(rs) != len(seqs):
            return ('bad-output-grid', 'wrong number of answers')
        for s, t in zip(seqs, rs):
            r = check_three(s, t)
            if r:
                return r
        return None
    if op in ('val', 'vu8'):
        html = True if op == 'vu8' else c[1] == '1'
        c0 = int(c[-2])
        s = unhex(c[-1])
        ok, cnt = o[1] == '1', int(o[2])
        n = ref_valid(s, html)
        if ok and n is None:
            if ref_cps(s) is None:
                return ('validate-accepts-malformed', 'utf8::validate accepted a string that is not well-formed UTF-8')
            return ('validate-html-accepts-control', 'HTML-safe validation accepted a C0/C1 control or DEL')
        if not ok and n is not None:
            return ('validate-rejects-wellformed', 'utf8::validate rejected a well-formed string')
        if ok and cnt != (c0 + n) % 2 ** 64:
            return ('validate-count-wrong', 'reported count %d, expected %d + %d code points' % (cnt, c0, n))
        return None
    if op == 'vnm':
        nn = norm_name(unhex(c[1]))
        c0 = int(c[2])
        s = unhex(c[3])
        ok, cnt = o[1] == '1', int(o[2])
        if nn == 'utf8':
            n = ref_valid(s, True)
            if ok != (n is not None):
                return ('named-utf8-valid-wrong', 'encoding::valid(utf-8) %s a string that is %s' % ('accepted' if ok else 'rejected', 'invalid' if ok else 'valid'))
            if ok and cnt != c0 + n:
                return ('named-count-wrong', 'count %d, expected %d' % (cnt, c0 + n))
            return None
        if nn == 'windows1254' or nn == 'cp1254':
            ref = _cp1254_ref()
        elif nn in TABLE:
            ref = sb_ref(nn)
        else:
            return None
        exp = all(ref[b] for b in s)
        if ok != exp:
            return ('single-byte-valid-wrong', 'encoding::valid(%s) %s %s' % (nn, 'accepted' if ok else 'rejected', s.hex()))
        if ok and cnt != c0 + len(s):
            return ('named-count-wrong', 'count %d, expected %d' % (cnt, c0 + len(s)))
        return None
    if op == 'sb1':
        nn = norm_name(unhex(c[1]))
        got = bits_to_bools(o[1])
        if nn == 'utf8':
            ref = [b < 0x80 and html_safe(b) for b in range(256)]
        elif nn in TABLE:
            ref = sb_ref(nn)
        else:
            return None
        for b in range(256):
            if got[b] != ref[b]:
                if 0x20 <= b <= 0x7E or b in (9, 10, 13):
                    return ('single-byte-rejects-ascii-text', '%s rejects byte 0x%02x' % (nn, b))
                if b < 0x20:
                    return ('single-byte-accepts-c0', '%s accepts C0 control 0x%02x' % (nn, b))
                if b == 0x7F:
                    return ('single-byte-accepts-del', '%s accepts DEL' % nn)
                if 0x80 <= b <= 0x9F and nn in ISO_NAMES:
                    return ('single-byte-accepts-c1', '%s accepts C1 control 0x%02x' % (nn, b))
                return ('single-byte-code-page-table', '%s %s byte 0x%02x; the code page says otherwise' % (nn, 'accepts' if got[b] else 'rejects', b))
        return None
    if op == 'sb2':
        pair, va, single = bits_to_bools(o[1]), o[2] == '1', bits_to_bools(o[3])
        for b in range(256):
            if pair[b] != (va and single[b]):
                return ('single-byte-context-dependent', 'valid(%s %02x) differs from valid(%s) && valid(%02x)' % (c[2], b, c[2], b))
        return None
    if op == 'enc':
        cp = int(c[1], 16)
        if cp < 0x110000 and not (0xD800 <= cp <= 0xDFFF):
            e = chr(cp).encode('utf-8')
            if unhex(o[1]) != e:
                return ('encode-wrong', 'utf8::encode(U+%04X) = %s' % (cp, o[1]))
            if int(o[2]) != len(e):
                return ('width-wrong', 'utf8::width(U+%04X) = %s' % (cp, o[2]))
        return None
    if op == 'flt':
        nn = norm_name(unhex(c[1]))
        repl = int(c[2], 16)
        s = unhex(c[3])
        if nn == 'utf8':
            valid = ref_valid(s, True) is not None
            good = lambda t: ref_valid(t, True) is not None
            repl_ok = repl == 0 or (repl < 0x80 and html_safe(repl))
        elif nn in TABLE:
            ref = sb_ref(nn)
            valid = all(ref[b] for b in s)
            good = lambda t: all(ref[b] for b in t)
            repl_ok = repl == 0 or ref[repl]
        else:
            return None
        if o[1] == 'valid':
            if len(o) > 2:
                return ('filter-touches-valid-text', 'validate_or_filter returned true but modified the output string')
            if not valid:
                return ('filter-passes-invalid-text', 'validate_or_filter(%s) returned true for invalid text' % nn)
            return None
        if valid:
            return ('filter-rejects-valid-text', 'validate_or_filter(%s) returned false for valid text' % nn)
        t = unhex(o[2])
        if repl_ok and not good(t):
            return ('filter-output-invalid', 'filtered text is not valid %s' % nn)
        if repl == 0 and not is_subseq(t, s):
            return ('filter-invents-bytes', 'filtered text (no replacement character) is not a subsequence of the input')
        if nn != 'utf8' and repl != 0 and len(t) != len(s):
            return ('filter-length', 'single-byte filter with a replacement character changed the length')
        if nn == 'utf8' and t != ref_filter_utf8(s, repl):
            return ('filter-resynchronisation', 'filtered text differs from the token-wise image of the input (valid characters kept, an unsafe '
                    'character replaced as a whole, one byte replaced where no character starts): expected ' + hexs(ref_filter_utf8(s, repl)))
        if nn != 'utf8' and t != b''.join(bytes([b]) if ref[b] else (bytes([repl]) if repl else b'') for b in s):
            return ('filter-bytewise', 'single-byte filter output is not the input with each rejected byte replaced')
        return None
    if op == 'cmp':
        exp = norm_name(unhex(c[1])) in TABLE
        if (o[1] == '1') != exp:
            return ('encoding-name-dispatch', 'is_ascii_compatible(%r) = %s' % (unhex(c[1]), o[1]))
        return None
    if op == 'u2u':
        s = unhex(c[1])
        cps = ref_cps(s)
        skip = unhex(o[1])
        if ref_cps(skip) is None:
            return ('utf_to_utf-output-invalid', 'utf_to_utf<char,char>(skip) produced malformed UTF-8')
        if cps is not None and skip != s:
            return ('utf_to_utf-changes-valid', 'utf_to_utf<char,char>(skip) changed well-formed text')
        if not is_subseq(skip, s):
            return ('utf_to_utf-invents-bytes', 'utf_to_utf<char,char>(skip) output is not a subsequence of the input')
        if (o[2] == 'throw') != (cps is None):
            return ('utf_to_utf-stop-wrong', 'utf_to_utf<char,char>(stop) %s' % ('threw on valid text' if cps is not None else 'accepted malformed text'))
        if cps is not None and unhex(o[2]) != s:
            return ('utf_to_utf-changes-valid', 'utf_to_utf<char,char>(stop) changed well-formed text')
        return None
    return ('bad-case', 'unknown case ' + case[:100])


_CP1254 = []


def _cp1254_ref():
    if not _CP1254:
        for b in range(256):
            if b in (9, 10, 13):
                ok = True
            elif b < 0x20 or b == 0x7F:
                ok = False
            elif b < 0x7F:
                ok = True
            else:
                try:
                    ch = ord(bytes([b]).decode('cp1254'))
                    ok = not (0x80 <= ch <= 0x9F)
                except UnicodeDecodeError:
                    ok = False
            _CP1254.append(ok)
    return _CP1254


def nontrivial(case, out):
    c = case.split()
    op = c[0]
    if op in ('grid', 'sb1', 'sb2', 'cmp'):
        return True
    if op == 'enc':
        return int(c[1], 16) >= 0x80
    if c[-1] == '-':
        return False
    s = unhex(c[-1])
    if op == 'flt':
        return 'filtered' in out
    return any(b >= 0x80 or (b < 0x20) or b == 0x7F for b in s)


def classify(case, out):
    c = case.split()
    op = c[0]
    if op == 'nx':
        n = 0 if c[1] == '-' else len(c[1]) // 2
        return 'nx:len%s:%s' % (n if n < 5 else '5+', 'cp' if ':' in out.split('/')[0] else 'illegal')
    if op in ('val', 'vu8', 'vnm'):
        return op + (':valid' if out.split()[1] == '1' else ':invalid')
    if op == 'flt':
        return 'flt:' + ('utf8' if norm_name(unhex(c[1])) == 'utf8' else 'single-byte') + ':' + out.split()[1]
    if op == 'u2u':
        return 'u2u:' + ('throw' if out.endswith('throw') else 'ok')
    if op == 'cmp':
        return 'cmp:' + out.split()[-1]
    return op


# ------------------------------------------------------------------------------------------------
# thorough tier: native exhaustive sweep, coqchk
# ------------------------------------------------------------------------------------------------
def sweep_expect():
    """expected (accepted, accepted in HTML mode, sum of code points) per sweep case, from Python's own encoder over all scalar values"""
    # stats[(lead, second or None)][len] = [count, html_count, cp_sum]
    st = {}
    for cp in itertools.chain(range(0, 0xD800), range(0xE000, 0x110000)):
        e = chr(cp).encode('utf-8')
        key = (e[0], e[1] if len(e) > 1 else None)
        d = st.setdefault(key, {}).setdefault(len(e), [0, 0, 0])
        d[0] += 1
        d[1] += 1 if html_safe(cp) else 0
        d[2] += cp
    exp = {}
    for lead in range(256):
        # 1..3 bytes available, prefix = [lead]
        for avail in (1, 2, 3):
            a = h = sm = 0
            for (l0, l1), d in st.items():
                if l0 != lead:
                    continue
                for ln, (cnt, hc, cs) in d.items():
                    if ln <= avail:
                        w = 256 ** (avail - ln)
                        a += cnt * w
                        h += hc * w
                        sm += cs * w
            exp['sw%d %02x' % (avail, lead)] = (256 ** (avail - 1), a, h, sm)
        for second in range(256):
            a = h = sm = 0
            for key in ((lead, None), (lead, second)):
                for ln, (cnt, hc, cs) in st.get(key, {}).items():
                    w = 256 ** (4 - max(ln, 2))
                    a += cnt * w
                    h += hc * w
                    sm += cs * w
            exp['sw4 %02x %02x' % (lead, second)] = (65536, a, h, sm)
    return exp


SW_RE = re.compile(r'(sw\d) n=(\d+) acc=(\d+) acch=(\d+) accb=(\d+) sum=(\d+) mism=(\d+) first=(\S+)$')
_SWEXP = {}


def make_sw_oracle(follow):
    def sw_oracle(case, out):
        if out.startswith('<crash'):
            return ('crash-sweep', 'the decoder harness died (AddressSanitizer: read outside the input?) in block %s: %s' % (case, out[:600]))
        m = SW_RE.match(out)
        if not m:
            return ('bad-output-sweep', out[:200])
        n, a, h, b, sm, mism = (int(m.group(i)) for i in range(2, 8))
        if mism:
            follow.append('nx ' + m.group(8))
            return ('utf8-sweep-mismatch', '%d of the %d sequences of block %s are decoded differently from the table-driven reference, first %s' % (
                mism, n, case, m.group(8)))
        if not _SWEXP:
            _SWEXP.update(sweep_expect())
        en, ea, eh, es = _SWEXP[case]
        if (n, a, h, b, sm) != (en, ea, eh, ea, es):
            return ('utf8-sweep-count', 'block totals n/acc/html/booster/sum = %s, expected %s' % ((n, a, h, b, sm), (en, ea, eh, ea, es)))
        return None
    return sw_oracle


ASAN_FLAGS = ['-O0', '-fsanitize=address', '-fno-omit-frame-pointer']   # -O0: at -O1 gcc 12 drops the check of the second byte read (seen with mutation m11)
ASAN_ENV = {'ASAN_OPTIONS': 'detect_leaks=0:abort_on_error=0:exitcode=66'}


def run_sweep(ctx, native4):
    """ASan build: every sequence of length 1..3 on exactly sized heap blocks; native build (thorough): every sequence of length 4"""
    follow = []
    orc = make_sw_oracle(follow)
    t0 = time.time()
    ev0 = ctx.coverage.get('evaluations', 0)
    short = ['sw%d %02x' % (k, a) for k in (1, 2, 3) for a in range(256)]
    # interleave so that the parallel runner gives every worker the same mix of cheap and expensive blocks
    short.sort(key=lambda c: (int(c.split()[1], 16) * 7919) % 256)
    exe, err = vlib.build_harness('C14_sweep_asan', ['C14_sweep.cpp'], link=False, extra=ASAN_FLAGS)
    if not exe:
        ctx.broke('sweep harness (ASan) build failed', err)
        return follow
    # the generic runner parallelises only lists of >= 2000 lines: split by hand
    import concurrent.futures
    parts = [short[i::8] for i in range(8)]
    with concurrent.futures.ThreadPoolExecutor(8) as ex:
        rs = list(ex.map(lambda part: vlib.run_lines(exe, part, env=ASAN_ENV), parts))
    nseq = 0
    for part, (rc, out, errtxt) in zip(parts, rs):
        if len(out) != len(part):
            bad = part[len(out)] if len(out) < len(part) else part[-1]
            ctx.broke('ASan sweep harness produced %d lines for %d blocks (rc=%s)' % (len(out), len(part), rc), errtxt[-3000:])
            r = orc(bad, '<crash rc=%s> %s' % (rc, errtxt[:600].replace('\n', ' | ')))
            ctx.fail(r[0], r[1], bad)
            continue
        for c, o in zip(part, out):
            r = orc(c, o)
            if r:
                ctx.fail(r[0], r[1] + '\n  case: %s\n  impl: %s' % (c, o), c)
            nseq += 256 ** (int(c[2]) - 1)
    ctx.coverage['evaluations'] = ev0 + len(short)
    sw = {'asan_short': {'blocks': len(short), 'sequences': nseq, 'decoder_calls': 3 * nseq, 'wall_s': round(time.time() - t0, 1),
                         'what': 'every byte sequence of length 1, 2 and 3, each on a heap block of exactly its length, through cppcms::utf8::next '
                                 '(both modes) and booster decode built with AddressSanitizer, against the table-driven RFC 3629 reference of '
                                 'harness/C14_sweep.cpp; block totals against totals computed in Python from its own encoder'}}
    if native4:
        t1 = time.time()
        exe4, err = vlib.build_harness('C14_sweep', ['C14_sweep.cpp'], link=False, extra=['-O2'])
        if not exe4:
            ctx.broke('sweep harness build failed', err)
        else:
            cases = ['sw4 %02x %02x' % (a, b) for b in range(256) for a in range(256)]
            vlib.differential(ctx, cases, exe4, None, orc, lambda c, o: True, lambda c, o: c.split()[0])
            sw['native_len4'] = {'blocks': len(cases), 'sequences': 2 ** 32, 'decoder_calls': 3 * 2 ** 32, 'wall_s': round(time.time() - t1, 1),
                                 'what': 'every 4-byte sequence through the same three entry points, natively (-O2), same reference and totals'}
    ctx.coverage['sweep'] = sw
    return follow


AX_RE = re.compile(r'\* Axioms:\s*(.*?)\n\s*\n\* Constants', re.S)


def _coqchk(mods, timeout, lock=False):
    # coqchk only reads .vo files: it runs without the shared build lock (it takes minutes and would block every other
    # build); a .vo rewritten underneath it makes it fail, hence one retry under the lock for our own closure
    cmd = ['coqchk', '-silent', '-o', '-Q', vlib.COQ, 'CppcmsV'] + mods
    if lock:
        with vlib.Lock('coq'):
            p = vlib.sh(cmd, cwd=vlib.COQ, timeout=timeout)
    else:
        p = vlib.sh(cmd, cwd=vlib.COQ, timeout=timeout)
    txt = (p.stdout + p.stderr).decode(errors='replace')
    i = txt.find('CONTEXT SUMMARY')
    return p.returncode, (txt[i:] if i >= 0 else txt[-1500:])


def _coqchk_own():
    t0 = time.time()
    try:
        rc, summ = _coqchk(['CppcmsV.C14.Props'], 900)
        if rc != 0:
            rc, summ = _coqchk(['CppcmsV.C14.Props'], 900, lock=True)
    except Exception as e:
        rc, summ = 99, 'coqchk did not finish: %r' % e
    m = AX_RE.search(summ)
    return {'cmd': 'coqchk -silent -o -Q coq CppcmsV CppcmsV.C14.Props', 'rc': rc,
            'context_summary': [l.strip() for l in summ.split('\n') if l.strip() and not set(l.strip()) <= set('=')],
            'axioms': m.group(1).strip() if m else 'unparsed', 'wall_s': round(time.time() - t0, 1), '_raw': summ}


def _coqchk_project(budget):
    """all compiled modules of the project (other properties are built by other people; informative only).  A directory
    whose .vo files are mutually inconsistent (being rebuilt) is dropped and the rest re-checked, within the time budget."""
    t0 = time.time()
    mods = []
    for f in sorted(glob.glob(os.path.join(vlib.COQ, '*', '*.vo'))):
        rel = os.path.relpath(f, vlib.COQ)[:-3]
        v = os.path.join(vlib.COQ, rel + '.v')
        if os.path.exists(v) and os.path.getmtime(f) >= os.path.getmtime(v):
            mods.append('CppcmsV.' + rel.replace('/', '.'))
    proj = {'rc': None, 'modules_found': len(mods)}
    excluded = []
    while time.time() - t0 < budget - 20:
        try:
            rc2, summ2 = _coqchk(mods, max(20, int(budget - (time.time() - t0))))
        except Exception as e:
            proj.pop('axioms', None)
            proj.update({'rc': None, 'note': 'coqchk over %d compiled modules did not finish within %d s (%s); the closure of C14/Props.vo is '
                                             'checked separately' % (len(mods), budget, type(e).__name__)})
            break
        m2 = AX_RE.search(summ2)
        proj.update({'rc': rc2, 'modules_checked': len(mods), 'axioms': m2.group(1).strip() if m2 else summ2[-600:]})
        if rc2 == 0:
            proj.pop('note', None)
            break
        bad = re.search(r'CppcmsV\.([A-Za-z0-9_]+)\.', summ2)
        if not bad or bad.group(1) in ('C14', 'Base'):
            break
        excluded.append(bad.group(1))
        mods = [x for x in mods if not x.startswith('CppcmsV.%s.' % bad.group(1))]
    proj['excluded_dirs_with_inconsistent_vo'] = excluded
    proj['wall_s'] = round(time.time() - t0, 1)
    return proj


def start_coqchk():
    """coqchk -o: the compiled proofs are re-checked by the independent checker, concurrently with the rest of the run"""
    import concurrent.futures
    ex = concurrent.futures.ThreadPoolExecutor(2)
    own = ex.submit(_coqchk_own)
    proj = ex.submit(_coqchk_project, 400) if os.environ.get('C14_COQCHK_PROJECT', '1') != '0' else None
    return ex, own, proj


def finish_coqchk(ctx, handle):
    ex, own, proj = handle
    info = own.result()
    summ = info.pop('_raw')
    if info['rc'] != 0:
        ctx.broke('coqchk rejected the compiled C14 proofs', summ[-2000:])
    elif info['axioms'] != '<none>':
        ctx.broke('coqchk reports axioms in the closure of C14/Props.vo: ' + info['axioms'][:500])
    if proj is not None:
        info['project'] = proj.result()
    ex.shutdown()
    ctx.coverage['coqchk'] = info


def run(ctx):
    box = {}
    try:
        _run(ctx, box)
    finally:
        if box.get('chk'):
            finish_coqchk(ctx, box.pop('chk'))


def _run(ctx, box):
    errs = gen_c14()
    for n, e in errs:
        ctx.broke('translator cxx2v failed on %s (tie to source broken)' % n, e)
    res = vlib.coq_props('C14')
    ctx.proof(res)
    if not ctx.quick() and ctx.replay_cases is None and not res['failing']:
        box['chk'] = start_coqchk()
    ctx.coverage['trusted_base'] = [
        'Coq 8.16.1 kernel, vm_compute (256-point sweeps); no native_compute',
        'tools/cxx2v.py + clang JSON AST, extended in checks/C14.py (validator loop body -> byte predicate, comparator loop body -> step function, '
        '__builtin_expect); sources: private/utf_iterator.h, private/encoding_validators.h, booster/booster/locale/utf.h, src/encoding.cpp via harness/C14_tu.cpp',
        'extraction: ExtrOcamlBasic only, OCaml 4.13.1',
        'harness/C14_text.cpp, harness/C14_sweep.cpp (table-driven RFC 3629 reference), ocaml/C14_driver.ml, checks/C14.py (generators; oracles use '
        'Python 3 strict UTF-8 decoding, a regular expression transcribed from the RFC 3629 ABNF, and the stdlib code-page tables)',
        'hand model of the decoder switch, validate loops, validators_set table, validate_or_filter loops, utf_to_utf (coq/C14/Defs.v), tied by correspondence',
        'coq/C14/Spec.v: transcription of the RFC 3629 section 4 ABNF and of the section 3 encoding table']
    ctx.assumptions = ['bytes < 256; char is signed 8-bit and int at least 32 bits on this target (x86-64), as clang reports',
                       'the replacement character of validate_or_filter is absent (0) or itself acceptable (HTML-safe ASCII for UTF-8; a byte the code page '
                       'accepts for single-byte encodings); otherwise only `returns true iff valid` is claimed',
                       'counts do not overflow size_t',
                       'encode is modelled for values below 2^21',
                       'names without a built-in validator (iconv/ICU fall-back) are outside the model']
    exe, err = vlib.build_harness('C14_text', ['C14_text.cpp'])
    if not exe:
        ctx.broke('harness build failed', err)
        return
    mexe, err = vlib.build_model('C14', 'C14_driver.ml', 'c14m')
    if not mexe:
        ctx.broke('model extraction/build failed', err)
    ctx.coverage['rule'] = (
        'cases: op + hex arguments. Exhaustive: every byte sequence of length 0, 1, 2 through the three decoder entry points (nx); boundary grid '
        'lead x second x {00,7F,80,BF,C0,FF}^{0,1,2} (grid; quick: leads C0..FF and 00,7F,80,BF, thorough: all 256 leads); all 256 single bytes for '
        'every table name (sb1) and all 65536 byte pairs for each of the 36 single-byte names (sb2: 256 lines per name, each all 256 second bytes, '
        'compared with the bytes judged alone). Structured/random (seeded): boundary code points with every truncation and +-1 byte neighbours; '
        'strings composed of valid characters (all lengths, boundaries), control characters and 41 kinds of malformed pieces (over-long, surrogate, '
        '> U+10FFFF, F5..FF, lone trail, truncated, bad trail) through validate (both modes, several incoming counts), valid_utf8, valid by name '
        '(spelling variants of every table name incl. embedded NUL), validate_or_filter with replacement in {none, ?, space, X, tab, ~, 01, 7F, 80, FF, '
        'random}, utf_to_utf skip/stop; encode/width for code points up to 2^21; name dispatch incl. near-miss names; form submissions (frm: real '
        'cppcms::form + widgets::text loaded from an http::context, 14 locale names, limits around the code-point count and the byte count, charset '
        'validation on/off); windows-1254/cp1254 through the iconv/ICU fall-back (oracle only, no model). Every tier: all sequences of '
        'length 1..3 natively under ASan against a table-driven reference (one evaluation per block of 1/256/65536 sequences); thorough adds all 2^32 '
        'sequences of length 4. Non-trivial: the input contains a byte outside printable ASCII (decoders, validators), the filter '
        'had to change the text (flt), a non-ASCII code point (enc); grid/sb1/sb2/cmp lines always. distinct = distinct case lines.')
    ctx.coverage['exhaustive'] = False
    ctx.coverage['exhaustive_parts'] = ['all byte sequences of length 0..2 x 3 decoder entry points', 'all 256 bytes x 37 names', 'all 65536 byte pairs x 36 single-byte names']
    if ctx.replay_cases is not None:
        sw = [c for c in ctx.replay_cases if c.startswith('sw')]
        cases = [c for c in ctx.replay_cases if not c.startswith('sw')]
        if sw:
            sexe, err = vlib.build_harness('C14_sweep_asan', ['C14_sweep.cpp'], link=False, extra=ASAN_FLAGS)
            if not sexe:
                ctx.broke('sweep harness (ASan) build failed', err)
            else:
                vlib.differential(ctx, sw, sexe, None, make_sw_oracle([]), impl_env=ASAN_ENV, parallel=False)
        frm = [c for c in cases if c.startswith('frm ')]
        cases = [c for c in cases if not c.startswith('frm ')]
        if frm:
            fexe, err = vlib.build_harness('C14_form', ['C14_form.cpp'], extra=['-I' + os.path.join(vlib.REPO, 'tests')])
            if not fexe:
                ctx.broke('form harness build failed', err)
            else:
                vlib.differential(ctx, frm, fexe, mexe, form_oracle)
        fb = [c for c in cases if c.startswith('vnm ') and norm_name(unhex(c.split()[1])) in ('windows1254', 'cp1254')]
        cases = [c for c in cases if c not in fb]
        if cases:
            vlib.differential(ctx, cases, exe, mexe, oracle, nontrivial, classify)
        if fb:
            vlib.differential(ctx, fb, exe, None, oracle, nontrivial, classify)
        return
    cases = vlib.corpus_cases('C14') + gen_cases(ctx)
    vlib.differential(ctx, cases, exe, mexe, oracle, nontrivial, classify)
    fexe, err = vlib.build_harness('C14_form', ['C14_form.cpp'], extra=['-I' + os.path.join(vlib.REPO, 'tests')])
    if not fexe:
        ctx.broke('form harness build failed', err)
    else:
        vlib.differential(ctx, gen_form_cases(ctx), fexe, mexe, form_oracle, lambda c, o: True, lambda c, o: 'frm:' + ' '.join(o.split()[1:3]),
                          what='correspondence model vs form widget')
    fb = gen_fallback_cases(ctx)
    vlib.differential(ctx, fb, exe, None, oracle, nontrivial, lambda c, o: 'fallback:' + classify(c, o), what='fallback (oracle only)')
    ctx.coverage['fallback_oracle_only'] = len(fb)
    follow = run_sweep(ctx, native4=not ctx.quick())
    if follow:
        vlib.differential(ctx, sorted(set(follow))[:50], exe, mexe, oracle, nontrivial, classify)
    ctx.coverage['exhaustive_parts'].append('all byte sequences of length 1..3 (2^24+2^16+2^8) x 3 decoder entry points under AddressSanitizer')
    if not ctx.quick():
        ctx.coverage['exhaustive_parts'].append('thorough: all 2^32 byte sequences of length 4 x 3 decoder entry points, natively')
