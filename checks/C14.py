"""C14 -- text validators accept exactly the well-formed strings of their encoding."""
import os, re, sys, itertools
import vlib
from vlib import hexs, unhex

# ------------------------------------------------------------------------------------------------
# T: leaf functions regenerated from the current headers (extends tools/cxx2v.py in this file only)
# ------------------------------------------------------------------------------------------------
SB_VALIDATORS = [  # C++ template name in private/encoding_validators.h -> generated Coq name
    ('ascii_valid', 'g_sb_ascii'),
    ('iso_8859_1_2_4_5_9_10_13_14_15_16_valid', 'g_sb_iso_generic'),
    ('iso_8859_3_valid', 'g_sb_iso_3'), ('iso_8859_6_valid', 'g_sb_iso_6'), ('iso_8859_7_valid', 'g_sb_iso_7'),
    ('iso_8859_8_valid', 'g_sb_iso_8'), ('iso_8859_11_valid', 'g_sb_iso_11'),
    ('windows_1250_valid', 'g_sb_1250'), ('windows_1251_valid', 'g_sb_1251'), ('windows_1252_valid', 'g_sb_1252'),
    ('windows_1253_valid', 'g_sb_1253'), ('windows_1254_valid', 'g_sb_1254'), ('windows_1255_valid', 'g_sb_1255'),
    ('windows_1256_valid', 'g_sb_1256'), ('windows_1257_valid', 'g_sb_1257'), ('windows_1258_valid', 'g_sb_1258'),
    ('koi8_valid', 'g_sb_koi8'),
]


def _strip(n):
    while n['kind'] in ('ImplicitCastExpr', 'ParenExpr', 'ExprWithCleanups', 'MaterializeTemporaryExpr'):
        n = n['inner'][0]
    return n


def _walk(n, f, parents=()):
    if not isinstance(n, dict):
        return
    f(n, parents)
    for c in n.get('inner', []) or []:
        _walk(c, f, parents + (n,))


def _has_body(n):
    return any(c.get('kind') == 'CompoundStmt' for c in n.get('inner', []) or [])


def make_translators():
    import cxx2v
    U = cxx2v.Unsupported

    class Tr14(cxx2v.Tr):
        """cxx2v.Tr + __builtin_expect(x, k) = x"""
        def expr(self, n):
            if n['kind'] == 'CallExpr':
                callee = _strip(n['inner'][0])
                if callee['kind'] == 'DeclRefExpr' and callee['referencedDecl'].get('name') == '__builtin_expect':
                    return self.expr(n['inner'][1])
            return super().expr(n)

    class PredTr(Tr14):
        """body of a per-byte validation loop
               while(p!=e) { count++; unsigned c=(unsigned char)*p++; ... continue; ... return false; ... }
           -> byte -> bool  (true: the loop goes on to the next byte, false: the function returns false)"""
        byte = None

        def expr(self, n):
            if n['kind'] == 'UnaryOperator' and n.get('opcode') == '*':
                s = _strip(n['inner'][0])
                if s['kind'] == 'UnaryOperator' and s.get('opcode') == '++' and s.get('isPostfix') \
                        and _strip(s['inner'][0])['kind'] == 'DeclRefExpr' and tuple(cxx2v.tyinfo(n['type'])) == ('s', 8):
                    if self.byte is None:
                        raise U('second read of the input in one loop iteration')
                    b, self.byte = self.byte, None
                    return b
            return super().expr(n)

        def stmts(self, ss, brk=None, void=False):
            if not ss and brk is None:
                return 'true'
            if ss:
                k = ss[0]['kind']
                if k == 'ContinueStmt':
                    return 'true'
                if k == 'ReturnStmt':
                    e = self.expr(ss[0]['inner'][0])
                    if e != 'false':
                        raise U('return of something other than false inside a validator loop')
                    return 'false'
            return super().stmts(ss, brk, void)

    def translate_validator(fd, coqname):
        """checks the shape  { while(p!=e){ count++; <body> } return true; }  and translates <body>"""
        body = [c for c in fd['inner'] if c['kind'] == 'CompoundStmt'][0]
        top = body.get('inner', [])
        if len(top) != 2 or top[0]['kind'] != 'WhileStmt' or top[1]['kind'] != 'ReturnStmt' \
                or _strip(top[1]['inner'][0]).get('value') is not True:
            raise U('%s: not of the form while(...){...} return true;' % coqname)
        cond, lbody = top[0]['inner'][0], top[0]['inner'][-1]
        if cond['kind'] != 'BinaryOperator' or cond['opcode'] != '!=' or \
                [_strip(x).get('referencedDecl', {}).get('name') for x in cond['inner']] != ['p', 'e']:
            raise U('%s: loop condition is not p!=e' % coqname)
        tr = PredTr('', {}, {})
        tr.consts = {}
        ss = tr.flatten(lbody)
        first = ss[0] if ss else {}
        if first.get('kind') != 'UnaryOperator' or first.get('opcode') != '++' or \
                _strip(first['inner'][0]).get('referencedDecl', {}).get('name') != 'count':
            raise U('%s: loop body does not start with count++' % coqname)
        tr.byte = '(wraps 8 byte)'
        code = tr.stmts(ss[1:])
        if tr.byte is not None:
            raise U('%s: loop body never reads *p++' % coqname)
        return 'Definition %s (byte : Z) : bool :=\n  %s.\n' % (coqname, code)

    class StepTr(Tr14):
        """body of encodings_comparator::next's loop: while(*p!=0){ char c=*p++; ... return <char>; ... }
           -> byte -> Z  (the returned character, or -1 when the loop moves on to the next byte)"""
        def stmts(self, ss, brk=None, void=False):
            if not ss and brk is None:
                return '(-1)'
            return super().stmts(ss, brk, void)

    def translate_step(fd, coqname):
        loops = []
        cxx2v.find_loops(fd, loops)
        if len(loops) != 1:
            raise U('%s: expected exactly one loop' % coqname)
        cond = loops[0]['inner'][0]
        # while(*p != 0)
        ok = cond['kind'] == 'BinaryOperator' and cond['opcode'] == '!=' and \
            _strip(cond['inner'][1]).get('kind') == 'IntegerLiteral' and _strip(cond['inner'][1]).get('value') == '0' and \
            _strip(cond['inner'][0]).get('kind') == 'UnaryOperator' and _strip(cond['inner'][0]).get('opcode') == '*'
        if not ok:
            raise U('%s: loop condition is not *p!=0' % coqname)
        tr = StepTr('', {}, {})
        tr.consts = {}
        ss = tr.flatten(loops[0]['inner'][-1])
        vd = ss[0]['inner'][0] if ss and ss[0]['kind'] == 'DeclStmt' else {}
        init = _strip(vd.get('inner', [{}])[0]) if vd.get('inner') else {}
        if vd.get('kind') != 'VarDecl' or tuple(cxx2v.tyinfo(vd['type'])) != ('s', 8) or init.get('opcode') != '*':
            raise U('%s: loop body does not start with char c=*p++' % coqname)
        nm = tr.fresh(vd['name'])
        tr.ids[vd['id']] = nm
        code = tr.stmts(ss[1:])
        # statement after the loop must be `return 0`
        body = [c for c in fd['inner'] if c['kind'] == 'CompoundStmt'][0]['inner']
        if body[-1]['kind'] != 'ReturnStmt' or _strip(body[-1]['inner'][0]).get('value') != '0':
            raise U('%s: function does not end with return 0' % coqname)
        return 'Definition %s (byte : Z) : Z :=\n  let %s := wraps 8 byte in %s.\n' % (coqname, nm, code)

    def translate_plain(fd, coqname, known):
        tr_cls = cxx2v.Tr
        cxx2v.Tr = Tr14
        try:
            return cxx2v.translate_function(fd, coqname, known, {}, {})
        finally:
            cxx2v.Tr = tr_cls

    return cxx2v, translate_validator, translate_step, translate_plain


def gen_c14():
    """writes coq/gen/Gen_C14.v from the current headers and src/encoding.cpp; returns [(name, error)]"""
    cxx2v, translate_validator, translate_step, translate_plain = make_translators()
    out = os.path.join(vlib.COQ, 'gen', 'Gen_C14.v')
    tu = os.path.join(vlib.VERIF, 'harness', 'C14_tu.cpp')
    lines = ['(* GENERATED by checks/C14.py (tools/cxx2v.py) from private/utf_iterator.h, private/encoding_validators.h,',
             '   booster/booster/locale/utf.h and src/encoding.cpp of the checked tree -- do not edit *)',
             'From Coq Require Import ZArith List Bool.', 'From CppcmsV Require Import Base.CSem.',
             'Local Open Scope Z_scope.', 'Import ListNotations.', '']
    try:
        incs = vlib.repo_incs()

        def decls(filt, kind, name, src=tu, pred=None):
            objs = cxx2v.run_clang(src, filt, incs)
            found = []

            def f(n, parents):
                if n.get('kind') == kind and n.get('name') == name and _has_body(n) and (pred is None or pred(n, parents)):
                    found.append(n)
            for o in objs:
                _walk(o, f)
            if not found:
                raise cxx2v.Unsupported('%s %s not found (filter %s)' % (kind, name, filt))
            return found[0]

        # 1. cppcms leaf functions of the UTF-8 decoder (private/utf_iterator.h)
        lines.append(translate_plain(decls('utf::valid', 'FunctionDecl', 'valid'), 'g_utf_valid', {}))
        for cxx, coq in [('is_trail', 'g_is_trail'), ('trail_length', 'g_trail_length'), ('width', 'g_width')]:
            lines.append(translate_plain(decls('utf8::' + cxx, 'FunctionDecl', cxx), coq, {}))
        # 2. the support library's copies (booster/locale/utf.h), instantiated for char
        lines.append(translate_plain(decls('is_valid_codepoint', 'FunctionDecl', 'is_valid_codepoint'), 'g_b_is_valid_codepoint', {}))

        def in_char_spec(n, parents):
            for p in parents:
                if p.get('kind') == 'ClassTemplateSpecializationDecl':
                    targs = [c for c in p.get('inner', []) if c.get('kind') == 'TemplateArgument']
                    return len(targs) == 2 and targs[0].get('type', {}).get('qualType') == 'char' and str(targs[1].get('value')) == '1'
            return False
        known = {}
        for cxx, coq in [('trail_length', 'g_b_trail_length'), ('width', 'g_b_width'), ('is_trail', 'g_b_is_trail'),
                         ('is_lead', 'g_b_is_lead')]:
            lines.append(translate_plain(decls('utf_traits', 'CXXMethodDecl', cxx, pred=in_char_spec), coq, dict(known)))
            known[cxx] = coq
        # 3. single-byte validators: the per-byte loop body as a predicate
        def is_inst(n, parents):
            return 'const char *' in n.get('type', {}).get('qualType', '')
        for cxx, coq in SB_VALIDATORS:
            lines.append(translate_validator(decls(cxx, 'FunctionDecl', cxx, pred=is_inst), coq))
        # 4. encoding-name normalisation step (src/encoding.cpp: encodings_comparator::next)
        enc_src = os.path.join(vlib.REPO, 'src', 'encoding.cpp')
        lines.append(translate_step(decls('encodings_comparator::next', 'CXXMethodDecl', 'next', src=enc_src), 'g_enc_name_step'))
        txt = '\n'.join(lines) + '\n'
        err = []
    except cxx2v.Unsupported as e:
        txt = '(* translator failed: %s *)\nDefinition broken : False := I.\n' % str(e).replace('*)', '* )').replace('"', "'")
        err = [('Gen_C14', str(e))]
    with vlib.Lock('gen-Gen_C14'):
        vlib.write_if_changed(out, txt)
    return err
