"""C04 -- XSS filter output contains only white-listed markup and is stable."""
import os, re, time, hashlib, itertools
import vlib
from vlib import hexs, unhex

META = dict(
    property_id='C04',
    design_ref='DESIGN.md section 4, C04',
    technique='Coq proof about an executable model of the tokeniser/parser/nesting/white-list pipeline + extracted-model correspondence + implementation-only oracle',
    level_text=('Theorems in coq/C04/Props.v, for all byte strings and all rule sets: see docs/C04.md. The model is tied to '
                'src/xss.cpp by running the extracted model and the real validate/validate_and_filter_if_invalid/filter on the same '
                'inputs and rule sets (built through the public rules API), with the regex/URI functors and the encoding validators '
                'answered by the real code (oracle table); character classes are regenerated from the source by cxx2v and proved equal '
                'to the model leafs.'),
    level_note=('Trusted: Coq kernel + vm_compute; cxx2v and clang AST; ExtrOcamlBasic extraction; hand model of the loops of src/xss.cpp '
                '(tied by correspondence only); PCRE and the RFC 3986 uri_parser are behind an abstract functor; encoding validators are '
                'abstract (C14).'),
)

GEN = {
    'Gen_xss': dict(src='src/xss.cpp',
                    functions=[('ascii_isalpha', 'g_xss_isalpha'), ('ascii_tolower', 'g_xss_tolower'),
                               ('ascii_isdigit', 'g_xss_isdigit'), ('ascii_isalnum', 'g_xss_isalnum'),
                               ('ascii_isxdigit', 'g_xss_isxdigit'), ('ascii_isspace', 'g_xss_isspace')]),
}

DEFAULT_SCHEMES = '(http|https|ftp|mailto|news|nntp)'


# ------------------------------------------------------------------------------------------------
# rule sets
# ------------------------------------------------------------------------------------------------
def hx(s):
    b = s.encode('latin-1') if isinstance(s, str) else bytes(s)
    return b.hex() if b else '-'


class RuleSet:
    """m: 'x'|'h'; c,n: 0|1; enc: name or '-'; ents: [str]; funs: [spec str]; tags: [(name, kind, [(attr, vk)])]"""

    def __init__(self, m, c, n, enc, ents, funs, tags):
        self.m, self.c, self.n, self.enc, self.ents, self.funs, self.tags = m, c, n, enc, ents, funs, tags
        ts = ';'.join('%s:%d' % (hx(t), k) + (':' + ','.join(hx(a) + '~' + vk for a, vk in at) if at else '')
                      for t, k, at in tags) or '-'
        self.desc = 'm=%s c=%d n=%d enc=%s ent=%s fun=%s tags=%s' % (
            m, c, n, enc, ','.join(hx(e) for e in ents) or '-', ','.join(hx(f) for f in funs) or '-', ts)

    def case(self, inp, repl=0):
        return '%s repl=%d in=%s' % (self.desc, repl, hexs(inp))


def parse_rules(fields):
    """rule description (dict of fields of a case line) -> lookup structure for the python oracle"""
    xhtml = fields['m'] != 'h'
    norm = (lambda s: s) if xhtml else (lambda s: s.lower())
    ents = set([b'lt', b'gt', b'amp', b'quot'])
    if fields.get('ent', '-') != '-':
        ents |= set(bytes.fromhex(e) for e in fields['ent'].split(','))
    funs = []
    if fields.get('fun', '-') != '-':
        funs = [bytes.fromhex(f).decode('latin-1') for f in fields['fun'].split(',')]
    tags = {}
    if fields.get('tags', '-') != '-':
        for t in fields['tags'].split(';'):
            p = t.split(':')
            name = norm(bytes.fromhex(p[0]))
            attrs = {}
            if len(p) > 2:
                for a in p[2].split(','):
                    an, vk = a.split('~')
                    attrs[norm(bytes.fromhex(an))] = vk
            tags[name] = (int(p[1]), attrs)
    return dict(xhtml=xhtml, norm=norm, ents=ents, funs=funs, tags=tags, comments=fields['c'] == '1',
                numeric=fields['n'] == '1', enc=fields.get('enc', '-'))


_rules_cache = {}


def fields_of(case):
    return dict(t.split('=', 1) for t in case.split() if '=' in t)


def rules_of(fields):
    key = (fields['m'], fields['c'], fields['n'], fields.get('enc'), fields.get('ent'), fields.get('fun'), fields.get('tags'))
    r = _rules_cache.get(key)
    if r is None:
        r = _rules_cache[key] = parse_rules(fields)
    return r


FUNS = ['re:.*', 'uri', 'abs:(http|https)', 'rel', 're:[a-z]+', 're:a*', 'uris:(http|ftp)', 're:[a-z ]*']


def fixed_rulesets():
    full = [('a', 1, [('href', 'f1'), ('title', 'f0'), ('a', 'f5'), ('id', 'f4'), ('rel', 'f3')]),
            ('b', 1, []), ('i', 3, [('class', 'f7')]), ('br', 2, []),
            ('input', 2, [('disabled', 'b'), ('size', 'i'), ('checked', 'b')]),
            ('img', 2, [('src', 'f2'), ('alt', 'f0'), ('width', 'i')]), ('p', 3, [('a', 'b')]), ('x', 0, [('y', 'i')]),
            ('B1', 1, []), ('_u', 3, [])]
    fullh = [('A', 1, [('href', 'f1'), ('TITLE', 'f0'), ('a', 'f5'), ('id', 'f4'), ('rel', 'f3')]),
             ('b', 1, []), ('I', 3, [('class', 'f7')]), ('Br', 2, []),
             ('input', 3, [('disabled', 'b'), ('size', 'i'), ('Checked', 'b')]),
             ('img', 2, [('src', 'f6'), ('alt', 'f0'), ('width', 'i')]), ('p', 3, [('a', 'b')]), ('x', 0, [('y', 'i')]),
             ('b1', 1, []), ('_u', 3, [])]
    return [
        RuleSet('x', 1, 1, '-', ['nbsp', 'a'], FUNS, full),
        RuleSet('h', 1, 1, '-', ['nbsp', 'a'], FUNS, fullh),
        RuleSet('x', 0, 0, 'UTF-8', ['copy'], FUNS, [('a', 3, [('a', 'f5'), ('href', 'f1')]), ('b', 1, []), ('i', 3, []), ('br', 2, [])]),
        RuleSet('h', 0, 1, 'ISO-8859-1', [], FUNS, [('a', 2, [('a', 'b')]), ('b', 1, []), ('i', 3, []), ('br', 2, [])]),
        RuleSet('h', 1, 0, 'windows-1252', ['a'], FUNS, [('a', 3, [('a', 'b'), ('href', 'f6')]), ('b', 1, []), ('i', 3, []), ('br', 2, [])]),
        RuleSet('x', 1, 1, 'utf8', [], [], []),
        RuleSet('h', 1, 1, 'UTF-8', ['nbsp'], FUNS, fullh),
        RuleSet('x', 1, 1, 'ISO-8859-8', ['nbsp'], FUNS, full),
    ]


ENCODINGS = ['-', '-', 'UTF-8', 'utf8', 'ISO-8859-1', 'iso-8859-7', 'windows-1252', 'cp1251', 'koi8-r', 'US-ASCII', 'latin1', 'ISO-8859-6']
TAGPOOL = ['a', 'b', 'i', 'br', 'p', 'img', 'input', 'em', 'B1', 'div', '_u']
ATTRPOOL = ['href', 'title', 'a', 'id', 'class', 'src', 'disabled', 'size', 'alt']


def random_ruleset(rng):
    m = rng.choice('xh')
    tags = []
    for t in rng.sample(TAGPOOL, rng.randrange(0, len(TAGPOOL))):
        attrs = []
        for a in rng.sample(ATTRPOOL, rng.randrange(0, 4)):
            vk = rng.choice(['b', 'i'] + ['f%d' % k for k in range(len(FUNS))])
            attrs.append((a if rng.random() < 0.8 else a.upper(), vk))
        kind = rng.choice([1, 1, 2, 3, 3, 0])
        if kind == 0 and not attrs:
            continue
        tags.append((t if rng.random() < 0.8 else t.upper(), kind, attrs))
    ents = rng.sample(['nbsp', 'copy', 'a', 'Amp', 'x1'], rng.randrange(0, 3))
    return RuleSet(m, rng.randrange(2), rng.randrange(2), rng.choice(ENCODINGS), ents, FUNS, tags)


# ------------------------------------------------------------------------------------------------
# inputs
# ------------------------------------------------------------------------------------------------
CP_BOUNDS = [0, 1, 8, 9, 10, 11, 12, 13, 14, 31, 32, 33, 65, 126, 127, 128, 159, 160, 0xD7FF, 0xD800, 0xDBFF, 0xDC00, 0xDFFF,
             0xE000, 0xFFFD, 0xFFFE, 0xFFFF, 0x10000, 0x10FFFF, 0x110000, 2 ** 31 - 1, 2 ** 31, 2 ** 32, 2 ** 63 - 1, 2 ** 63,
             2 ** 64, 10 ** 30]
BAD_BYTES = [b'\x00', b'\x01', b'\x7f', b'\x80', b'\x9f', b'\xa0', b'\xff', b'\xc3', b'\xc3\xa9', b'\xe2\x82', b'\xe2\x82\xac',
             b'\xc0\xaf', b'\xed\xa0\x80', b'\xf4\x90\x80\x80', b'\xf0\x9f\x98\x80', b'\xae', b'\xd2']
VALUES = [b'http://host/p?q=1&amp;r=2#f', b'https://h', b'ftp://u@h:21/x', b'javascript:alert(1)', b'JAVASCRIPT:x', b'/rel/path', b'x.html',
          b'mailto:a@b.c', b'data:text/html,x', b'//host/x', b'?q', b'#frag', b'', b'a', b'aaa', b'abc', b'hello world', b'-12', b'12', b'-',
          b'1.5', b'&amp;', b'&lt;b&gt;', b'&quot;', b'&apos;', b'&#39;', b'&#x27;', b'&#X27;', b'&#34;', b'&nbsp;', b'&', b'a&b', b'<', b'>',
          b'a>b', b'it\'s', b'say "x"', b'disabled', b'checked', b'http://h/\xc3\xa9', b'http://h/\xff', b' http://h', b'ht\ttp://h',
          b'http://1.2.3.4/', b'http://h/%41%zz', b'a:b', b'1:2', b'HTTP://H', b'news:x', b'nntp://h/g']


def gen_entity(rng, rs):
    k = rng.randrange(10)
    if k < 3:
        return b'&' + rng.choice([b'lt', b'gt', b'amp', b'quot'] + [e.encode() for e in rs.ents] + [b'nbsp', b'apos', b'AMP', b'a']) + b';'
    if k < 6:
        cp = rng.choice(CP_BOUNDS) if rng.random() < 0.7 else rng.randrange(0, 0x120000)
        if rng.random() < 0.5:
            d = ('%d' % cp)
            return b'&#' + (b'0' * rng.choice([0, 0, 1, 30])) + d.encode() + b';'
        d = ('%x' % cp) if rng.random() < 0.5 else ('%X' % cp)
        return b'&#' + rng.choice([b'x', b'X']) + (b'0' * rng.choice([0, 0, 1, 30])) + d.encode() + b';'
    return rng.choice([b'&;', b'&#;', b'&#x;', b'&#X;', b'&#xg;', b'&#1a;', b'&# 65;', b'&#-65;', b'&#+65;', b'&#0x41;', b'&a b;', b'&amp',
                       b'&<b>;', b'&a&b;', b'&#65', b'& ;', b'&a_b;', b'&\x00;', b'&#x0x41;', b'&#65;;', b'&&amp;;'])


def gen_comment(rng):
    return rng.choice([b'<!-- c -->', b'<!---->', b'<!--->', b'<!-->', b'<!--', b'<!-- a -- b -->', b'<!-- a --', b'<!-- <b> -->',
                       b'<!-- &amp; -->', b'<!--[if IE]>x<![endif]-->', b'<!-- > -->', b'<!--x-->', b'<!--x--->', b'<!--x- ->', b'<!- x -->',
                       b'<!--\x00-->', b'<!--\xc3\xa9-->', b'<!--\xff-->', b'<!-- - -->', b'<!----->', b'<!--a--!>', b'<!--a-->-->'])


def gen_attr(rng, rs, tag_attrs):
    pool = [a for a, _ in tag_attrs] + ATTRPOOL[:3]
    name = rng.choice(pool)
    if rs.m == 'h' and rng.random() < 0.3:
        name = name.upper() if rng.random() < 0.5 else name.capitalize()
    name = name.encode()
    k = rng.randrange(12)
    if k == 0:
        return name
    v = rng.choice(VALUES)
    q = rng.choice([b'"', b"'"])
    if k == 1:
        return name + b'=' + v                    # unquoted
    if k == 2:
        return name + b'=' + q + v                # unterminated
    if k == 3:
        return name + b' = ' + q + v + q          # spaces around =
    if k == 4:
        return name + b'=' + q + v + rng.choice([b'"', b"'"])  # possibly mixed quotes
    if k == 5:
        return b'_' + name + b'=' + q + v + q
    return name + b'=' + q + v + q


def gen_open(rng, rs, name, attrs_decl, slash=False):
    s = b'<' + name
    n = rng.choice([0, 0, 1, 1, 2, 3])
    for _ in range(n):
        sep = rng.choice([b' ', b' ', b' ', b'  ', b'\t', b'\n', b'\r', b'', b'\x0b', b'/'])
        s += sep + gen_attr(rng, rs, attrs_decl)
    if n and rng.random() < 0.15:
        a = gen_attr(rng, rs, attrs_decl)
        s += b' ' + a + b' ' + (a.upper() if rng.random() < 0.5 else a)   # duplicate attribute
    s += rng.choice([b'', b'', b'', b' ', b'\n'])
    if slash:
        s += rng.choice([b'/', b'/', b' /', b'//'])
    return s + b'>'


def gen_nodes(rng, rs, depth):
    out = []
    for _ in range(rng.choice([1, 1, 2, 2, 3, 4])):
        k = rng.randrange(20)
        if k < 3:
            out.append(rng.choice([b'text', b' ', b'a b', b'"q"', b"it's", b'x=y', b'--', b';', b'/', b'!']))
        elif k < 5:
            out.append(gen_entity(rng, rs))
        elif k < 6:
            out.append(gen_comment(rng))
        elif k < 7:
            out.append(rng.choice([b'<', b'>', b'&', b'<<', b'>>', b'< a>', b'<>', b'</>', b'</ a>', b'<a', b'<a b="', b'<a/ >', b'<!a>',
                                   b'<?php ?>', b'<a <b>', b'<a></a ', b'</a b="c">', b'</a/>', b'<a_b>', b'<1a>', b'<a\x00>', b'<a\xc3\xa9>']))
        elif k < 8:
            out.append(rng.choice(BAD_BYTES))
        else:
            decl = rs.tags + [('zz', 0, []), ('script', 0, [])]
            name, kind, attrs = rng.choice(decl)
            nm = name.encode()
            if rs.m == 'h' and rng.random() < 0.3:
                nm = nm.upper() if rng.random() < 0.5 else nm.lower()
            elif rng.random() < 0.05:
                nm = nm.swapcase()
            style = rng.randrange(10)
            if style < 2 or (kind == 2 and style < 7):
                out.append(gen_open(rng, rs, nm, attrs, slash=rng.random() < 0.6))
            else:
                out.append(gen_open(rng, rs, nm, attrs))
                if depth > 0:
                    out.extend(gen_nodes(rng, rs, depth - 1))
                c = rng.randrange(12)
                if c == 0:
                    pass                               # never closed
                elif c == 1:
                    out.append(b'</' + rng.choice([b'b', b'i', b'a', b'zz']) + b'>')   # wrong close
                elif c == 2:
                    out.append(b'</' + nm.swapcase() + b'>')
                elif c == 3:
                    out.append(b'</' + nm + rng.choice([b' ', b'\n', b'  ']) + b'>')
                elif c == 4:
                    out.append(b'</' + nm + b'>' + b'</' + nm + b'>')                # closed twice
                else:
                    out.append(b'</' + nm + b'>')
    return out


def gen_html(rng, rs):
    parts = gen_nodes(rng, rs, rng.choice([0, 1, 2, 3]))
    if rng.random() < 0.2:
        rng.shuffle(parts)
    return b''.join(parts)


MUT_BYTES = b'<>&;/!-"\'a= \t\n_#x0\x00\xff\xc3'


def mutate(rng, s):
    s = bytearray(s)
    for _ in range(rng.choice([1, 1, 1, 2, 3])):
        k = rng.randrange(3)
        pos = rng.randrange(len(s) + 1)
        if k == 0 and s:
            s[min(pos, len(s) - 1)] = rng.choice(MUT_BYTES)
        elif k == 1:
            s.insert(pos, rng.choice(MUT_BYTES))
        elif s:
            del s[min(pos, len(s) - 1)]
    return bytes(s)


ALPHA12 = [b'<', b'>', b'&', b';', b'/', b'!', b'-', b'"', b"'", b'a', b'=', b' ']
PIECES = [b'<a>', b'</a>', b'<b>', b'</b>', b'<i>', b'</i>', b'<br>', b'<br/>', b'<x>', b'</x>', b't', b'&amp;', b'&', b'<', b'>',
          b'<!--c-->', b'<a href="http://h">', b'<a href="javascript:1">', b'<i class="k">', b'</br>', b'<B>', b'</I>', b'<p a="a">', b'<p a >']


def gen_cases(ctx):
    rng = ctx.rng
    cases = []
    fixed = fixed_rulesets()
    rand = [random_ruleset(rng) for _ in range(ctx.scale(6, 40))]
    # 1. exhaustive small strings over the 12-symbol alphabet
    maxlen = ctx.scale(3, 5)
    ex_rs = fixed[:5] if ctx.quick() else fixed[:3]
    for ln in range(0, maxlen + 1):
        for t in itertools.product(ALPHA12, repeat=ln):
            s = b''.join(t)
            for i, rs in enumerate(ex_rs):
                if ln <= 3 or i < 2:
                    cases.append(rs.case(s))
    # 2. exhaustive sequences of markup pieces (nesting logic)
    plen = ctx.scale(3, 4)
    for ln in range(1, plen + 1):
        for t in itertools.product(PIECES, repeat=ln):
            if ln == plen and ctx.quick() and rng.random() < 0.5:
                continue
            s = b''.join(t)
            cases.append(fixed[0].case(s))
            cases.append(fixed[1].case(s))
    # longer random piece sequences
    for _ in range(ctx.scale(4000, 150000)):
        s = b''.join(rng.choice(PIECES) for _ in range(rng.randrange(4, 14)))
        cases.append(rng.choice(fixed[:2] + fixed[6:]).case(s))
    # 3. grammar-guided documents and their mutations
    for _ in range(ctx.scale(9000, 300000)):
        rs = rng.choice(fixed + rand)
        s = gen_html(rng, rs)
        repl = rng.choice([0, 0, 0, 63, 32, 88, 60, 38])
        cases.append(rs.case(s, repl))
        for _ in range(rng.choice([0, 1, 2])):
            cases.append(rs.case(mutate(rng, s), repl))
    # 4. numeric entity boundaries, every rule set with numeric entities on and one without
    for cp in CP_BOUNDS + [c + d for c in (9, 32, 127, 160, 0xD800, 0xDC00, 0xE000, 0xFFFE, 0x10FFFF) for d in (-1, 1)]:
        if cp < 0:
            continue
        for txt in ('&#%d;' % cp, '&#x%x;' % cp, '&#X%X;' % cp, '&#0%d;' % cp):
            cases.append(fixed[0].case(txt.encode()))
            cases.append(fixed[3].case(txt.encode()))
            cases.append(fixed[2].case(txt.encode()))
    # 5. encoding: bad bytes around markup, all replacement characters
    for _ in range(ctx.scale(1500, 30000)):
        rs = rng.choice(fixed[2:] + rand)
        s = b''.join(rng.choice(BAD_BYTES + PIECES + [b'x', b'<a a="\xc3\xa9">', b'<a a="\xff">', b'&\xff;', b'<\xffa>']) for _ in range(rng.randrange(1, 8)))
        cases.append(rs.case(s, rng.choice([0, 63, 32, 60, 62, 38, 34, 59])))
    # 6. long inputs
    for ln in ([200, 1000] if ctx.quick() else [200, 1000, 5000]):
        for rs in fixed[:2]:
            s = b''.join(rng.choice(PIECES) for _ in range(ln))
            cases.append(rs.case(s))
    return cases


# ------------------------------------------------------------------------------------------------
# oracle on the implementation's answer alone
# ------------------------------------------------------------------------------------------------
VALUE_ENTS = [b'&amp;', b'&lt;', b'&gt;', b'&quot;', b'&apos;', b'&#x27;', b'&#X27;', b'&#39;']
VALUE_DEC = {b'&amp;': b'&', b'&lt;': b'<', b'&gt;': b'>', b'&quot;': b'"', b'&apos;': b"'", b'&#x27;': b"'", b'&#X27;': b"'", b'&#39;': b"'"}
WS = b' \t\r\n\x0c'


def cp_allowed_by_spec(cp):
    """XML Char minus the control ranges the filter also refuses"""
    if cp > 0x10FFFF or 0xD800 <= cp <= 0xDFFF or cp in (0xFFFE, 0xFFFF):
        return False
    if 0x7F <= cp <= 0x9F:
        return False
    if cp < 0x20 and cp not in (9, 10, 13):
        return False
    return True


def check_value(R, vk, raw):
    """attribute value as it stands in the output"""
    if b'<' in raw or b'>' in raw:
        return 'attribute-value-with-angle-bracket'
    i = 0
    dec = bytearray()
    while i < len(raw):
        if raw[i] == 0x26:
            for e in VALUE_ENTS:
                if raw.startswith(e, i):
                    dec += VALUE_DEC[e]
                    i += len(e)
                    break
            else:
                return 'attribute-value-with-bare-ampersand'
        else:
            dec.append(raw[i])
            i += 1
    if vk == 'i':
        if not re.fullmatch(rb'-?[0-9]+', raw):
            return 'integer-attribute-not-integer'
    elif vk.startswith('f'):
        spec = R['funs'][int(vk[1:])]
        if spec.startswith('re:'):
            pat = spec[3:]
            if pat != '.*' and not re.fullmatch(pat.encode('latin-1'), raw, re.S):
                return 'regex-attribute-does-not-match'
        else:
            # browser-lenient scheme extraction: control characters and blanks are ignored by browsers
            v = bytes(c for c in dec if c > 0x20)
            m = re.match(rb'([A-Za-z][A-Za-z0-9+.\-]*):', v)
            scheme = m.group(1) if m else None
            if spec == 'rel':
                if scheme is not None:
                    return 'relative-uri-attribute-with-scheme'
            else:
                allowed = DEFAULT_SCHEMES if spec == 'uri' else spec.split(':', 1)[1]
                if scheme is not None and not re.fullmatch(allowed.encode(), scheme):
                    return 'uri-scheme-not-white-listed'
                if scheme is None and spec.startswith('abs:'):
                    return 'absolute-uri-attribute-without-scheme'
    return None


def lenient_scan(R, out):
    """independent, browser-lenient tokenizer over filter output: returns None or a failure key"""
    n = len(out)
    i = 0
    while i < n:
        c = out[i]
        if c == 0x3E:
            return 'stray-gt'
        if c == 0x26:
            m = re.compile(rb'&(#[0-9]+|#[xX][0-9a-fA-F]+|[A-Za-z0-9]+);').match(out, i)
            if not m:
                return 'stray-ampersand'
            nm = m.group(1)
            if nm[:1] == b'#':
                if not R['numeric']:
                    return 'numeric-entity-not-allowed'
                cp = int(nm[2:], 16) if nm[1:2] in (b'x', b'X') else int(nm[1:])
                if not cp_allowed_by_spec(cp):
                    if 0xDC00 <= cp <= 0xDFFF:
                        return 'numeric-entity-low-surrogate'
                    return 'numeric-entity-bad-code-point'
            elif nm not in R['ents']:
                return 'entity-not-white-listed'
            i = m.end()
            continue
        if c != 0x3C:
            i += 1
            continue
        # '<'
        if out.startswith(b'<!--', i):
            if not R['comments']:
                return 'comment-not-allowed'
            j = out.find(b'-->', i + 4)
            if j < 0:
                return 'unterminated-comment'
            body = out[i + 4:j]
            if b'<' in body or b'>' in body or b'&' in body:
                return 'comment-with-markup'
            i = j + 3
            continue
        m = re.compile(rb'<(/?)([A-Za-z_][A-Za-z0-9]*)').match(out, i)
        if not m:
            return 'stray-lt'
        closing = m.group(1) == b'/'
        name = R['norm'](m.group(2))
        if name not in R['tags'] or R['tags'][name][0] == 0:
            return 'tag-not-white-listed'
        kind, attrs = R['tags'][name]
        j = m.end()
        seen = set()
        selfclose = False
        # browser style attribute parsing
        while True:
            while j < n and (out[j] in WS or out[j] == 0x2F):
                if out[j] == 0x2F and j + 1 < n and out[j + 1] == 0x3E:
                    selfclose = True
                j += 1
            if j >= n:
                return 'unterminated-tag'
            if out[j] == 0x3E:
                j += 1
                break
            k = j
            while k < n and out[k] not in WS and out[k] not in b'=>/':
                k += 1
            if k == j:
                return 'malformed-attribute'
            an = R['norm'](out[j:k])
            j = k
            while j < n and out[j] in WS:
                j += 1
            val = None
            if j < n and out[j] == 0x3D:
                j += 1
                while j < n and out[j] in WS:
                    j += 1
                if j < n and out[j] in b'"\'':
                    q = out[j]
                    e = out.find(bytes([q]), j + 1)
                    if e < 0:
                        return 'unterminated-attribute-value'
                    val = out[j + 1:e]
                    j = e + 1
                else:
                    e = j
                    while e < n and out[e] not in WS and out[e] != 0x3E:
                        e += 1
                    val = out[j:e]
                    j = e
                    return 'unquoted-attribute-value'
            if closing:
                return 'attribute-on-closing-tag'
            if an in seen:
                return 'duplicate-attribute'
            seen.add(an)
            if an not in attrs:
                return 'attribute-not-white-listed'
            vk = attrs[an]
            if val is None:
                if vk != 'b' or R['xhtml']:
                    return 'valueless-attribute-not-boolean'
            else:
                if vk == 'b':
                    if not R['xhtml'] or val != out[k - len(an):k]:
                        return 'boolean-attribute-with-value'
                else:
                    r = check_value(R, vk, val)
                    if r:
                        return r
        if closing and kind == 2:
            return 'closing-tag-of-stand-alone-tag'
        if selfclose and kind == 1:
            return 'self-closed-tag-of-paired-kind'
        i = j
    return None


def balanced_xhtml(R, out):
    """in XHTML mode every white-listed opening tag must be closed in order (independent stack check)"""
    st = []
    for m in re.finditer(rb'<(/?)([A-Za-z_][A-Za-z0-9]*)((?:[^>"\']|"[^"]*"|\'[^\']*\')*)>', out):
        if m.group(3).rstrip().endswith(b'/'):
            continue
        if m.group(1):
            if not st or st.pop() != m.group(2):
                return False
        else:
            st.append(m.group(2))
    return not st


def oracle(case, out):
    if out.startswith('<crash'):
        return ('crash', 'harness died on this input: ' + out)
    head = out.split(' | ')[0]
    if head.startswith('EXCEPTION') or head.startswith('BAD-RULES'):
        return ('exception', 'library threw: ' + head[:200])
    o = dict(t.split('=', 1) for t in head.split() if '=' in t)
    if not all(k in o for k in ('v', 'fl', 'rm', 'es', 'vrm', 'ves')):
        return ('bad-output', 'unexpected harness answer ' + out[:200])
    if 'PATHS-DIFFER' in head:
        return ('entry-points-disagree', 'the entry points of the filter disagree: ' + ' '.join(t for t in head.split() if t.startswith('PATHS')))
    f = fields_of(case)
    R = rules_of(f)
    x = unhex(f.get('in', '-'))
    rm, es = unhex(o['rm']), unhex(o['es'])
    if o['v'] != o['fl']:
        return ('validate-differs-from-filter-flag', 'validate() and validate_and_filter_if_invalid() give different verdicts')
    if o['v'] == '1' and (rm != x or es != x):
        return ('valid-input-changed', 'input validates but the filter changed it')
    for name, text, ok in (('remove_invalid', rm, o['vrm']), ('escape_invalid', es, o['ves'])):
        r = lenient_scan(R, text)
        if r:
            return (r, 'independent tokenizer over the %s output: %s' % (name, r))
        if R['xhtml'] and not balanced_xhtml(R, text):
            return ('unbalanced-xhtml-output', 'opening/closing tags of the %s output are not balanced' % name)
        if ok != '1':
            return ('filter-output-fails-validation', 'validate(filter(x)) is false for the %s output' % name)
    return None


def nontrivial(case, out):
    x = unhex(fields_of(case).get('in', '-'))
    return any(c in x for c in b'<>&')


def classify(case, out):
    f = fields_of(case)
    n = 0 if f.get('in', '-') == '-' else len(f['in']) // 2
    b = 'len0-3' if n <= 3 else 'len4-16' if n <= 16 else 'len17-64' if n <= 64 else 'len65-512' if n <= 512 else 'len>512'
    m = re.match(r'v=(\d)', out)
    return '%s:%s:%s:%s' % ('xhtml' if f['m'] == 'x' else 'html', 'enc' if f.get('enc', '-') != '-' else 'noenc',
                            'valid' if (m and m.group(1) == '1') else 'filtered', b)


# ------------------------------------------------------------------------------------------------
# two-phase differential: the harness answer carries the oracle table that the model needs
# ------------------------------------------------------------------------------------------------
def differential2(ctx, cases, exe, mexe):
    t0 = time.time()
    rc_i, out_i, err_i = vlib.run_lines_parallel(exe, cases)
    t1 = time.time()
    cov = ctx.coverage
    cov['evaluations'] = cov.get('evaluations', 0) + len(cases)
    cov['impl_wall_s'] = round(cov.get('impl_wall_s', 0) + t1 - t0, 2)
    if len(out_i) != len(cases):
        ctx.broke('implementation harness produced %d lines for %d cases (rc=%s)' % (len(out_i), len(cases), rc_i), err_i[-3000:])
        if len(out_i) < len(cases):
            bad = cases[len(out_i)]
            r = oracle(bad, '<crash rc=%s> %s' % (rc_i, err_i[-400:].replace('\n', ' | ')))
            if r:
                ctx.fail(r[0], r[1], bad)
        return
    out_m = None
    if mexe:
        mlines = []
        for c, o in zip(cases, out_i):
            tail = o.split(' | ', 1)
            mlines.append(c + ' ' + (tail[1] if len(tail) == 2 else 'F=- E=-'))
        rc_m, out_m, err_m = vlib.run_lines_parallel(mexe, mlines)
        if len(out_m) != len(cases):
            ctx.broke('model driver produced %d lines for %d cases' % (len(out_m), len(cases)), err_m[-2000:])
            out_m = None
    t2 = time.time()
    cov['model_wall_s'] = round(cov.get('model_wall_s', 0) + t2 - t1, 2)
    ndiff = 0
    hist = cov.setdefault('distribution', {})
    seen = cov.setdefault('_seen', set())
    for i, c in enumerate(cases):
        a = out_i[i]
        r = oracle(c, a)
        if r:
            ctx.fail(r[0], r[1] + '\n  case: %s\n  impl: %s' % (c[:600], a[:400]), c)
        head = a.split(' | ')[0]
        if out_m is not None and head != out_m[i]:
            ndiff += 1
            if ndiff <= 5:
                ctx.broke('correspondence model vs implementation: differ on case',
                          'case:  %s\nimpl:  %s\nmodel: %s' % (c[:800], head[:600], out_m[i][:600]))
        k = classify(c, a)
        hist[k] = hist.get(k, 0) + 1
        if nontrivial(c, a):
            seen.add(hashlib.md5(c.encode()).digest())
    cov['distinct_nontrivial'] = len(seen)
    cov['correspondence_differences'] = cov.get('correspondence_differences', 0) + ndiff
    if len(cov.get('samples', [])) < 6:
        step = max(1, len(cases) // 5)
        for i in range(0, len(cases), step):
            cov.setdefault('samples', []).append({'case': cases[i][:300], 'impl': out_i[i][:300],
                                                  'model': (out_m[i][:300] if out_m else None)})


def run(ctx):
    errs = vlib.gen_coq(GEN)
    for n, e in errs:
        ctx.broke('translator cxx2v failed on %s (tie to source broken)' % n, e)
    res = vlib.coq_props('C04')
    ctx.proof(res)
    ctx.coverage['trusted_base'] = [
        'Coq 8.16.1 kernel, vm_compute (256-point sweeps); no native_compute',
        'tools/cxx2v.py + clang 14 JSON AST (character classes regenerated from src/xss.cpp)',
        'extraction: ExtrOcamlBasic only, OCaml 4.13.1',
        'harness/C04_xss.cpp, ocaml/C04_driver.ml, checks/C04.py (generators, oracle table plumbing, independent python tokenizer)',
        'hand model of the loops of src/xss.cpp (coq/C04/Defs.v), tied by correspondence only',
        'regex engine (PCRE via booster::regex) and uri_parser: abstract functor answered by the real code during correspondence',
        'cppcms::encoding::valid / validate_or_filter: abstract, answered by the real code during correspondence (property C14)']
    ctx.assumptions = [
        'the validator functors (regex, URI, user supplied) are pure functions of the attribute value',
        'encoding::valid and encoding::validate_or_filter agree on validity and the filtered text is valid (Section hypotheses of the theorems that mention the encoding; property C14)',
        'rule sets in which the same tag/attribute is not registered twice under names that compare equal (std::map semantics are not modelled)',
        'char is signed 8-bit on this target (x86-64), as clang reports']
    exe, err = vlib.build_harness('C04_xss', ['C04_xss.cpp'])
    if not exe:
        ctx.broke('harness build failed', err)
        return
    mexe, err = vlib.build_model('C04', 'C04_driver.ml', 'c04m')
    if not mexe:
        ctx.broke('model extraction/build failed', err)
    if ctx.replay_cases is not None:
        cases = ctx.replay_cases
    else:
        cases = vlib.corpus_cases('C04') + gen_cases(ctx)
    ctx.coverage['rule'] = (
        'cases: rule set description + replacement char + hex input. Exhaustive: all strings of length<=3 (thorough: <=5) over the 12 symbols '
        '< > & ; / ! - " \' a = space under 5 rule sets; all sequences of <=3 (thorough: <=4) of 24 markup pieces under an xhtml and an html '
        'rule set. Random (seeded): piece sequences, grammar-guided documents (nested/unterminated/mismatched tags, attributes of every '
        'validator kind with good and bad values, mixed quotes, entities incl. numeric boundaries, comments incl. -- inside, invalid UTF-8, '
        'NUL) and single-byte mutations of them under 8 fixed + random rule sets (xhtml/html, tag kinds, boolean/integer/regex/uri/absolute/'
        'relative attributes, comments and numeric entities on/off, encodings none/UTF-8/ISO-8859-x/windows-125x/koi8/ascii), replacement '
        'characters 0 ? space X < & > " ;. A case is non-trivial when the input contains at least one of < > &; distinct = distinct case lines.')
    ctx.coverage['exhaustive'] = False
    ctx.coverage['exhaustive_parts'] = ['strings of length<=%d over 12 symbols' % ctx.scale(3, 5),
                                        'piece sequences of length<=%d (quick: half of the longest)' % ctx.scale(3, 4)]
    differential2(ctx, cases, exe, mexe)
