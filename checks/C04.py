"""C04 -- XSS filter output contains only white-listed markup and is stable."""
import os, re, time, hashlib, itertools
import vlib
from vlib import hexs, unhex

META = dict(
    property_id='C04',
    design_ref='DESIGN.md section 4, C04',
    technique='Coq proof about an executable model of the encoding-validation/tokeniser/parser/nesting/white-list/URI-parser pipeline (encoding validators concrete, UTF-8 decoder regenerated from source) + extracted-model correspondence + implementation-only oracle with an independent well-formedness judge',
    level_text=('Theorems in coq/C04/Props.v (docs/C04.md lists them), for all byte strings and all rule sets (flags + arbitrary tag / entity / attribute '
                'functions), both filtering methods, xhtml and html: filter output = concatenation of white-listed token texts and text without < > and with & '
                'only in 8 entity spellings (filter_shape, no_stray_markup, token_whitelisted with an explicit grammar of tags/attributes/values); '
                'validate == flag of validate_and_filter, valid input unchanged; stability proved in '
                'full: validate(filter x) = true and filter idempotent (premises on the rule set proved for every API-built rule set). '
                'Encoding clause: the encoding validators are concrete in the model (coq/C04/DefsE.v selects, by the encoding name of the rule set, the UTF-8 '
                'decoder model / single byte validator models of coq/C14/Defs.v, as src/encoding.cpp does); validate_implies_wellformed_utf8: for every '
                'name that normalises to utf8, whatever validate accepts is a sequence of RFC 3629 UTF8-char (ABNF as an inductive predicate) = the '
                'concatenated shortest-form encodings of scalar values <= U+10FFFF without surrogates, none a C0 control other than tab/LF/CR, DEL or a C1 '
                'control - unconditionally; the same for every filter output (filter_output_wellformed_utf8, concrete_utf8_filter), with verdict agreement, '
                'identity on valid input and stability, with no premise about the validators; single byte code pages: accepted text and filter output consist of '
                'bytes the table accepts, no C0/DEL, no C1 for ISO-8859 (validate_implies_wellformed_single_byte, single_byte_filter_validates); names '
                'without a built-in validator: accepted text converts to well-formed UTF-8 (the iconv conversions stay abstract functions). '
                'URI validators (uri_parser modelled): accepted values are URI characters only and a value with a '
                'browser-visible scheme is accepted only if the scheme expression matches it, the relative validator accepts no scheme, the absolute-only '
                'validator accepts exactly the values scheme ":" hier-part [?query] [#fragment] whose scheme the scheme expression matches '
                '(absolute_uri_requires_scheme, absolute_uri_validator_exact, also stated through the rule set for an attribute registered with such a '
                'validator), the relative validator exactly the values without visible scheme that relative-ref consumes, the third validator the union; '
                'the visible scheme is unchanged by decoding the character references permitted inside a value (uri_scheme_survives_entity_decoding); '
                'integer attributes are -?digit+, boolean attributes name="name" (xhtml) / valueless (html). '
                'The model is tied to src/xss.cpp by running the extracted model '
                'and the real validate / validate_and_filter_if_invalid / filter (rule sets built through the public API and the JSON constructor) on the '
                'same cases, with PCRE and iconv answered by the real code and the encoding validators computed by the model itself; character classes, escape table, code point test, '
                'entity spellings, the integer test, uri_parser leafs, the scheme character test, the alternatives of pchar / query / segment / reg_name / '
                'userinfo, the entry points parse / parse_full and the control skeleton of the composite URI rules, the c_string comparator, and the leafs '
                'utf::valid / utf8::is_trail / trail_length / width of the UTF-8 decoder (private/utf_iterator.h) are '
                'regenerated from the source (cxx2v / clang AST) on every run and proved equal to the model leafs (Link.v, LinkE.v). The oracle judges '
                'well-formedness in the declared encoding independently of the implementation (python strict decoders / code page tables + control character rule) '
                'for whatever validate accepts and for every filter output. '
                'Regex-typed attributes: the regex validator is concrete in the model for the pattern family the rule sets use (coq/C04/DefsR.v: pattern text -> '
                'regular expression of coq/C20/Defs.v, decided by C20\'s verified derivative matcher); regex_attribute_checked: such an attribute is accepted only if the '
                'WHOLE value is in the language of the pattern (regex_validator_exact, regex_class_languages, regex_rejects_trailing_byte: under [a-z]+ no value '
                'followed by a line feed or any other byte outside the class); the model\'s verdict is compared with the real regex_functor\'s for every value asked; the '
                'oracle re-judges every regex-typed value with python re.fullmatch. Numeric character references: the conversion long code_point = strtol(...) is '
                'modelled with saturation at LONG_MAX (coq/C04/DefsN.v) and proved to give, for every text, the verdict of the mathematical value of the digit string '
                '(numeric_reference_conversion_exact, numeric_reference_accepted_iff: digit strings of any length); the oracle judges with python big integers. '
                'RIGID ties (src_regex_anchoring_and_entity_conversion, coq/C04/LinkR.v): the statements of regex::assign / regex::match in '
                'booster/lib/regex/src/pcre_regex.cpp (the wrapper "(?:" pattern ")\\z" compiled into d->are, pcre_exec with PCRE_ANCHORED), booster::regex_match, the '
                'regex_functor of xss.cpp, and the declaration long code_point / the two strtol calls of parse_html_entity, rendered from the AST, must be literally '
                'the recorded text.'),
    level_note=('Trusted: Coq kernel + vm_compute; cxx2v and clang AST; ExtrOcamlBasic extraction; hand model of the loops of src/xss.cpp '
                'incl. the composite rules of class uri_parser (behaviour tied by correspondence; their control skeleton by a literal comparison in Link.v); '
                'hand model of utf8::next (switch with fall-through), validate_or_filter and the validators_set table (coq/C14/Defs.v, owned by C14, imported read-only; '
                'tied here by correspondence on encoding boundary material: boundary code points in shortest and every over-long form, truncations, stray and bad '
                'trail bytes, a grid of lead/second/trail byte classes, every byte under every single byte validator); '
                'PCRE itself is not modelled: for patterns of the family of DefsR.v the model decides and the real engine is cross-checked on every value asked, '
                'patterns outside the family and the scheme expressions of URI validators are abstract functions (the oracle re-checks them with python re); '
                'the pattern parser of DefsR.v is unverified against PCRE syntax (tied by that cross-check); long = 64 bits (LP64) and strtol saturating at LONG_MAX are '
                'the C library semantics assumed in DefsN.v; the iconv conversions for names without a built-in validator are abstract.'),
)

GEN = {
    'Gen_xss': dict(src='src/xss.cpp',
                    functions=[('ascii_isalpha', 'g_xss_isalpha'), ('ascii_tolower', 'g_xss_tolower'),
                               ('ascii_isdigit', 'g_xss_isdigit'), ('ascii_isalnum', 'g_xss_isalnum'),
                               ('ascii_isxdigit', 'g_xss_isxdigit'), ('ascii_isspace', 'g_xss_isspace')]),
    # details::c_string (private/c_string.h): the character comparison behind the case insensitive maps of html mode
    'Gen_cstr': dict(src='src/xss.cpp',
                     functions=[('tolower', 'g_cstr_tolower', 'c_string::tolower'), ('ilt', 'g_cstr_ilt', 'c_string::ilt')]),
    # static helpers of class uri_parser
    'Gen_uri': dict(src='src/xss.cpp',
                    functions=[('is_digit', 'g_uri_isdigit'), ('is_alapha', 'g_uri_isalpha'), ('is_hex', 'g_uri_ishex')]),
    # the leaf functions of cppcms::utf8::next (private/utf_iterator.h), the decoder behind encoding::valid("UTF-8") and
    # validate_or_filter that xss::validate / validate_and_filter_if_invalid call; translated from src/encoding.cpp, which
    # instantiates them (the same leafs C14 ties, regenerated here under C04's own name so that this check stands alone)
    'Gen_C04utf': dict(src='src/encoding.cpp',
                       functions=[('valid', 'g_c04_utf_valid', 'utf::valid'), ('is_trail', 'g_c04_is_trail', 'utf8::is_trail'),
                                  ('trail_length', 'g_c04_trail_length', 'utf8::trail_length'), ('width', 'g_c04_width', 'utf8::width')]),
}

DEFAULT_SCHEMES = '(http|https|ftp|mailto|news|nntp)'


def zcodes(t):
    return '[%s]' % '; '.join(str(ord(ch)) for ch in t)


def grammar_strip(n):
    while isinstance(n, dict) and n.get('kind') in ('ParenExpr', 'ImplicitCastExpr', 'ExprWithCleanups') and n.get('inner'):
        n = n['inner'][0]
    return n


def grammar_atom(n):
    """one operand of an alternative / conjunction of uri_parser, as text: name() / name(<char code>) / name(s<codes>) / a==b / a!=b / true"""
    import cxx2v, json
    n = grammar_strip(n)
    k = n.get('kind')
    if k == 'CXXMemberCallExpr':
        callee = grammar_strip(n['inner'][0])
        if callee.get('kind') != 'MemberExpr' or grammar_strip(callee['inner'][0]).get('kind') != 'CXXThisExpr':
            raise cxx2v.Unsupported('grammar: call that is not this->method()')
        args = []
        for a in n['inner'][1:]:
            a = grammar_strip(a)
            if a.get('kind') == 'CharacterLiteral':
                args.append(str(a['value']))
            elif a.get('kind') == 'StringLiteral':
                args.append('s' + '.'.join(str(ord(ch)) for ch in json.loads(a['value'])))
            else:
                raise cxx2v.Unsupported('grammar: argument of kind %s' % a.get('kind'))
        return '%s(%s)' % (callee['name'], ','.join(args))
    if k == 'BinaryOperator' and n.get('opcode') in ('==', '!='):
        l, r = grammar_strip(n['inner'][0]), grammar_strip(n['inner'][1])
        if l.get('kind') == 'MemberExpr' and r.get('kind') == 'MemberExpr':
            return '%s%s%s' % (l['name'], n['opcode'], r['name'])
    if k == 'CXXBoolLiteralExpr':
        return 'true' if n.get('value') else 'false'
    if k == 'UnaryOperator' and n.get('opcode') == '!':
        return '!' + grammar_atom(n['inner'][0])
    raise cxx2v.Unsupported('grammar: operand of kind %s' % k)


def grammar_operands(n):
    """operator followed by the operands of a || or && chain (a single operand: operator '-')"""
    n = grammar_strip(n)
    if n.get('kind') == 'BinaryOperator' and n.get('opcode') in ('||', '&&'):
        op = n['opcode']

        def flat(x):
            x = grammar_strip(x)
            if x.get('kind') == 'BinaryOperator' and x.get('opcode') == op:
                return flat(x['inner'][0]) + flat(x['inner'][1])
            return [grammar_atom(x)]
        return [op] + flat(n)
    return ['-', grammar_atom(n)]


def gen_extra():
    """Pieces of src/xss.cpp that are not stand-alone functions, translated with the cxx2v primitives into
    coq/gen/Gen_xss2.v: (1) the per-byte escaping loop of validate_and_filter_if_invalid (the first loop of that
    function whose body starts with a char variable), (2) the code-point rejection test of parse_html_entity (the
    disjuncts of the if-condition that mentions code_point, except the two about endptr), (3) the entity
    spellings tried by validate_property_value (its string literals, in order).  Returns [(name, error)]."""
    import cxx2v, json
    out = os.path.join(vlib.COQ, 'gen', 'Gen_xss2.v')
    src = os.path.join(vlib.REPO, 'src/xss.cpp')
    hasbody = lambda n: any(c.get('kind') == 'CompoundStmt' for c in n.get('inner', []))

    def func(name):
        objs = cxx2v.run_clang(src, name, vlib.repo_incs(), 'c++11')
        fds = cxx2v.find_decl(objs, 'FunctionDecl', name, hasbody)
        if not fds:
            raise cxx2v.Unsupported('function %s not found in src/xss.cpp' % name)
        return fds[0]

    try:
        lines = ['(* GENERATED by checks/C04.py (cxx2v primitives) from %s -- do not edit *)' % src,
                 'From Coq Require Import ZArith List Bool String.', 'From CppcmsV Require Import Base.CSem gen.Gen_uri.',
                 'Local Open Scope Z_scope.', 'Import ListNotations.', '']
        # (1) escaping loop
        fd = func('validate_and_filter_if_invalid')
        loops = []
        cxx2v.find_loops(fd, loops)
        code = None
        for i in range(len(loops)):
            try:
                code = cxx2v.translate_transducer(fd, 'g_xss_escape_step', {}, {}, {}, loop_index=i)
                break
            except cxx2v.Unsupported:
                continue
        if code is None:
            raise cxx2v.Unsupported('no per-byte escaping loop found in validate_and_filter_if_invalid')
        lines.append(code)
        # (2) code point test
        fd = func('parse_html_entity')
        vds = cxx2v.find_decl([fd], 'VarDecl', 'code_point')
        if len(vds) != 1:
            raise cxx2v.Unsupported('local code_point not found in parse_html_entity')
        cpid = vds[0]['id']

        def mentions(n):
            if not isinstance(n, dict):
                return False
            if n.get('kind') == 'DeclRefExpr' and n['referencedDecl']['id'] == cpid:
                return True
            return any(mentions(c) for c in n.get('inner', []) or [])
        ifs = []

        def walk(n):
            if not isinstance(n, dict):
                return
            if n.get('kind') == 'IfStmt' and mentions(n['inner'][0]):
                ifs.append(n)
            for c in n.get('inner', []) or []:
                walk(c)
        walk(fd)
        if len(ifs) != 1:
            raise cxx2v.Unsupported('expected exactly one if-condition on code_point, found %d' % len(ifs))

        def disj(n):
            while n['kind'] == 'ParenExpr':
                n = n['inner'][0]
            if n['kind'] == 'BinaryOperator' and n['opcode'] == '||':
                return disj(n['inner'][0]) + disj(n['inner'][1])
            return [n]
        tr = cxx2v.Tr('', {}, {})
        tr.consts = {}
        tr.ids[cpid] = 'cp'
        good, skipped = [], 0
        for d in disj(ifs[0]['inner'][0]):
            if mentions(d):
                good.append(tr.expr(d))
            else:
                skipped += 1
        if skipped != 2 or not good:
            raise cxx2v.Unsupported('code point test: expected the two endptr tests + code point tests, got %d other disjuncts' % skipped)
        # the then-branch must reject: part.type = invalid_data; return
        then_txt = json.dumps(ifs[0]['inner'][1])
        if 'invalid_data' not in then_txt or 'ReturnStmt' not in then_txt:
            raise cxx2v.Unsupported('code point test: the guarded branch no longer rejects')
        body = good[0]
        for g in good[1:]:
            body = '(orb %s %s)' % (body, g)
        lines.append('Definition g_xss_cp_rejected (cp : Z) : bool :=\n  %s.\n' % body)
        # (3) entity spellings of validate_property_value
        fd = func('validate_property_value')
        lits = []

        def walk2(n):
            if not isinstance(n, dict):
                return
            if n.get('kind') == 'StringLiteral':
                lits.append(json.loads(n['value']))
            for c in n.get('inner', []) or []:
                walk2(c)
        walk2(fd)
        lines.append('Definition g_xss_value_entities : list (list Z) :=\n  [%s].\n' % '; '.join(
            '[%s]' % '; '.join(str(ord(ch)) for ch in l) for l in lits))
        # (4) uri_parser::sub_delims: the case labels and the two entity spellings; (5) uri_parser::unreserved: its test
        uri_ast = {}

        def method(name):
            # one AST dump of class uri_parser serves all its methods (the dump lists a method inside the class and on its own)
            if 'objs' not in uri_ast:
                uri_ast['objs'] = cxx2v.run_clang(src, 'uri_parser', vlib.repo_incs(), 'c++11')
            byid = {}
            for fd in cxx2v.find_decl(uri_ast['objs'], 'CXXMethodDecl', name, hasbody):
                byid[fd['id']] = fd
            if len(byid) != 1:
                raise cxx2v.Unsupported('method uri_parser::%s: %d definitions' % (name, len(byid)))
            return list(byid.values())[0]
        fd = method('sub_delims')
        labels, words = [], []

        def walk3(n):
            if not isinstance(n, dict):
                return
            if n.get('kind') == 'CaseStmt':
                labels.append(cxx2v.const_int(n['inner'][0]))
            if n.get('kind') == 'StringLiteral':
                words.append(json.loads(n['value']))
            for c in n.get('inner', []) or []:
                walk3(c)
        walk3(fd)
        lines.append('Definition g_uri_subdelim_chars : list Z := [%s].' % '; '.join(str(v) for v in labels))
        lines.append('Definition g_uri_subdelim_words : list (list Z) := [%s].\n' % '; '.join(
            '[%s]' % '; '.join(str(ord(ch)) for ch in w) for w in words))
        fd = method('unreserved')
        vds = cxx2v.find_decl([fd], 'VarDecl', 'c')
        if len(vds) != 1:
            raise cxx2v.Unsupported('uri_parser::unreserved: local c not found')
        cid = vds[0]['id']

        def mentions_c(n):
            if not isinstance(n, dict):
                return False
            if n.get('kind') == 'DeclRefExpr' and n['referencedDecl']['id'] == cid:
                return True
            return any(mentions_c(c) for c in n.get('inner', []) or [])
        uifs = []

        def walk4(n):
            if not isinstance(n, dict):
                return
            if n.get('kind') == 'IfStmt' and mentions_c(n['inner'][0]):
                uifs.append(n)
            for c in n.get('inner', []) or []:
                walk4(c)
        walk4(fd)
        if len(uifs) != 1:
            raise cxx2v.Unsupported('uri_parser::unreserved: expected one test of c')
        tr2 = cxx2v.Tr('', {'is_alapha': 'g_uri_isalpha', 'is_digit': 'g_uri_isdigit'}, {})
        tr2.consts = {}
        tr2.ids[cid] = 'c'
        lines.append('Definition g_uri_unreserved (c : Z) : bool :=\n  %s.\n' % tr2.expr(uifs[0]['inner'][0]))
        # (6) uri_parser::scheme: the character test of its loop, begin_ != end_ && (is_alapha((c = *begin_)) || ... ), with the
        #     assignment expression replaced by the variable it assigns
        fd = method('scheme')
        vds = cxx2v.find_decl([fd], 'VarDecl', 'c')
        whiles = []

        def walk5(n):
            if not isinstance(n, dict):
                return
            if n.get('kind') == 'WhileStmt':
                whiles.append(n)
            for c in n.get('inner', []) or []:
                walk5(c)
        walk5(fd)
        if len(vds) != 1 or len(whiles) != 1:
            raise cxx2v.Unsupported('uri_parser::scheme: expected one local c and one loop')
        scid = vds[0]['id']
        cond = whiles[0]['inner'][0]
        if not (cond.get('kind') == 'BinaryOperator' and cond.get('opcode') == '&&'
                and grammar_atom(cond['inner'][0]) == 'begin_!=end_'):
            raise cxx2v.Unsupported('uri_parser::scheme: loop condition is not begin_ != end_ && (...)')

        def unassign(n):
            """replace (c = *begin_) by c"""
            if not isinstance(n, dict):
                return n
            if n.get('kind') == 'ParenExpr':
                b = n['inner'][0]
                if (b.get('kind') == 'BinaryOperator' and b.get('opcode') == '=' and b['inner'][0].get('kind') == 'DeclRefExpr'
                        and b['inner'][0]['referencedDecl']['id'] == scid and 'begin_' in json.dumps(b['inner'][1])):
                    return b['inner'][0]
            m = dict(n)
            if 'inner' in n:
                m['inner'] = [unassign(c) for c in n['inner']]
            return m
        test = unassign(cond['inner'][1])
        if '"opcode": "="' in json.dumps(test):
            raise cxx2v.Unsupported('uri_parser::scheme: unexpected assignment in the character test')
        tr3 = cxx2v.Tr('', {'is_alapha': 'g_uri_isalpha', 'is_digit': 'g_uri_isdigit'}, {})
        tr3.consts = {}
        tr3.ids[scid] = 'c'
        lines.append('Definition g_uri_schemech (c : Z) : bool :=\n  %s.\n' % tr3.expr(test))
        # (7) the grammar of uri_parser as far as it is written as alternatives / conjunctions of calls: for each listed method the
        #     operands of its return expression (return a() || b() ...; return a() && x == y;) or of the condition of its only loop
        gram = []
        for name, where in (('pchar', 'return'), ('query', 'while'), ('segment', 'while'), ('segment_nz_nc', 'while'), ('reg_name', 'while'),
                            ('userinfo', 'while'), ('host', 'return'), ('fragment', 'return'), ('parse', 'return'),
                            ('parse_relative', 'return'), ('parse_full', 'return')):
            fd = method(name)
            found = []

            def walk6(n, kind):
                if not isinstance(n, dict):
                    return
                if n.get('kind') == kind:
                    found.append(n)
                for c in n.get('inner', []) or []:
                    walk6(c, kind)
            walk6(fd, 'ReturnStmt' if where == 'return' else 'WhileStmt')
            if len(found) != 1:
                raise cxx2v.Unsupported('uri_parser::%s: expected exactly one %s' % (name, where))
            gram.append((name, grammar_operands(found[0]['inner'][0])))
        for n, al in gram:
            for t in [n] + al:
                if not re.fullmatch(r'[A-Za-z0-9_()|&=!,.\-]+', t):
                    raise cxx2v.Unsupported('grammar: unexpected text %r' % t)
        lines.append('Definition g_uri_grammar : list (string * list string) :=\n  [%s].\n' % ';\n   '.join(
            '("%s"%%string, [%s])' % (n, '; '.join('"%s"%%string' % a for a in al)) for n, al in gram))
        # (7b) control skeleton of the composite rules of uri_parser: the conditions of all if / while statements and the operands
        #      of all return statements of each listed method, in source order ("if" / "while" / "return" followed by the operands)
        ctrl = []
        for name in ('uri', 'relative_ref', 'relative_part', 'hier_part', 'authority', 'path_absolute', 'path_rootless',
                     'path_noscheme', 'path_abempty', 'segment_nz'):
            fd = method(name)
            items = []

            def walk8(n):
                if not isinstance(n, dict):
                    return
                k = n.get('kind')
                if k == 'IfStmt':
                    items.append(['if'] + grammar_operands(n['inner'][0]))
                elif k == 'WhileStmt':
                    items.append(['while'] + grammar_operands(n['inner'][0]))
                elif k == 'ReturnStmt':
                    items.append(['return'] + grammar_operands(n['inner'][0]))
                for c in (n.get('inner', []) or [])[(1 if k in ('IfStmt', 'WhileStmt') else 0):]:
                    walk8(c)
            walk8(fd)
            ctrl.append((name, items))
        for n, items in ctrl:
            for t in [n] + [x for it in items for x in it]:
                if not re.fullmatch(r'[A-Za-z0-9_()|&=!,.\-]+', t):
                    raise cxx2v.Unsupported('grammar: unexpected text %r' % t)
        lines.append('Definition g_uri_control : list (string * list (list string)) :=\n  [%s].\n' % ';\n   '.join(
            '("%s"%%string, [%s])' % (n, '; '.join('[%s]' % '; '.join('"%s"%%string' % x for x in it) for it in items)) for n, items in ctrl))
        # (8) integer_property_functor: the test that rejects a character inside its loop
        fd = func('integer_property_functor')
        vds = cxx2v.find_decl([fd], 'VarDecl', 'c')
        if len(vds) != 1:
            raise cxx2v.Unsupported('integer_property_functor: local c not found')
        icid = vds[0]['id']

        def mentions_ic(n):
            if not isinstance(n, dict):
                return False
            if n.get('kind') == 'DeclRefExpr' and n['referencedDecl']['id'] == icid:
                return True
            return any(mentions_ic(c) for c in n.get('inner', []) or [])
        iifs = []

        def walk7(n):
            if not isinstance(n, dict):
                return
            if n.get('kind') == 'IfStmt' and mentions_ic(n['inner'][0]):
                iifs.append(n)
            for c in n.get('inner', []) or []:
                walk7(c)
        walk7(fd)
        if len(iifs) != 1:
            raise cxx2v.Unsupported('integer_property_functor: expected one test of c')
        then_txt = json.dumps(iifs[0]['inner'][1])
        if 'ReturnStmt' not in then_txt or 'CXXBoolLiteralExpr' not in then_txt or '"value": false' not in then_txt:
            raise cxx2v.Unsupported('integer_property_functor: the guarded branch no longer returns false')
        tr4 = cxx2v.Tr('', {}, {})
        tr4.consts = {}
        tr4.ids[icid] = 'c'
        lines.append('Definition g_xss_int_reject (c : Z) : bool :=\n  %s.\n' % tr4.expr(iifs[0]['inner'][0]))
        with vlib.Lock('gen-Gen_xss2'):
            vlib.write_if_changed(out, '\n'.join(lines) + '\n')
        return []
    except cxx2v.Unsupported as e:
        with vlib.Lock('gen-Gen_xss2'):
            vlib.write_if_changed(out, '(* translator failed: %s *)\nDefinition broken : False := I.\n' % str(e).replace('*)', '* )').replace('"', "'"))
        return [('Gen_xss2', str(e))]


def gen_next():
    """cppcms::utf8::next (private/utf_iterator.h, the instantiation for char const * that src/encoding.cpp uses): every expression of its
    body (conditions, initialisers, assigned values) translated with the cxx2v expression translator into coq/gen/Gen_C04next.v as a function of
    (html, lead, trail_size, c, tmp), plus the statement skeleton of the body in source order as a list of strings that refers to these
    expressions by name (reads of the input `*p++` = read, tests `p==e` = eof).  Returns [(name, error)]."""
    import cxx2v, json
    out = os.path.join(vlib.COQ, 'gen', 'Gen_C04next.v')
    src = os.path.join(vlib.REPO, 'src/encoding.cpp')
    U = cxx2v.Unsupported
    try:
        objs = cxx2v.run_clang(src, 'utf8::next', vlib.repo_incs(), 'c++11')
        insts = []

        def find(n):
            if not isinstance(n, dict):
                return
            if n.get('kind') == 'FunctionDecl' and n.get('name') == 'next' and 'const char *&' in n.get('type', {}).get('qualType', '') \
                    and any(c.get('kind') == 'CompoundStmt' for c in n.get('inner', [])):
                insts.append(n)
            for c in n.get('inner', []) or []:
                find(c)
        for o in objs:
            find(o)
        if len(insts) != 1:
            raise U('utf8::next<char const *>: %d instantiations with a body' % len(insts))
        fd = insts[0]
        tr = cxx2v.Tr('', {'is_trail': 'g_c04_is_trail', 'trail_length': 'g_c04_trail_length', 'width': 'g_c04_width', 'valid': 'g_c04_utf_valid'}, {})
        tr.consts = {}
        names = {}
        for c in fd.get('inner', []):
            if c.get('kind') == 'ParmVarDecl' and c.get('name'):
                names[c['id']] = c['name']
        VARS = ('html', 'lead', 'trail_size', 'c', 'tmp')
        exprs, skel = [], []

        def strip(n):
            while isinstance(n, dict) and n.get('kind') in ('ParenExpr', 'ImplicitCastExpr', 'ExprWithCleanups', 'CStyleCastExpr') and n.get('inner'):
                n = n['inner'][0]
            return n

        def refname(n):
            n = strip(n)
            if n.get('kind') == 'DeclRefExpr':
                return names.get(n['referencedDecl']['id'], n['referencedDecl'].get('name'))
            return None

        def is_read(n):
            n = strip(n)
            if n.get('kind') == 'UnaryOperator' and n.get('opcode') == '*':
                s_ = strip(n['inner'][0])
                return s_.get('kind') == 'UnaryOperator' and s_.get('opcode') == '++' and s_.get('isPostfix') and refname(s_['inner'][0]) == 'p'
            return False

        def is_eof(n):
            n = strip(n)
            return n.get('kind') == 'BinaryOperator' and n.get('opcode') == '==' and [refname(x) for x in n['inner']] == ['p', 'e']

        def named(n, want_bool):
            for vid, nm in names.items():
                if nm in VARS:
                    tr.ids[vid] = nm
            code = tr.expr(n)
            isb = cxx2v.tyinfo(n['type'])[0] == 'b'
            if isb != want_bool:
                raise U('utf8::next: expression of unexpected type')
            for i, (c0, b0) in enumerate(exprs):
                if c0 == code:
                    return 'e%d' % i
            exprs.append((code, isb))
            return 'e%d' % (len(exprs) - 1)

        def ser(st):
            k = st.get('kind')
            if k == 'CompoundStmt':
                for c in st.get('inner', []) or []:
                    ser(c)
            elif k == 'IfStmt':
                inner = st['inner']
                if len(inner) != 2:
                    raise U('utf8::next: if with else')
                skel.append('if %s {' % ('eof' if is_eof(inner[0]) else named(inner[0], True)))
                ser(inner[1])
                skel.append('}')
            elif k == 'ReturnStmt':
                r = refname(st['inner'][0])
                if r is None:
                    raise U('utf8::next: return of an expression')
                skel.append('ret %s' % r)
            elif k == 'DeclStmt':
                for vd in st['inner']:
                    if vd.get('kind') != 'VarDecl':
                        raise U('utf8::next: declaration of kind %s' % vd.get('kind'))
                    names[vd['id']] = vd['name']
                    init = [c for c in vd.get('inner', []) if isinstance(c, dict)]
                    if not init:
                        skel.append('decl %s' % vd['name'])
                    elif is_read(init[0]):
                        skel.append('%s := read' % vd['name'])
                    else:
                        skel.append('%s := %s' % (vd['name'], named(init[0], False)))
            elif k == 'BinaryOperator' and st.get('opcode') == '=':
                lhs = refname(st['inner'][0])
                if lhs is None:
                    raise U('utf8::next: assignment to something that is not a variable')
                skel.append('%s := %s' % (lhs, 'read' if is_read(st['inner'][1]) else named(st['inner'][1], False)))
            elif k == 'SwitchStmt':
                skel.append('switch %s {' % refname(st['inner'][0]))
                ser(st['inner'][1])
                skel.append('}')
            elif k == 'CaseStmt':
                skel.append('case %d' % cxx2v.const_int(st['inner'][0]))
                ser(st['inner'][-1])
            elif k in ('UsingDecl', 'NullStmt'):
                pass
            else:
                raise U('utf8::next: statement of kind %s' % k)
        body = [c for c in fd['inner'] if c.get('kind') == 'CompoundStmt'][0]
        for st in body.get('inner', []) or []:
            if st.get('kind') == 'DeclStmt' and all(c.get('kind') == 'UsingDecl' for c in st.get('inner', [])):
                continue
            ser(st)
        for t in skel:
            if not re.fullmatch(r'[A-Za-z0-9_ :={}]+', t):
                raise U('utf8::next: unexpected skeleton text %r' % t)
        lines = ['(* GENERATED by checks/C04.py (cxx2v expression translator) from cppcms::utf8::next<char const *> as instantiated by %s -- do not edit *)' % src,
                 'From Coq Require Import ZArith List Bool String.', 'From CppcmsV Require Import Base.CSem gen.Gen_C04utf.',
                 'Local Open Scope Z_scope.', 'Import ListNotations.', '']
        for i, (code, isb) in enumerate(exprs):
            lines.append('Definition g_c04_next_e%d (html : bool) (lead trail_size c tmp : Z) : %s :=\n  %s.\n' % (i, 'bool' if isb else 'Z', code))
        lines.append('Definition g_c04_next_skeleton : list string :=\n  [%s].\n' % ';\n   '.join('"%s"%%string' % t for t in skel))
        txt, err = '\n'.join(lines) + '\n', []
    except cxx2v.Unsupported as e:
        txt = '(* translator failed: %s *)\nDefinition broken : False := I.\n' % str(e).replace('*)', '* )').replace('"', "'")
        err = [('Gen_C04next', str(e))]
    with vlib.Lock('gen-Gen_C04next'):
        vlib.write_if_changed(out, txt)
    return err


SB_VALIDATORS = [  # template name in private/encoding_validators.h -> generated Coq name
    ('ascii_valid', 'g_c04_sb_ascii'), ('iso_8859_1_2_4_5_9_10_13_14_15_16_valid', 'g_c04_sb_iso'),
    ('iso_8859_3_valid', 'g_c04_sb_iso3'), ('iso_8859_6_valid', 'g_c04_sb_iso6'), ('iso_8859_7_valid', 'g_c04_sb_iso7'),
    ('iso_8859_8_valid', 'g_c04_sb_iso8'), ('iso_8859_11_valid', 'g_c04_sb_iso11'),
    ('windows_1250_valid', 'g_c04_sb_1250'), ('windows_1251_valid', 'g_c04_sb_1251'), ('windows_1252_valid', 'g_c04_sb_1252'),
    ('windows_1253_valid', 'g_c04_sb_1253'), ('windows_1255_valid', 'g_c04_sb_1255'),   # windows_1254_valid is never instantiated: not in the table
    ('windows_1256_valid', 'g_c04_sb_1256'), ('windows_1257_valid', 'g_c04_sb_1257'), ('windows_1258_valid', 'g_c04_sb_1258'),
    ('koi8_valid', 'g_c04_sb_koi8'),
]


def gen_enc():
    """coq/gen/Gen_C04enc.v from src/encoding.cpp of the checked tree:
    (1) for each single byte validator of private/encoding_validators.h (instantiation for char const *): the body of its loop
        while(p!=e){ count++; unsigned c=(unsigned char)*p++; ... continue; ... return false; ... } return true;
        as a predicate byte -> bool (true: the loop goes on, false: the function returns false) - the loop shape itself is checked;
    (2) the validators_set table: the assignments predefined_[<name>] = <validator> of the constructor, in execution order, as a
        list of (name, name of the validator template).  Returns [(name, error)]."""
    import cxx2v, json
    U = cxx2v.Unsupported
    out = os.path.join(vlib.COQ, 'gen', 'Gen_C04enc.v')
    src = os.path.join(vlib.REPO, 'src/encoding.cpp')

    def strip(n):
        while isinstance(n, dict) and n.get('kind') in ('ParenExpr', 'ImplicitCastExpr', 'ExprWithCleanups', 'MaterializeTemporaryExpr',
                                                          'CXXBindTemporaryExpr', 'CXXFunctionalCastExpr', 'CStyleCastExpr') and n.get('inner'):
            n = n['inner'][0]
        return n

    class PredTr(cxx2v.Tr):
        byte = None

        def expr(self, n):
            if n['kind'] == 'UnaryOperator' and n.get('opcode') == '*':
                s_ = strip(n['inner'][0])
                if s_['kind'] == 'UnaryOperator' and s_.get('opcode') == '++' and s_.get('isPostfix') \
                        and strip(s_['inner'][0])['kind'] == 'DeclRefExpr' and tuple(cxx2v.tyinfo(n['type'])) == ('s', 8):
                    if self.byte is None:
                        raise U('second read of the input in one loop iteration')
                    b, self.byte = self.byte, None
                    return b
            return super().expr(n)

        def stmts(self, ss, brk=None, void=False):
            if not ss and brk is None:
                return 'true'
            if ss:
                k = ss[0]['kind']
                if k == 'ContinueStmt':
                    return 'true'
                if k == 'ReturnStmt':
                    if self.expr(ss[0]['inner'][0]) != 'false':
                        raise U('return of something other than false inside a validator loop')
                    return 'false'
            return super().stmts(ss, brk, void)

    def translate_validator(fd, coqname):
        body = [c for c in fd['inner'] if c['kind'] == 'CompoundStmt'][0]
        top = body.get('inner', [])
        if len(top) != 2 or top[0]['kind'] != 'WhileStmt' or top[1]['kind'] != 'ReturnStmt' or strip(top[1]['inner'][0]).get('value') is not True:
            raise U('%s: not of the form while(...){...} return true;' % coqname)
        cond, lbody = top[0]['inner'][0], top[0]['inner'][-1]
        if cond['kind'] != 'BinaryOperator' or cond['opcode'] != '!=' or \
                [strip(x).get('referencedDecl', {}).get('name') for x in cond['inner']] != ['p', 'e']:
            raise U('%s: loop condition is not p!=e' % coqname)
        tr = PredTr('', {}, {})
        tr.consts = {}
        ss = tr.flatten(lbody)
        first = ss[0] if ss else {}
        if first.get('kind') != 'UnaryOperator' or first.get('opcode') != '++' or \
                strip(first['inner'][0]).get('referencedDecl', {}).get('name') != 'count':
            raise U('%s: loop body does not start with count++' % coqname)
        tr.byte = '(wraps 8 byte)'
        code = tr.stmts(ss[1:])
        if tr.byte is not None:
            raise U('%s: loop body never reads *p++' % coqname)
        return 'Definition %s (byte : Z) : bool :=\n  %s.\n' % (coqname, code)

    try:
        lines = ['(* GENERATED by checks/C04.py (cxx2v) from private/encoding_validators.h and the validators_set constructor as compiled into %s -- do not edit *)' % src,
                 'From Coq Require Import ZArith List Bool String.', 'From CppcmsV Require Import Base.CSem.',
                 'Local Open Scope Z_scope.', 'Import ListNotations.', '']
        objs = cxx2v.run_clang(src, '_valid', vlib.repo_incs(), 'c++11')
        insts = {}

        def find(n):
            if not isinstance(n, dict):
                return
            if n.get('kind') == 'FunctionDecl' and 'const char *' in n.get('type', {}).get('qualType', '') \
                    and any(c.get('kind') == 'CompoundStmt' for c in n.get('inner', [])):
                insts.setdefault(n.get('name'), n)
            for c in n.get('inner', []) or []:
                find(c)
        for o in objs:
            find(o)
        for cxx, coq in SB_VALIDATORS:
            if cxx not in insts:
                raise U('instantiation of %s for char const * not found' % cxx)
            lines.append(translate_validator(insts[cxx], coq))
        # the table
        objs = cxx2v.run_clang(src, 'validators_set::validators_set', vlib.repo_incs(), 'c++11')
        ctors = [o for o in objs if o.get('kind') == 'CXXConstructorDecl' and any(c.get('kind') == 'CompoundStmt' for c in o.get('inner', []))]
        if len(ctors) != 1:
            raise U('validators_set constructor: %d definitions' % len(ctors))
        body = [c for c in ctors[0]['inner'] if c.get('kind') == 'CompoundStmt'][0]
        varinit, table = {}, []

        def fname(n):
            """name of the validator a value expression denotes"""
            n = strip(n)
            k = n.get('kind')
            if k == 'UnaryOperator' and n.get('opcode') == '&':
                d = strip(n['inner'][0])
                if d.get('kind') == 'DeclRefExpr' and d['referencedDecl'].get('kind') == 'FunctionDecl':
                    return d['referencedDecl']['name']
            if k == 'DeclRefExpr':
                if d_ := varinit.get(n['referencedDecl']['id']):
                    return d_
                if n['referencedDecl'].get('kind') == 'FunctionDecl':
                    return n['referencedDecl']['name']
            if k == 'BinaryOperator' and n.get('opcode') == '=':
                return assign(n)
            raise U('validators_set: value of kind %s' % k)

        def keyname(n):
            n = strip(n)
            if n.get('kind') != 'CXXOperatorCallExpr':
                raise U('validators_set: assignment to something that is not predefined_[...]')
            callee = strip(n['inner'][0])
            if callee.get('referencedDecl', {}).get('name') != 'operator[]' or strip(n['inner'][1]).get('name') != 'predefined_':
                raise U('validators_set: assignment to something that is not predefined_[...]')
            lits = []

            def w(x):
                if not isinstance(x, dict):
                    return
                if x.get('kind') == 'StringLiteral':
                    lits.append(json.loads(x['value']))
                for c in x.get('inner', []) or []:
                    w(c)
            w(n['inner'][2])
            if len(lits) != 1:
                raise U('validators_set: key is not one string literal')
            return lits[0]

        def assign(n):
            v = fname(n['inner'][1])          # right operand first (it may be an assignment itself)
            table.append((keyname(n['inner'][0]), v))
            return v
        for st in body.get('inner', []) or []:
            st0 = strip(st)
            if st0.get('kind') == 'DeclStmt':
                for vd in st0['inner']:
                    init = [c for c in vd.get('inner', []) if isinstance(c, dict)]
                    if vd.get('kind') != 'VarDecl' or not init:
                        raise U('validators_set: unexpected declaration')
                    varinit[vd['id']] = fname(init[0])
            elif st0.get('kind') == 'BinaryOperator' and st0.get('opcode') == '=':
                assign(st0)
            else:
                raise U('validators_set: statement of kind %s' % st0.get('kind'))
        # (3) the per character step of the name comparator: encodings_comparator::next, loop  while(*p!=0){ char c=*p++; ... return <char>; ... } return 0;
        #     -> byte -> Z (the character the comparator sees, -1: the loop moves on to the next byte)
        class StepTr(cxx2v.Tr):
            def stmts(self, ss, brk=None, void=False):
                if not ss and brk is None:
                    return '(-1)'
                return super().stmts(ss, brk, void)
        objs3 = cxx2v.run_clang(src, 'encodings_comparator::next', vlib.repo_incs(), 'c++11')
        nds = cxx2v.find_decl(objs3, 'CXXMethodDecl', 'next', lambda n: any(c.get('kind') == 'CompoundStmt' for c in n.get('inner', [])))
        if not nds:
            raise U('encodings_comparator::next not found')
        nfd = nds[0]
        loops = []
        cxx2v.find_loops(nfd, loops)
        if len(loops) != 1:
            raise U('encodings_comparator::next: expected exactly one loop')
        cond = loops[0]['inner'][0]
        okc = cond['kind'] == 'BinaryOperator' and cond['opcode'] == '!=' and strip(cond['inner'][1]).get('kind') == 'IntegerLiteral' \
            and strip(cond['inner'][1]).get('value') == '0' and strip(cond['inner'][0]).get('kind') == 'UnaryOperator' and strip(cond['inner'][0]).get('opcode') == '*'
        if not okc:
            raise U('encodings_comparator::next: loop condition is not *p!=0')
        trs = StepTr('', {}, {})
        trs.consts = {}
        ss = trs.flatten(loops[0]['inner'][-1])
        vd = ss[0]['inner'][0] if ss and ss[0]['kind'] == 'DeclStmt' else {}
        init = strip(vd.get('inner', [{}])[0]) if vd.get('inner') else {}
        if vd.get('kind') != 'VarDecl' or tuple(cxx2v.tyinfo(vd['type'])) != ('s', 8) or init.get('opcode') != '*':
            raise U('encodings_comparator::next: loop body does not start with char c=*p++')
        nm_ = trs.fresh(vd['name'])
        trs.ids[vd['id']] = nm_
        code = trs.stmts(ss[1:])
        nbody = [c for c in nfd['inner'] if c['kind'] == 'CompoundStmt'][0]['inner']
        if nbody[-1]['kind'] != 'ReturnStmt' or strip(nbody[-1]['inner'][0]).get('value') != '0':
            raise U('encodings_comparator::next: function does not end with return 0')
        lines.append('Definition g_c04_enc_name_step (byte : Z) : Z :=\n  let %s := wraps 8 byte in %s.\n' % (nm_, code))
        for k_, v_ in table:
            if not re.fullmatch(r'[A-Za-z0-9_\-]+', k_) or not re.fullmatch(r'[A-Za-z0-9_]+', v_):
                raise U('validators_set: unexpected text %r / %r' % (k_, v_))
        lines.append('Definition g_c04_enc_table : list (list Z * string) :=\n  [%s].\n' % ';\n   '.join(
            '([%s], "%s"%%string)' % ('; '.join(str(ord(ch)) for ch in k_), v_) for k_, v_ in table))
        txt, err = '\n'.join(lines) + '\n', []
    except cxx2v.Unsupported as e:
        txt = '(* translator failed: %s *)\nDefinition broken : False := I.\n' % str(e).replace('*)', '* )').replace('"', "'")
        err = [('Gen_C04enc', str(e))]
    with vlib.Lock('gen-Gen_C04enc'):
        vlib.write_if_changed(out, txt)
    return err


XSS_SKELETON = {}


def gen_control():
    """coq/gen/Gen_C04ctl.v: the statement skeleton (control structure, calls, constants - expressions rendered from the AST in a normalised
    textual form) of the glue around the decoder that the model describes by hand: utf8_valid, utf8::validate, validate_or_filter_utf8,
    validate_or_filter_single_byte_charset, encoding::valid, validate_or_filter, is_ascii_compatible, is_utf8, validators_set::get
    (private/encoding_validators.h, private/utf_iterator.h, src/encoding.cpp) and the encoding prologues of xss::validate and
    xss::validate_and_filter_if_invalid (src/xss.cpp: everything before the tokeniser is called, and the conversion back at the end).
    A fingerprint: coq/C04/LinkC.v compares it with the literal from which the hand model was written.  Returns [(name, error)]."""
    import cxx2v, json
    U = cxx2v.Unsupported
    out = os.path.join(vlib.COQ, 'gen', 'Gen_C04ctl.v')
    enc_src = os.path.join(vlib.REPO, 'src/encoding.cpp')
    xss_src = os.path.join(vlib.REPO, 'src/xss.cpp')
    re_src = os.path.join(vlib.REPO, 'booster/lib/regex/src/pcre_regex.cpp')
    TRANSPARENT = ('ParenExpr', 'ImplicitCastExpr', 'ExprWithCleanups', 'MaterializeTemporaryExpr', 'CXXBindTemporaryExpr', 'ConstantExpr')

    def rx(n):
        while isinstance(n, dict) and n.get('kind') in TRANSPARENT and n.get('inner'):
            n = n['inner'][0]
        k = n.get('kind')
        inner = [c for c in (n.get('inner') or []) if isinstance(c, dict)]
        if k == 'IntegerLiteral':
            return str(n['value'])
        if k == 'CharacterLiteral':
            return "chr%d" % n['value']
        if k == 'StringLiteral':
            return 'str<%s>' % json.loads(n['value'])
        if k == 'CXXBoolLiteralExpr':
            return 'true' if n['value'] else 'false'
        if k == 'CXXNullPtrLiteralExpr' or k == 'GNUNullExpr':
            return 'null'
        if k == 'CXXThisExpr':
            return 'this'
        if k == 'DeclRefExpr':
            return n['referencedDecl'].get('name', '?')
        if k == 'MemberExpr':
            b = rx(inner[0]) if inner else 'this'
            return n.get('name', '?') if b == 'this' else '%s.%s' % (b, n.get('name', '?'))
        if k in ('CallExpr', 'CXXMemberCallExpr'):
            return '%s(%s)' % (rx(inner[0]), ','.join(rx(a) for a in inner[1:] if a.get('kind') != 'CXXDefaultArgExpr'))
        if k == 'CXXOperatorCallExpr':
            return '%s(%s)' % (rx(inner[0]), ','.join(rx(a) for a in inner[1:]))
        if k in ('BinaryOperator', 'CompoundAssignOperator'):
            return '(%s %s %s)' % (rx(inner[0]), n['opcode'], rx(inner[1]))
        if k == 'UnaryOperator':
            return '(%s%s)' % ((rx(inner[0]), n['opcode']) if n.get('isPostfix') else (n['opcode'], rx(inner[0])))
        if k == 'ConditionalOperator':
            return '(%s ? %s : %s)' % tuple(rx(a) for a in inner)
        if k in ('CStyleCastExpr', 'CXXFunctionalCastExpr', 'CXXStaticCastExpr'):
            return 'cast<%s>(%s)' % (n['type']['qualType'], rx(inner[0]))
        if k in ('CXXConstructExpr', 'CXXTemporaryObjectExpr'):
            args = [a for a in inner if a.get('kind') != 'CXXDefaultArgExpr']
            if len(args) == 1:
                return rx(args[0])
            return 'new<%s>(%s)' % (n['type']['qualType'].replace('std::', ''), ','.join(rx(a) for a in args))
        if k == 'ArraySubscriptExpr':
            return '%s[%s]' % (rx(inner[0]), rx(inner[1]))
        if k == 'CXXDefaultArgExpr':
            return 'default'
        if k == 'CXXNewExpr':
            return 'new(%s)' % ','.join(rx(a) for a in inner)
        if k == 'CXXDeleteExpr':
            return 'delete(%s)' % ','.join(rx(a) for a in inner)
        if k == 'UnaryExprOrTypeTraitExpr':
            return '%s(%s)' % (n.get('name', 'sizeof'), n.get('argType', {}).get('qualType', '') or ','.join(rx(a) for a in inner))
        if k == 'InitListExpr':
            return '{%s}' % ','.join(rx(a) for a in inner)
        if k == 'ImplicitValueInitExpr':
            return 'zero'
        if k == 'CXXThrowExpr':
            return 'throw(%s)' % ','.join(rx(a) for a in inner)
        raise U('control skeleton: expression of kind %s' % k)

    def sk(st, out_):
        k = st.get('kind')
        inner = [c for c in (st.get('inner') or []) if isinstance(c, dict)]
        if k == 'CompoundStmt':
            for c in inner:
                sk(c, out_)
        elif k == 'NullStmt':
            pass
        elif k == 'IfStmt':
            out_.append('if %s {' % rx(inner[0]))
            sk(inner[1], out_)
            if len(inner) > 2:
                out_.append('} else {')
                sk(inner[2], out_)
            out_.append('}')
        elif k == 'WhileStmt':
            out_.append('while %s {' % rx(inner[0]))
            sk(inner[-1], out_)
            out_.append('}')
        elif k == 'ForStmt':
            parts = st.get('inner')
            init, cond, inc, body = parts[0], parts[2], parts[3], parts[4]
            hdr = []
            if init:
                sk(init, hdr)
            out_.append('for %s ; %s ; %s {' % (' , '.join(hdr), rx(cond) if cond else '', rx(inc) if inc else ''))
            sk(body, out_)
            out_.append('}')
        elif k == 'ReturnStmt':
            out_.append('return %s' % (rx(inner[0]) if inner else ''))
        elif k == 'DeclStmt':
            for vd in inner:
                if vd.get('kind') in ('UsingDecl', 'UsingDirectiveDecl', 'TypedefDecl', 'NamespaceAliasDecl'):
                    continue
                if vd.get('kind') != 'VarDecl':
                    raise U('control skeleton: declaration of kind %s' % vd.get('kind'))
                init = [c for c in (vd.get('inner') or []) if isinstance(c, dict)]
                t = vd['type']['qualType'].replace('std::', '')
                out_.append('var %s %s%s' % (t, vd['name'], (' = ' + rx(init[0])) if init else ''))
        elif k in ('BreakStmt', 'ContinueStmt'):
            out_.append(k[:-4].lower())
        elif k == 'CXXTryStmt':
            out_.append('try {')
            sk(inner[0], out_)
            for h in inner[1:]:
                hin = [c for c in (h.get('inner') or []) if isinstance(c, dict)]
                ex_t = hin[0]['type']['qualType'].replace('std::', '') if len(hin) > 1 and hin[0].get('kind') == 'VarDecl' else '...'
                out_.append('} catch %s {' % ex_t)
                sk(hin[-1], out_)
            out_.append('}')
        elif k == 'SwitchStmt':
            out_.append('switch %s {' % rx(inner[0]))
            sk(inner[-1], out_)
            out_.append('}')
        elif k == 'CaseStmt':
            out_.append('case %s' % rx(inner[0]))
            sk(inner[-1], out_)
        elif k == 'DefaultStmt':
            out_.append('default')
            sk(inner[-1], out_)
        else:
            out_.append(rx(st))

    hasbody = lambda n: any(c.get('kind') == 'CompoundStmt' for c in n.get('inner', []))

    dumps = {}

    def decl(src, filt, kind, name, pred=None):
        found = []

        def w(n):
            if not isinstance(n, dict):
                return
            if n.get('kind') == kind and n.get('name') == name and hasbody(n) and (pred is None or pred(n)):
                found.append(n)
            for c in n.get('inner', []) or []:
                w(c)
        if (src, filt) not in dumps:
            dumps[(src, filt)] = cxx2v.run_clang(src, filt, vlib.repo_incs(), 'c++11')
        for o in dumps[(src, filt)]:
            w(o)
        ids = {}
        for f in found:
            ids.setdefault(f['id'], f)
        if len(ids) != 1:
            raise U('control skeleton: %d definitions of %s (filter %s)' % (len(ids), name, filt))
        return list(ids.values())[0]

    def body_of(fd):
        return [c for c in fd['inner'] if c.get('kind') == 'CompoundStmt'][0]
    ty = lambda sub: (lambda n: sub in n.get('type', {}).get('qualType', ''))
    XSS_CORE = ['split_to_parts', 'parse_html_entity', 'validate_property_value', 'parse_properties', 'parse_html_tag', 'parse_part',
                'validate_nesting', 'validate_entry_by_rules']
    try:
        import concurrent.futures
        want = [(enc_src, 'valid'), (enc_src, 'encoding::is_'), (xss_src, 'xss::validate'), (xss_src, 'xss::filter'), (re_src, 'regex::'),
                (xss_src, 'regex_functor'), (xss_src, 'uri_validator_functor'), (xss_src, 'booster::regex_match')] + [(xss_src, n) for n in XSS_CORE]
        with concurrent.futures.ThreadPoolExecutor(len(want)) as ex_:
            futs = [(w_, ex_.submit(cxx2v.run_clang, w_[0], w_[1], vlib.repo_incs(), 'c++11')) for w_ in want]
            for w_, fu in futs:
                dumps[w_] = fu.result()
        items = []
        for label, fd in (
                ('utf8_valid', decl(enc_src, 'valid', 'FunctionDecl', 'utf8_valid', ty('const char *'))),
                ('utf8::validate', decl(enc_src, 'valid', 'FunctionDecl', 'validate', ty('(const char *, const char *, size_t &, bool)'))),
                ('validate_or_filter_utf8', decl(enc_src, 'valid', 'FunctionDecl', 'validate_or_filter_utf8')),
                ('validate_or_filter_single_byte_charset', decl(enc_src, 'valid', 'FunctionDecl', 'validate_or_filter_single_byte_charset')),
                ('encoding::valid', decl(enc_src, 'valid', 'FunctionDecl', 'valid', ty('(const std::string &, const char *, const char *, size_t &)'))),
                ('encoding::validate_or_filter', decl(enc_src, 'valid', 'FunctionDecl', 'validate_or_filter')),
                ('is_ascii_compatible', decl(enc_src, 'encoding::is_', 'FunctionDecl', 'is_ascii_compatible')),
                ('is_utf8', decl(enc_src, 'encoding::is_', 'FunctionDecl', 'is_utf8')),
                ('validators_set::get', decl(enc_src, 'valid', 'CXXMethodDecl', 'get'))):
            o_ = []
            sk(body_of(fd), o_)
            items.append((label, o_))
        # xss.cpp: prologue = the statements before the declaration of `parsed`; epilogue of validate_and_filter_if_invalid = the last if statement
        for label, name in (('xss::validate prologue', 'validate'), ('xss::validate_and_filter_if_invalid prologue', 'validate_and_filter_if_invalid')):
            fd = decl(xss_src, 'xss::validate', 'FunctionDecl', name, ty('const char *, const char *, const cppcms::xss::rules &'))
            stmts = [c for c in body_of(fd).get('inner', []) if isinstance(c, dict)]
            cut = None
            for i, st in enumerate(stmts):
                if st.get('kind') == 'DeclStmt' and any(v.get('name') == 'parsed' for v in st.get('inner', [])):
                    cut = i
                    break
            if cut is None:
                raise U('control skeleton: %s: declaration of parsed not found' % name)
            o_ = []
            for st in stmts[:cut]:
                sk(st, o_)
            items.append((label, o_))
            if name == 'validate_and_filter_if_invalid':
                o2 = []
                tailst = [st for st in stmts if st.get('kind') == 'IfStmt']
                sk(tailst[-1], o2)
                sk(stmts[-1], o2)
                items.append(('xss::validate_and_filter_if_invalid epilogue', o2))
        # the core of src/xss.cpp: tokeniser, entity / attribute / tag parsers, nesting, white-list look-up, and the whole of validate,
        # validate_and_filter_if_invalid and both filter overloads
        items2 = []
        for name in XSS_CORE:
            fd = decl(xss_src, name, 'FunctionDecl', name)
            o_ = []
            sk(body_of(fd), o_)
            items2.append((name, o_))
        for label, filt, name, pred in (('xss::validate', 'xss::validate', 'validate', ty('const char *, const char *, const cppcms::xss::rules &')),
                                        ('xss::validate_and_filter_if_invalid', 'xss::validate', 'validate_and_filter_if_invalid', ty('const char *, const char *, const cppcms::xss::rules &')),
                                        ('xss::filter(char const *)', 'xss::filter', 'filter', ty('(const char *, const char *, const cppcms::xss::rules &')),
                                        ('xss::filter(std::string)', 'xss::filter', 'filter', ty('(const std::string &, const cppcms::xss::rules &'))):
            fd = decl(xss_src, filt, 'FunctionDecl', name, pred)
            o_ = []
            sk(body_of(fd), o_)
            items2.append((label, o_))
        # RIGID ties (fatal, coq/C04/LinkR.v): (a) how booster::regex turns a pattern into the full-match form and runs it: regex::assign (the
        # wrapper text "(?:" pattern ")\\z" and the compile of it into d->are), regex::match (pcre_exec on d->are, PCRE_ANCHORED), the template
        # booster::regex_match(begin,end,r) that xss.cpp instantiates and the regex_functor of xss.cpp that calls it; (b) the digit string to
        # number conversion of parse_html_entity: the declaration of code_point (its TYPE) and the two strtol calls with their bases
        items3 = []
        for label, fd in (
                ('regex::assign', decl(re_src, 'regex::', 'CXXMethodDecl', 'assign')),
                ('regex::match', decl(re_src, 'regex::', 'CXXMethodDecl', 'match', ty('bool (const char *, const char *, int) const'))),
                ('booster::regex_match', decl(xss_src, 'booster::regex_match', 'FunctionDecl', 'regex_match',
                                              ty('(const char *, const char *, const booster::regex &, int)'))),
                ('regex_functor::operator()', decl(xss_src, 'regex_functor', 'CXXMethodDecl', 'operator()')),
                ('uri_validator_functor::operator()', decl(xss_src, 'uri_validator_functor', 'CXXMethodDecl', 'operator()'))):
            o_ = []
            sk(body_of(fd), o_)
            items3.append((label, o_))
        pe = dict(items2)['parse_html_entity']
        items3.append(('parse_html_entity: code_point', [t for t in pe if (t.startswith('var ') and t.split(' = ')[0].endswith(' code_point')) or 'strto' in t
                                                         or t.startswith('(code_point = ')]))
        XSS_SKELETON['text'] = '\n'.join('== %s\n%s' % (l, '\n'.join(o_)) for l, o_ in items2) + '\n'
        def q(t):
            t = t.replace('"', "'").replace('\\', '/')
            if not all(32 <= ord(ch) < 127 for ch in t):
                raise U('control skeleton: unexpected character in %r' % t)
            return '"%s"%%string' % t
        lines = ['(* GENERATED by checks/C04.py (clang AST) from src/encoding.cpp, src/xss.cpp, private/encoding_validators.h, private/utf_iterator.h -- do not edit *)',
                 'From Coq Require Import List String.', 'Import ListNotations.', '',
                 'Definition g_c04_control : list (string * list string) :=\n  [%s].\n' % ';\n   '.join(
                     '(%s,\n    [%s])' % (q(l), ';\n     '.join(q(t) for t in o_)) for l, o_ in items),
                 'Definition g_c04_xss_control : list (string * list string) :=\n  [%s].\n' % ';\n   '.join(
                     '(%s,\n    [%s])' % (q(l), ';\n     '.join(q(t) for t in o_)) for l, o_ in items2),
                 'Definition g_c04_rigid_control : list (string * list string) :=\n  [%s].\n' % ';\n   '.join(
                     '(%s,\n    [%s])' % (q(l), ';\n     '.join(q(t) for t in o_)) for l, o_ in items3)]
        txt, err = '\n'.join(lines) + '\n', []
    except cxx2v.Unsupported as e:
        txt = '(* translator failed: %s *)\nDefinition broken : False := I.\n' % str(e).replace('*)', '* )').replace('"', "'")
        err = [('Gen_C04ctl', str(e))]
    with vlib.Lock('gen-Gen_C04ctl'):
        vlib.write_if_changed(out, txt)
    return err


# ------------------------------------------------------------------------------------------------
# rule sets
# ------------------------------------------------------------------------------------------------
def hx(s):
    b = s.encode('latin-1') if isinstance(s, str) else bytes(s)
    return b.hex() if b else '-'


class RuleSet:
    """m: 'x'|'h'; c,n: 0|1; enc: name or '-'; ents: [str]; funs: [spec str]; tags: [(name, kind, [(attr, vk)])]"""

    def __init__(self, m, c, n, enc, ents, funs, tags):
        self.m, self.c, self.n, self.enc, self.ents, self.funs, self.tags = m, c, n, enc, ents, funs, tags
        ts = ';'.join('%s:%d' % (hx(t), k) + (':' + ','.join(hx(a) + '~' + vk for a, vk in at) if at else '')
                      for t, k, at in tags) or '-'
        self.desc = 'm=%s c=%d n=%d enc=%s ent=%s fun=%s tags=%s' % (
            m, c, n, enc, ','.join(hx(e) for e in ents) or '-', ','.join(hx(f) for f in funs) or '-', ts)

    def case(self, inp, repl=0):
        return '%s repl=%d in=%s' % (self.desc, repl, hexs(inp))


def parse_rules(fields):
    """rule description (dict of fields of a case line) -> lookup structure for the python oracle"""
    xhtml = fields['m'] != 'h'
    norm = (lambda s: s) if xhtml else (lambda s: s.lower())
    ents = set([b'lt', b'gt', b'amp', b'quot'])
    if fields.get('ent', '-') != '-':
        ents |= set(bytes.fromhex(e) for e in fields['ent'].split(','))
    funs = []
    if fields.get('fun', '-') != '-':
        funs = [bytes.fromhex(f).decode('latin-1') for f in fields['fun'].split(',')]
    tags = {}
    if fields.get('tags', '-') != '-':
        for t in fields['tags'].split(';'):
            p = t.split(':')
            name = norm(bytes.fromhex(p[0]))
            # registrations under names that compare equal: a later add_tag overwrites the kind (kind 0 = no add_tag),
            # the attributes go into one map per tag, a later registration of an attribute overwrites the earlier one
            kind, attrs = tags.get(name, (0, {}))
            attrs = dict(attrs)
            if len(p) > 2:
                for a in p[2].split(','):
                    an, vk = a.split('~')
                    attrs[norm(bytes.fromhex(an))] = vk
            tags[name] = (int(p[1]) or kind, attrs)
    return dict(xhtml=xhtml, norm=norm, ents=ents, funs=funs, tags=tags, comments=fields['c'] == '1',
                numeric=fields['n'] == '1', enc=fields.get('enc', '-'))


_rules_cache = {}


def fields_of(case):
    return dict(t.split('=', 1) for t in case.split() if '=' in t)


def rules_of(fields):
    key = (fields['m'], fields['c'], fields['n'], fields.get('enc'), fields.get('ent'), fields.get('fun'), fields.get('tags'))
    r = _rules_cache.get(key)
    if r is None:
        r = _rules_cache[key] = parse_rules(fields)
    return r


FUNS = ['re:.*', 'uri', 'abs:(http|https)', 'rel', 're:[a-z]+', 're:a*', 'uris:(http|ftp)', 're:[a-z ]*']


def fixed_rulesets():
    full = [('a', 1, [('href', 'f1'), ('title', 'f0'), ('a', 'f5'), ('id', 'f4'), ('rel', 'f3')]),
            ('b', 1, []), ('i', 3, [('class', 'f7')]), ('br', 2, []),
            ('input', 2, [('disabled', 'b'), ('size', 'i'), ('checked', 'b')]),
            ('img', 2, [('src', 'f2'), ('alt', 'f0'), ('width', 'i')]), ('p', 3, [('a', 'b')]), ('x', 0, [('y', 'i')]),
            ('B1', 1, []), ('_u', 3, [])]
    fullh = [('A', 1, [('href', 'f1'), ('TITLE', 'f0'), ('a', 'f5'), ('id', 'f4'), ('rel', 'f3')]),
             ('b', 1, []), ('I', 3, [('class', 'f7')]), ('Br', 2, []),
             ('input', 3, [('disabled', 'b'), ('size', 'i'), ('Checked', 'b')]),
             ('img', 2, [('src', 'f6'), ('alt', 'f0'), ('width', 'i')]), ('p', 3, [('a', 'b')]), ('x', 0, [('y', 'i')]),
             ('b1', 1, []), ('_u', 3, [])]
    return [
        RuleSet('x', 1, 1, '-', ['nbsp', 'a'], FUNS, full),
        RuleSet('h', 1, 1, '-', ['nbsp', 'a'], FUNS, fullh),
        RuleSet('x', 0, 0, 'UTF-8', ['copy'], FUNS, [('a', 3, [('a', 'f5'), ('href', 'f1')]), ('b', 1, []), ('i', 3, []), ('br', 2, [])]),
        RuleSet('h', 0, 1, 'ISO-8859-1', [], FUNS, [('a', 2, [('a', 'b')]), ('b', 1, []), ('i', 3, []), ('br', 2, [])]),
        RuleSet('h', 1, 0, 'windows-1252', ['a'], FUNS, [('a', 3, [('a', 'b'), ('href', 'f6')]), ('b', 1, []), ('i', 3, []), ('br', 2, [])]),
        RuleSet('x', 1, 1, 'utf8', [], [], []),
        RuleSet('h', 1, 1, 'UTF-8', ['nbsp'], FUNS, fullh),
        RuleSet('x', 1, 1, 'ISO-8859-8', ['nbsp'], FUNS, full),
        # without the tag that has properties only: these two can also be loaded from JSON
        RuleSet('x', 1, 1, '-', ['nbsp', 'a'], FUNS, [t for t in full if t[1] != 0]),
        RuleSet('h', 1, 1, '-', ['nbsp', 'a'], FUNS, [t for t in fullh if t[1] != 0]),
        # [10], [11]: the same tag / attribute registered more than once (std::map semantics: the last add_tag decides the kind,
        # attributes accumulate, the last registration of an attribute decides its validator); the tag q (properties only)
        # keeps these rule sets away from the JSON constructor, which rejects or reorders duplicates
        RuleSet('x', 1, 1, '-', ['nbsp'], FUNS, [('a', 1, [('href', 'f1'), ('id', 'f4')]), ('a', 3, [('href', 'f3'), ('title', 'f0')]),
                                                  ('b', 0, [('x', 'i')]), ('b', 2, [('x', 'b'), ('y', 'i')]), ('i', 2, []), ('i', 0, [('class', 'f7')]),
                                                  ('p', 3, [('a', 'b'), ('a', 'i')]), ('q', 0, [('y', 'i')])]),
        RuleSet('h', 1, 1, '-', ['nbsp'], FUNS, [('a', 1, [('href', 'f1'), ('ID', 'f4')]), ('A', 3, [('HREF', 'f3'), ('Title', 'f0'), ('id', 'i')]),
                                                  ('B', 2, [('x', 'i')]), ('b', 0, [('X', 'b')]), ('i', 2, []), ('I', 1, [('class', 'f7')]),
                                                  ('p', 3, [('a', 'i'), ('A', 'b')]), ('q', 0, [('y', 'i')])]),
    ]


ENCODINGS = ['-', '-', 'UTF-8', 'utf8', 'ISO-8859-1', 'iso-8859-7', 'windows-1252', 'cp1251', 'koi8-r', 'US-ASCII', 'latin1', 'ISO-8859-6']
# encodings that are not "ASCII compatible" for cppcms::encoding (no byte validator): xss converts to UTF-8, filters, converts back
# (model: coq/C04/DefsX.v with the conversions as abstract functions answered by the real booster::locale::conv)
NONASCII = {'UTF-16LE': 'utf-16-le', 'UTF-16BE': 'utf-16-be', 'UTF-32LE': 'utf-32-le', 'Shift_JIS': 'shift_jis', 'EUC-JP': 'euc_jp', 'GBK': 'gbk'}


def model_covers(case):
    return True


def probe_parse_full():
    """shape of uri_parser::parse_full() in /repo: 'uri' = uri() && begin_ == end_ (the code the model describes),
    'uri_reference' = uri_reference() && begin_ == end_ (the defect repaired by /repo 92a72e6: the absolute-only validator
    accepted relative references that start with a scheme word; the model does not describe it), None = anything else"""
    src = open(os.path.join(vlib.REPO, 'src/xss.cpp')).read()
    m = re.search(r'bool\s+parse_full\s*\(\s*\)\s*\{(.*?)\}', src, re.S)
    if not m:
        return None
    body = re.sub(r'\s+', '', re.sub(r'//[^\n]*|/\*.*?\*/', '', m.group(1), flags=re.S))
    if body == 'is_relative_=false;returnuri()&&begin_==end_;':
        return 'uri'
    if body == 'is_relative_=false;returnuri_reference()&&begin_==end_;':
        return 'uri_reference'
    return None


TAGPOOL = ['a', 'b', 'i', 'br', 'p', 'img', 'input', 'em', 'B1', 'div', '_u']
ATTRPOOL = ['href', 'title', 'a', 'id', 'class', 'src', 'disabled', 'size', 'alt']


def random_ruleset(rng):
    m = rng.choice('xh')
    tags = []
    for t in rng.sample(TAGPOOL, rng.randrange(0, len(TAGPOOL))):
        attrs = []
        for a in rng.sample(ATTRPOOL, rng.randrange(0, 4)):
            vk = rng.choice(['b', 'i'] + ['f%d' % k for k in range(len(FUNS))])
            attrs.append((a if rng.random() < 0.8 else a.upper(), vk))
        kind = rng.choice([1, 1, 2, 3, 3, 0])
        if kind == 0 and not attrs:
            continue
        tags.append((t if rng.random() < 0.8 else t.upper(), kind, attrs))
    if tags and rng.random() < 0.3:
        # a second registration of a tag (html: possibly in another case) with another kind / other validators
        t, kind, attrs = rng.choice(tags)
        t2 = t.swapcase() if (m == 'h' and rng.random() < 0.5) else t
        attrs2 = [((a.swapcase() if m == 'h' and rng.random() < 0.5 else a), rng.choice(['b', 'i', 'f0', 'f4'])) for a, _ in attrs[:2]]
        attrs2 += [(rng.choice(ATTRPOOL), rng.choice(['b', 'i', 'f1']))]
        tags.insert(rng.randrange(len(tags) + 1), (t2, rng.choice([0, 1, 2, 3]), attrs2))
        tags.append(('zz0', 0, [('q', 'i')]))      # keeps the rule set away from the JSON constructor
    ents = rng.sample(['nbsp', 'copy', 'a', 'Amp', 'x1'], rng.randrange(0, 3))
    return RuleSet(m, rng.randrange(2), rng.randrange(2), rng.choice(ENCODINGS), ents, FUNS, tags)


# ------------------------------------------------------------------------------------------------
# inputs
# ------------------------------------------------------------------------------------------------
CP_BOUNDS = [0, 1, 8, 9, 10, 11, 12, 13, 14, 31, 32, 33, 65, 126, 127, 128, 159, 160, 0xD7FF, 0xD800, 0xDBFF, 0xDC00, 0xDFFF,
             0xE000, 0xFFFD, 0xFFFE, 0xFFFF, 0x10000, 0x10FFFF, 0x110000, 2 ** 31 - 1, 2 ** 31, 2 ** 32, 2 ** 63 - 1, 2 ** 63,
             2 ** 64, 10 ** 30]
BAD_BYTES = [b'\x00', b'\x01', b'\x7f', b'\x80', b'\x9f', b'\xa0', b'\xff', b'\xc3', b'\xc3\xa9', b'\xe2\x82', b'\xe2\x82\xac',
             b'\xc0\xaf', b'\xed\xa0\x80', b'\xf4\x90\x80\x80', b'\xf0\x9f\x98\x80', b'\xae', b'\xd2']
VALUES = [b'http://host/p?q=1&amp;r=2#f', b'https://h', b'ftp://u@h:21/x', b'javascript:alert(1)', b'JAVASCRIPT:x', b'/rel/path', b'x.html',
          b'mailto:a@b.c', b'data:text/html,x', b'//host/x', b'?q', b'#frag', b'', b'a', b'aaa', b'abc', b'hello world', b'-12', b'12', b'-',
          b'1.5', b'&amp;', b'&lt;b&gt;', b'&quot;', b'&apos;', b'&#39;', b'&#x27;', b'&#X27;', b'&#34;', b'&nbsp;', b'&', b'a&b', b'<', b'>',
          b'a>b', b'it\'s', b'say "x"', b'disabled', b'checked', b'http://h/\xc3\xa9', b'http://h/\xff', b' http://h', b'ht\ttp://h',
          b'http://1.2.3.4/', b'http://h/%41%zz', b'a:b', b'1:2', b'HTTP://H', b'news:x', b'nntp://h/g',
          b'http/evil', b'https', b'http#f', b'http?x', b'ftp/x', b'httpx/y', b'http:', b'http:x', b'//h', b'u:p@h', b'2.2.2.2', b'1.2.3.4', b'http://u:p@h:8/p;a=1?q#f',
          b'javascript&#58;x', b'javascript&colon;x', b'java&apos;script:x', b'http&amp;:x', b'http&apos;://h', b'&apos;http://h', b'http:&apos;', b'h&#x27;:x',
          b'http://h/?a&amp;b', b'http:/&amp;', b'x&amp;y', b'http&#x3a;//h']


URI_GOOD = {
    'scheme': [b'http', b'https', b'ftp', b'mailto', b'javascript', b'JAVASCRIPT', b'data', b'h', b'a1+-.', b'news', b'httpx', b'HTTP', b'vbscript'],
    'auth': [b'', b'host', b'h.example.com', b'u@h', b'u:p@h', b'u:p@h:80', b'h:80', b'h:', b'1.2.3.4', b'256.1.1.1', b'1.2.3', b'%41b', b'a&amp;b',
             b'a&apos;b', b'h!$()*+,;=', b"h'x", b'2.2.2.2', b'12.1.1.1'],
    'path': [b'', b'/', b'/p', b'/p/q', b'//p', b'p', b'p/q', b'p:q', b'/p:q', b'./x', b'../x', b'/a%20b', b'/~u', b'/a_b-c.d', b"/a'b", b'/;p=1', b'/@', b'/:'],
    'query': [b'', b'', b'?', b'?q=1', b'?q=1&amp;r=2', b'?/?', b'?%41'],
    'frag': [b'', b'', b'#', b'#f', b'#f/?', b'#%41', b'#&apos;'],
}
URI_BAD = {
    'scheme': [b'1a', b'', b'http ', b'ht tp', b'-x', b'x&amp;y', b'%68ttp', b'ja\tva', b'http&apos;', b'http&#x27;', b'&amp;http', b'http&amp;', b'a_b', b'h~', b'http_'],
    'auth': [b'h:8a', b'[::1]', b'u@@h', b'%4', b'a&b', b':', b'@', b'h h'],
    'path': [b'/a b', b'/a%zz', b'/a%4z', b'/a%z4', b'/%4', b'/%', b'/a&lt;b', b'/a&#39;b', b'/a&quot;b', b'/a<b', b'/a\\b', b'/a\x00b', b'/\xc3\xa9', b'/a[b]', b'/a|b', b'/a^b', b'/a`b', b'/a{b}'],
    'query': [b'?q=1&r=2', b'?a b', b'?#', b'?q[]=1'],
    'frag': [b'#a#b', b'#a b'],
}


URI_ALPHA = [b'h', b'1', b':', b'/', b'?', b'#', b'@', b'%41', b'.', b'&amp;', b' ', b'_', b'%4']


def gen_uri_value(rng):
    def part(name):
        return rng.choice(URI_GOOD[name]) if rng.random() < 0.9 else rng.choice(URI_BAD[name])
    k = rng.randrange(10)
    if k < 4:
        v = part('scheme') + b':' + rng.choice([b'//' + part('auth'), b'', b'/', b'//']) + part('path')
    elif k < 6:
        v = rng.choice([b'//' + part('auth'), b'', part('auth')]) + part('path')
    elif k < 8:
        v = part('scheme') + rng.choice([b'', b'/', b'?', b'#', b'//', b';', b'@', b'%3a', b'&amp;', b' :', b'\t:']) + part('path')
    else:
        v = part('path')
    v += part('query') + part('frag')
    if rng.random() < 0.1 and v:
        pos = rng.randrange(len(v))
        v = v[:pos] + rng.choice([b' ', b'\t', b'\n', b':', b'/', b'%', b'&', b';', b'\x00', b'\\', b'|', b'@']) + v[pos:]
    return v


def gen_entity(rng, rs):
    k = rng.randrange(10)
    if k < 3:
        return b'&' + rng.choice([b'lt', b'gt', b'amp', b'quot'] + [e.encode() for e in rs.ents] + [b'nbsp', b'apos', b'AMP', b'a']) + b';'
    if k < 6:
        cp = rng.choice(CP_BOUNDS) if rng.random() < 0.7 else rng.randrange(0, 0x120000)
        if rng.random() < 0.5:
            d = ('%d' % cp)
            return b'&#' + (b'0' * rng.choice([0, 0, 1, 30])) + d.encode() + b';'
        d = ('%x' % cp) if rng.random() < 0.5 else ('%X' % cp)
        return b'&#' + rng.choice([b'x', b'X']) + (b'0' * rng.choice([0, 0, 1, 30])) + d.encode() + b';'
    return rng.choice([b'&;', b'&#;', b'&#x;', b'&#X;', b'&#xg;', b'&#1a;', b'&# 65;', b'&#-65;', b'&#+65;', b'&#0x41;', b'&a b;', b'&amp',
                       b'&<b>;', b'&a&b;', b'&#65', b'& ;', b'&a_b;', b'&\x00;', b'&#x0x41;', b'&#65;;', b'&&amp;;'])


def gen_comment(rng):
    return rng.choice([b'<!-- c -->', b'<!---->', b'<!--->', b'<!-->', b'<!--', b'<!-- a -- b -->', b'<!-- a --', b'<!-- <b> -->',
                       b'<!-- &amp; -->', b'<!--[if IE]>x<![endif]-->', b'<!-- > -->', b'<!--x-->', b'<!--x--->', b'<!--x- ->', b'<!- x -->',
                       b'<!--\x00-->', b'<!--\xc3\xa9-->', b'<!--\xff-->', b'<!-- - -->', b'<!----->', b'<!--a--!>', b'<!--a-->-->'])


def gen_attr(rng, rs, tag_attrs):
    pool = [a for a, _ in tag_attrs] + ATTRPOOL[:3]
    name = rng.choice(pool)
    if rs.m == 'h' and rng.random() < 0.3:
        name = name.upper() if rng.random() < 0.5 else name.capitalize()
    name = name.encode()
    k = rng.randrange(12)
    if k == 0:
        return name
    v = rng.choice(VALUES)
    q = rng.choice([b'"', b"'"])
    if k == 1:
        return name + b'=' + v                    # unquoted
    if k == 2:
        return name + b'=' + q + v                # unterminated
    if k == 3:
        return name + b' = ' + q + v + q          # spaces around =
    if k == 4:
        return name + b'=' + q + v + rng.choice([b'"', b"'"])  # possibly mixed quotes
    if k == 5:
        return b'_' + name + b'=' + q + v + q
    return name + b'=' + q + v + q


def gen_open(rng, rs, name, attrs_decl, slash=False):
    s = b'<' + name
    n = rng.choice([0, 0, 1, 1, 2, 3])
    for _ in range(n):
        sep = rng.choice([b' ', b' ', b' ', b'  ', b'\t', b'\n', b'\r', b'', b'\x0b', b'/'])
        s += sep + gen_attr(rng, rs, attrs_decl)
    if n and rng.random() < 0.15:
        a = gen_attr(rng, rs, attrs_decl)
        s += b' ' + a + b' ' + (a.upper() if rng.random() < 0.5 else a)   # duplicate attribute
    s += rng.choice([b'', b'', b'', b' ', b'\n'])
    if slash:
        s += rng.choice([b'/', b'/', b' /', b'//'])
    return s + b'>'


def gen_nodes(rng, rs, depth):
    out = []
    for _ in range(rng.choice([1, 1, 2, 2, 3, 4])):
        k = rng.randrange(20)
        if k < 3:
            out.append(rng.choice([b'text', b' ', b'a b', b'"q"', b"it's", b'x=y', b'--', b';', b'/', b'!']))
        elif k < 5:
            out.append(gen_entity(rng, rs))
        elif k < 6:
            out.append(gen_comment(rng))
        elif k < 7:
            out.append(rng.choice([b'<', b'>', b'&', b'<<', b'>>', b'< a>', b'<>', b'</>', b'</ a>', b'<a', b'<a b="', b'<a/ >', b'<!a>',
                                   b'<?php ?>', b'<a <b>', b'<a></a ', b'</a b="c">', b'</a/>', b'<a_b>', b'<1a>', b'<a\x00>', b'<a\xc3\xa9>']))
        elif k < 8:
            out.append(rng.choice(BAD_BYTES))
        else:
            decl = rs.tags + [('zz', 0, []), ('script', 0, [])]
            name, kind, attrs = rng.choice(decl)
            nm = name.encode()
            if rs.m == 'h' and rng.random() < 0.3:
                nm = nm.upper() if rng.random() < 0.5 else nm.lower()
            elif rng.random() < 0.05:
                nm = nm.swapcase()
            style = rng.randrange(10)
            if style < 2 or (kind == 2 and style < 7):
                out.append(gen_open(rng, rs, nm, attrs, slash=rng.random() < 0.6))
            else:
                out.append(gen_open(rng, rs, nm, attrs))
                if depth > 0:
                    out.extend(gen_nodes(rng, rs, depth - 1))
                c = rng.randrange(12)
                if c == 0:
                    pass                               # never closed
                elif c == 1:
                    out.append(b'</' + rng.choice([b'b', b'i', b'a', b'zz']) + b'>')   # wrong close
                elif c == 2:
                    out.append(b'</' + nm.swapcase() + b'>')
                elif c == 3:
                    out.append(b'</' + nm + rng.choice([b' ', b'\n', b'  ']) + b'>')
                elif c == 4:
                    out.append(b'</' + nm + b'>' + b'</' + nm + b'>')                # closed twice
                else:
                    out.append(b'</' + nm + b'>')
    return out


# values that the validator kinds accept (used by the mostly-valid generator)
GOOD_VALUES = {
    'i': [b'12', b'-12', b'0'],
    'f0': [b'text', b'', b'a b', b'&amp;', b'it&#39;s', b'&lt;b&gt;'],
    'f1': [b'http://host/p?q=1&amp;r=2#f', b'https://h', b'/rel/path', b'x.html', b'mailto:a@b.c', b'ftp://u@h:21/x'],
    'f2': [b'https://h', b'http://1.2.3.4/', b'http://host/p?q=1&amp;r=2#f'],
    'f3': [b'/rel/path', b'x.html', b'?q', b'#frag'],
    'f4': [b'abc', b'a'],
    'f5': [b'', b'aaa', b'a'],
    'f6': [b'ftp://u@h:21/x', b'http://h/', b'/rel/path'],
    'f7': [b'hello world', b'abc', b''],
}


def good_attr(rng, rs, an, vk):
    """an attribute that the rule set accepts (as far as the generator knows)"""
    n = an.encode()
    if rs.m == 'h' and rng.random() < 0.3:
        n = n.swapcase()
    if vk == 'b':
        return n + b' ' if rs.m == 'h' else n + b'="' + n + b'"'
    q = rng.choice([b'"', b"'"])
    v = rng.choice(GOOD_VALUES[vk])
    if q in v:
        q = b'"' if q == b"'" else b"'"
    return n + b'=' + q + v + q


def good_open(rng, rs, name, kind, attrs, slash):
    s = b'<' + name
    chosen = rng.sample(attrs, rng.randrange(0, min(3, len(attrs)) + 1)) if attrs else []
    for an, vk in chosen:
        s += rng.choice([b' ', b' ', b'\n', b'  ', b'\t']) + good_attr(rng, rs, an, vk)
    if slash:
        s += rng.choice([b'/', b' /'])
    elif chosen and rng.random() < 0.3:
        s += b' '
    return s + b'>'


def good_nodes(rng, rs, depth):
    """list of (kind, bytes) items of a document that validates under rs (as far as the generator knows)"""
    out = []
    tags = [t for t in rs.tags if t[1] != 0]
    for _ in range(rng.choice([1, 2, 2, 3])):
        k = rng.randrange(10)
        if k < 2 or not tags:
            out.append(('text', rng.choice([b'text', b' ', b'a b', b'"q"', b"it's", b'x=y', b';', b'/'])))
        elif k < 3:
            out.append(('ent', b'&' + rng.choice([b'lt', b'gt', b'amp', b'quot'] + [e.encode() for e in rs.ents]) + b';'))
        elif k < 4 and rs.n:
            out.append(('ent', rng.choice([b'&#65;', b'&#x41;', b'&#X10FFFF;', b'&#9;', b'&#xD7FF;', b'&#160;'])))
        elif k < 5 and rs.c:
            out.append(('comment', rng.choice([b'<!-- c -->', b'<!---->', b'<!--x-->', b'<!-- - -->'])))
        else:
            name, kind, attrs = rng.choice(tags)
            nm = name.encode()
            if rs.m == 'h' and rng.random() < 0.3:
                nm = nm.swapcase()
            if kind == 2 or (kind == 3 and rng.random() < 0.4):
                if rs.m == 'h' and rng.random() < 0.5:
                    out.append(('open', good_open(rng, rs, nm, kind, attrs, False)))      # html: <br>
                else:
                    out.append(('open', good_open(rng, rs, nm, kind, attrs, True)))
            else:
                out.append(('open', good_open(rng, rs, nm, kind, attrs, False)))
                if depth > 0:
                    out.extend(good_nodes(rng, rs, depth - 1))
                cn = nm.swapcase() if (rs.m == 'h' and rng.random() < 0.3) else nm
                out.append(('close', b'</' + cn + rng.choice([b'', b'', b' ']) + b'>'))
    return out


def near_valid(rng, rs):
    """a document that should validate, and small structural damages of it, one at a time"""
    items = good_nodes(rng, rs, rng.choice([0, 1, 2]))
    doc = b''.join(b for _, b in items)
    res = [doc]
    for _ in range(rng.choice([1, 2, 3])):
        it = list(items)
        i = rng.randrange(len(it))
        kind, b = it[i]
        d = rng.randrange(12)
        if kind == 'open':
            m = re.search(rb'["\'][ \t\n]+[A-Za-z]', b)
            if d == 0 and m:
                b = b[:m.start() + 1] + b[m.end() - 1:]                 # no space between two attributes
            elif d == 1:
                m2 = re.search(rb' ([A-Za-z]+=(?:"[^"]*"|\'[^\']*\')|[A-Za-z]+ )', b)
                if m2:
                    dup = m2.group(1)
                    if rng.random() < 0.5:
                        dup = re.sub(rb'^[A-Za-z]+', lambda mm: mm.group(0).swapcase(), dup)
                    b = b[:m2.end()] + b' ' + dup + b[m2.end():]    # same attribute twice
            elif d == 2:
                b = b.replace(b'"', b"'", 1)                            # mixed quotes
            elif d == 3:
                b = b[:-1]                                              # unterminated tag
            elif d == 4:
                b = b[:-1] + (b'/>' if not b.endswith(b'/>') else b'>')  # toggle self-closing
            elif d == 5:
                b = b.replace(b'=', b' = ', 1)
            elif d == 6:
                b = b[:-1] + b' onclick="x">'
            elif d == 7:
                b = b.replace(b'="', b'="javascript:', 1)
            elif d == 8:
                b = b.replace(b' ', b'/', 1)
            elif d == 9:
                b = b[:1] + b' ' + b[1:]
            elif d == 10:
                b = b.replace(b'=', b'==', 1)
            else:
                b = b.replace(b'"', b'', 1)
            it[i] = (kind, b)
        elif kind == 'close':
            if d < 3:
                del it[i]                                               # never closed
            elif d < 5:
                it[i] = (kind, b'</' + rng.choice([b'b', b'i', b'a', b'p', b'zz']) + b'>')
            elif d < 7:
                it.insert(i, (kind, b))                                 # closed twice
            elif d < 9:
                j = rng.randrange(len(it))
                it[i], it[j] = it[j], it[i]                             # moved
            else:
                it[i] = (kind, b[:-1] + b' x>')
        elif kind == 'ent':
            it[i] = (kind, rng.choice([b[:-1], b'&' + b, b[:1] + b' ' + b[1:], b[:-1] + b'x;', b'&#xDC00;', b'&#128;', b'&#xFFFE;']))
        elif kind == 'comment':
            it[i] = (kind, rng.choice([b[:-1], b[:-3] + b' -- -->', b[:4] + b'<' + b[4:], b[:4] + b'&' + b[4:], b[:-3] + b'>-->', b[:-3] + b'->']))
        else:
            it[i] = (kind, b + rng.choice([b'<', b'>', b'&', b'\xff', b'\x00']))
        res.append(b''.join(b for _, b in it))
    return res


def gen_html(rng, rs):
    parts = gen_nodes(rng, rs, rng.choice([0, 1, 2, 3]))
    if rng.random() < 0.2:
        rng.shuffle(parts)
    return b''.join(parts)


MUT_BYTES = b'<>&;/!-"\'a= \t\n_#x0\x00\xff\xc3'


def mutate(rng, s):
    s = bytearray(s)
    for _ in range(rng.choice([1, 1, 1, 2, 3])):
        k = rng.randrange(3)
        pos = rng.randrange(len(s) + 1)
        if k == 0 and s:
            s[min(pos, len(s) - 1)] = rng.choice(MUT_BYTES)
        elif k == 1:
            s.insert(pos, rng.choice(MUT_BYTES))
        elif s:
            del s[min(pos, len(s) - 1)]
    return bytes(s)


ALPHA12 = [b'<', b'>', b'&', b';', b'/', b'!', b'-', b'"', b"'", b'a', b'=', b' ']
PIECES = [b'<a>', b'</a>', b'<b>', b'</b>', b'<i>', b'</i>', b'<br>', b'<br/>', b'<x>', b'</x>', b't', b'&amp;', b'&', b'<', b'>',
          b'<!--c-->', b'<a href="http://h">', b'<a href="javascript:1">', b'<i class="k">', b'</br>', b'<B>', b'</I>', b'<p a="a">', b'<p a >']
# pieces aimed at single grammar rules (duplicate attributes, missing blank between attributes, ...)
PIECES2 = [b'<p a a >', b'<p a A >', b'<i class="k" class="k">', b'<i class="k" CLASS="k">', b'<a title="t"id="abc">', b'<a title="t" id="abc">',
           b'<a title=\'t\'id=\'abc\'/>', b'<p a="a" a="a">', b'<i class="k"/>', b'<i class="k" />', b'<i class="k"/ >', b'<a id="abc" title="a>b">',
           b'<a title="&lt;&gt;&amp;&quot;&apos;&#39;&#x27;&#X27;">', b'<a title="&#34;">', b'<a title="&nbsp;">', b'<a title=t>', b'<input disabled>',
           b'<input disabled >', b'<input disabled="disabled"/>', b'<input size="12" checked />']


# ------------------------------------------------------------------------------------------------
# encoding boundary material (the clause "validation never accepts text that is not well-formed in the declared encoding")
# ------------------------------------------------------------------------------------------------
def u8pattern(cp, n):
    """cp written with the n-byte UTF-8 bit pattern (n = 1..6): the shortest form when n is the RFC 3629 width of cp, an
    over-long form when n is larger; n = 5, 6 and values above U+10FFFF are the forms RFC 3629 abolished"""
    if n == 1:
        return bytes([cp & 0x7F])
    out = []
    for _ in range(n - 1):
        out.append(0x80 | (cp & 0x3F))
        cp >>= 6
    out.append(({2: 0xC0, 3: 0xE0, 4: 0xF0, 5: 0xF8, 6: 0xFC}[n] | cp) & 0xFF)
    return bytes(reversed(out))


def u8width(cp):
    return 1 if cp < 0x80 else 2 if cp < 0x800 else 3 if cp < 0x10000 else 4 if cp < 0x200000 else 5 if cp < 0x4000000 else 6


# both sides of every boundary of the encoding: width classes, controls, surrogates, non-characters, the end of Unicode
U8_BOUND_CPS = [0x00, 0x08, 0x09, 0x0A, 0x0D, 0x1F, 0x20, 0x22, 0x26, 0x3C, 0x3E, 0x41, 0x7E, 0x7F, 0x80, 0x85, 0x9F, 0xA0, 0xFF, 0x100,
                0x7FF, 0x800, 0xFFF, 0x1000, 0xCFFF, 0xD000, 0xD7FF, 0xD800, 0xDBFF, 0xDC00, 0xDFFF, 0xE000, 0xFFFD, 0xFFFE, 0xFFFF,
                0x10000, 0x3FFFF, 0x40000, 0xFFFFF, 0x100000, 0x10FFFF, 0x110000, 0x13FFFF, 0x140000, 0x1FFFFF]


def u8_boundary_sequences():
    """[(label, bytes)]: shortest forms, every over-long form, truncations, stray trail bytes, bad trail bytes"""
    out = []
    for cp in U8_BOUND_CPS:
        w = u8width(cp)
        out.append(('shortest U+%04X' % cp, u8pattern(cp, w)))
        for n in range(w + 1, 5):
            out.append(('overlong%d U+%04X' % (n, cp), u8pattern(cp, n)))
        if cp in (0x00, 0x3C, 0x7F, 0x80, 0x7FF, 0x800, 0xFFFF, 0x10000, 0x10FFFF, 0x110000):
            for n in (5, 6):
                out.append(('overlong%d U+%04X' % (n, cp), u8pattern(cp, n)))
    for label, cp in (('U+00E9', 0xE9), ('U+07FF', 0x7FF), ('U+0800', 0x800), ('U+20AC', 0x20AC), ('U+FFFD', 0xFFFD), ('U+10000', 0x10000),
                      ('U+1F600', 0x1F600), ('U+10FFFF', 0x10FFFF)):
        full = u8pattern(cp, u8width(cp))
        for k in range(1, len(full)):
            out.append(('truncated%d/%d %s' % (k, len(full), label), full[:k]))
    for b in (0x80, 0x8F, 0x90, 0x9F, 0xA0, 0xBF):
        out.append(('stray trail %02X' % b, bytes([b])))
        out.append(('stray trails %02X %02X' % (b, b), bytes([b, b])))
    for b in (0xC0, 0xC1, 0xF5, 0xF8, 0xFC, 0xFE, 0xFF):
        out.append(('invalid lead %02X' % b, bytes([b])))
        out.append(('invalid lead %02X + trail' % b, bytes([b, 0x80])))
    for bad in (0x00, 0x20, 0x22, 0x26, 0x3B, 0x3C, 0x3E, 0x7F, 0xC0, 0xC3, 0xE0, 0xFF):
        out.append(('2-byte lead + %02X' % bad, bytes([0xC3, bad])))
        out.append(('3-byte lead + %02X' % bad, bytes([0xE2, bad, 0xAC])))
        out.append(('3-byte lead, trail, %02X' % bad, bytes([0xE2, 0x82, bad])))
        out.append(('4-byte lead + %02X' % bad, bytes([0xF0, bad, 0x98, 0x80])))
        out.append(('4-byte lead, trail, %02X' % bad, bytes([0xF0, 0x9F, bad, 0x80])))
        out.append(('4-byte lead, 2 trails, %02X' % bad, bytes([0xF0, 0x9F, 0x98, bad])))
    for lead, lo, hi in ((0xE0, 0x9F, 0xA0), (0xED, 0x9F, 0xA0), (0xF0, 0x8F, 0x90), (0xF4, 0x8F, 0x90)):
        for second in (0x7F, 0x80, lo, hi, 0x9F, 0xBF, 0xC0):
            for t in (0x80, 0xBF):
                out.append(('second byte range %02X %02X' % (lead, second), bytes([lead, second] + [t] * (2 if lead >= 0xF0 else 1))))
    seen, res = set(), []
    for l, b in out:
        if b not in seen:
            seen.add(b)
            res.append((l, b))
    return res


U8_GRID_LEADS = [0x7F, 0x80, 0xBF, 0xC0, 0xC1, 0xC2, 0xC3, 0xDF, 0xE0, 0xE1, 0xEC, 0xED, 0xEE, 0xEF, 0xF0, 0xF1, 0xF3, 0xF4, 0xF5, 0xF7, 0xF8, 0xFB,
                 0xFC, 0xFD, 0xFE, 0xFF]
U8_GRID_SECOND = [0x00, 0x3C, 0x7F, 0x80, 0x8F, 0x90, 0x9F, 0xA0, 0xBF, 0xC0, 0xFF]
U8_GRID_REST = [0x7F, 0x80, 0xBF, 0xC0]


def u8_grid():
    """lead byte classes x second byte ranges x trail byte boundaries, lengths 2..4 (all the case splits of RFC 3629 section 4)"""
    for a in U8_GRID_LEADS:
        for b in U8_GRID_SECOND:
            yield bytes([a, b])
            for c in U8_GRID_REST:
                yield bytes([a, b, c])
                for d in U8_GRID_REST:
                    yield bytes([a, b, c, d])


# where the material is placed: in text, at the end of input, before '<', before '&', inside (and at the cut-off end of) an
# attribute value, inside names, entities, comments
ENC_CONTEXTS = [
    ('text', lambda s: b'ab' + s + b'cd'),
    ('alone', lambda s: s),
    ('end-of-input', lambda s: b'<b>x</b>' + s),
    ('before-lt', lambda s: s + b'<b>x</b>'),
    ('between-tags', lambda s: b'<b>' + s + b'</b>'),
    ('before-amp', lambda s: b'x' + s + b'&amp;y'),
    ('after-entity', lambda s: b'&lt;' + s),
    ('attr-value', lambda s: b'<a title="' + s + b'">x</a>'),
    ('attr-value-single-quote', lambda s: b"<a title='x" + s + b"y'>x</a>"),
    ('attr-value-cut', lambda s: b'<a title="x' + s),
    ('attr-value-then-lt', lambda s: b'<a title="x' + s + b'<b>'),
    ('uri-value', lambda s: b'<a href="http://h/' + s + b'">x</a>'),
    ('tag-name', lambda s: b'<a' + s + b'>x</a>'),
    ('attr-name', lambda s: b'<a t' + s + b'="x">x</a>'),
    ('closing-tag', lambda s: b'<b>x</' + s + b'b>'),
    ('entity-name', lambda s: b'&am' + s + b'p;'),
    ('entity-alone', lambda s: b'&' + s + b';'),
    ('numeric-entity', lambda s: b'&#' + s + b'65;'),
    ('comment', lambda s: b'<!-- ' + s + b' -->'),
    ('cut-tag', lambda s: b'x<a ' + s),
    ('cut-entity', lambda s: b'x&' + s),
]

# every name of the validators_set table (src/encoding.cpp), in spellings that the comparator identifies
SB_NAMES = ['latin1', 'ISO-8859-1', 'iso8859-2', 'ISO_8859-3', 'iso-8859-4', 'ISO-8859-5', 'ISO-8859-6', 'iso-8859-7', 'ISO-8859-8', 'iso-8859-9',
            'ISO-8859-10', 'iso-8859-11', 'ISO-8859-13', 'iso-8859-14', 'ISO-8859-15', 'iso-8859-16',
            'windows-1250', 'Windows-1251', 'windows-1252', 'WINDOWS-1253', 'windows-1255', 'windows-1256', 'windows-1257', 'windows-1258',
            'cp1250', 'CP1251', 'cp1252', 'cp1253', 'cp1255', 'cp1256', 'cp1257', 'cp1258', 'koi8-r', 'KOI8-U', 'US-ASCII', 'ascii']
# one name per validator body of private/encoding_validators.h
SB_KINDS = ['US-ASCII', 'ISO-8859-1', 'ISO_8859-3', 'ISO-8859-6', 'iso-8859-7', 'ISO-8859-8', 'iso-8859-11', 'windows-1250', 'Windows-1251',
            'windows-1252', 'WINDOWS-1253', 'windows-1255', 'windows-1256', 'windows-1257', 'windows-1258', 'koi8-r']


def gen_encoding_cases(ctx, fixed):
    rng = ctx.rng
    cases = []
    full = fixed[0].tags
    fullh = fixed[1].tags
    u8x = RuleSet('x', 1, 1, 'UTF-8', ['nbsp'], FUNS, full)
    u8h = RuleSet('h', 1, 1, 'utf8', ['nbsp'], FUNS, fullh)
    u8n = RuleSet('x', 0, 0, 'Utf_8', [], [], [])
    seqs = [b for _, b in u8_boundary_sequences()]
    # (a) every boundary sequence in every context, xhtml and html, no replacement / '?'
    for s in seqs:
        for cname, cf in ENC_CONTEXTS:
            d = cf(s)
            cases.append(u8x.case(d, 0))
            cases.append(u8h.case(d, 63))
        cases.append(u8n.case(s, 0))
        cases.append(u8n.case(b'x' + s + b'y', 88))
    # (b) two boundary sequences next to each other / separated by markup characters (a wrongly consumed byte shifts the next one)
    for _ in range(ctx.scale(3000, 40000)):
        a, b = rng.choice(seqs), rng.choice(seqs)
        mid = rng.choice([b'', b'', b'<', b'>', b'&', b'"', b';', b'x', b'<b>', b'&amp;'])
        cname, cf = rng.choice(ENC_CONTEXTS)
        cases.append(rng.choice([u8x, u8h]).case(cf(a + mid + b), rng.choice([0, 0, 63, 32, 60, 38])))
    # (c) the grid of lead / second / trail byte classes: in text always, in the other contexts sampled (thorough: more)
    grid = list(u8_grid())
    for s in grid:
        if ctx.quick() and len(s) == 4 and rng.random() < 0.5:
            continue
        cases.append(u8x.case(b'a' + s + b'z', 0))
    for _ in range(ctx.scale(5000, 120000)):
        s = rng.choice(grid)
        cname, cf = rng.choice(ENC_CONTEXTS)
        cases.append(rng.choice([u8x, u8h]).case(cf(s), rng.choice([0, 63])))
    if not ctx.quick():
        # every two byte sequence that starts with a non-ASCII byte, and every byte after every lead byte class
        for a in range(0x80, 0x100):
            for b in range(0x100):
                cases.append(u8n.case(bytes([a, b])))
    for a in range(0x100):
        cases.append(u8n.case(bytes([a])))
        cases.append(u8x.case(b'<a title="' + bytes([a]) + b'">x</a>'))
    # (d) single byte code pages: every byte under every validator body (thorough: every table name), in text and in an attribute value
    sb_tags = [('a', 3, [('title', 'f0'), ('href', 'f1')]), ('b', 1, [])]
    names = SB_KINDS if ctx.quick() else SB_NAMES
    for nm in names:
        rs = RuleSet(rng.choice('xh'), 1, 1, nm, [], FUNS, sb_tags)
        for a in range(0x100):
            cases.append(rs.case(b'a' + bytes([a]) + b'b', 0))
            if a >= 0x7F or a < 0x20 or not ctx.quick():
                cases.append(rs.case(b'<a title="' + bytes([a]) + b'">x</a>', 63))
    if ctx.quick():
        # the other spellings / aliases of the table (the name comparator and the table decide which validator runs): the upper half
        for nm in SB_NAMES:
            if nm in SB_KINDS:
                continue
            rs = RuleSet('x', 1, 1, nm, [], FUNS, sb_tags)
            for a in range(0x7F, 0x100):
                cases.append(rs.case(b'a' + bytes([a]) + b'b', 0))
    # names that are NOT in the table although they look like table names (must take the conversion path or fail, never a wrong validator)
    for nm in ('windows-1254', 'cp1254', 'latin2', 'koi8'):     # (names iconv does not know make the library throw invalid_charset_error: not a case)
        rs = RuleSet('x', 1, 1, nm, [], FUNS, sb_tags)
        for s_ in (b'abc', b'a\x81b', b'a\xe9b', b'<b>\xff</b>', b'\xc3\xa9', b'a\x7fb'):
            cases.append(rs.case(s_, 0))
    for _ in range(ctx.scale(1500, 30000)):
        nm = rng.choice(SB_NAMES)
        rs = RuleSet(rng.choice('xh'), 1, 1, nm, [], FUNS, sb_tags)
        s = bytes(rng.choice([rng.randrange(0x7F, 0x100), rng.randrange(0x100), rng.choice(b'<>&;"a ')]) for _ in range(rng.randrange(1, 6)))
        cname, cf = rng.choice(ENC_CONTEXTS)
        cases.append(rs.case(cf(s), rng.choice([0, 63, 32])))
    # (e) UTF-16 / UTF-32 (conversion path): lone surrogates, controls, odd length, around markup
    for enc, codec, unit in (('UTF-16LE', 'utf-16-le', 2), ('UTF-16BE', 'utf-16-be', 2), ('UTF-32LE', 'utf-32-le', 4)):
        rs = RuleSet('x', 1, 1, enc, ['nbsp'], FUNS, full)
        order = 'little' if codec.endswith('le') else 'big'
        units = [0x41, 0x7F, 0x80, 0x9F, 0xA0, 0x1F, 0x09, 0xD7FF, 0xD800, 0xDBFF, 0xDC00, 0xDFFF, 0xE000, 0xFFFE, 0xFFFF, 0x3C, 0x26]
        if unit == 4:
            units += [0x10000, 0x10FFFF, 0x110000, 0xFFFFFFFF]
        mats = [u.to_bytes(unit, order) for u in units]
        mats += [a + b for a in mats[7:12] for b in mats[7:12]] if unit == 2 else []
        for m_ in mats:
            for pre, post in ((b'', b''), ('<b>x</b>'.encode(codec), b''), (b'', '<b>x</b>'.encode(codec)),
                              ('<a title="'.encode(codec), '">x</a>'.encode(codec)), ('a'.encode(codec), '&amp;'.encode(codec))):
                cases.append(rs.case(pre + m_ + post, 0))
                cases.append(rs.case(pre + m_[:-1] + post, 0))
    return cases


# ------------------------------------------------------------------------------------------------
# regex-typed attributes: boundary bytes around an otherwise matching value; numeric references: the digit string -> number conversion
# ------------------------------------------------------------------------------------------------
WS_MATERIAL = [b'\n', b'\r', b'\r\n', b'\n\n', b'\n\r', b'\x00', b'\t', b' ', b'\x0b', b'\x0c', b'\x7f', b'\x85', b'\xc2\x85', b'\xe2\x80\xa8',
               b'\xe2\x80\xa9', b' \n', b'\n ', b'\x1f', b'\xa0']
REGEX_BASE = {'re:.*': [b'text', b'a b', b''], 're:[a-z]+': [b'intro', b'a', b'abc'], 're:a*': [b'aaa', b'a', b''], 're:[a-z ]*': [b'hello world', b'abc', b'']}


def regex_slots(rs):
    """(tag, kind, attribute, pattern spec) for every regex-typed attribute of the rule set"""
    out = []
    for t, k, attrs in rs.tags:
        for a, vk in attrs:
            if vk.startswith('f') and rs.funs[int(vk[1:])].startswith('re:') and k != 0:
                out.append((t, k, a, rs.funs[int(vk[1:])]))
    return out


def gen_regex_cases(ctx, fixed):
    rng = ctx.rng
    cases = []
    u8x = RuleSet('x', 1, 1, 'UTF-8', ['nbsp'], FUNS, fixed[0].tags)
    l1h = RuleSet('h', 1, 1, 'ISO-8859-1', ['nbsp'], FUNS, fixed[1].tags)
    sets = [fixed[0], fixed[1], u8x, l1h]

    def doc(t, k, a, v, q):
        tn, an = t.encode(), a.encode()
        if k == 2:
            return b'<' + tn + b' ' + an + b'=' + q + v + q + rng.choice([b'/>', b' />'])
        return b'<' + tn + b' ' + an + b'=' + q + v + q + b'>text</' + tn + b'>'
    for rs in sets:
        for t, k, a, spec in regex_slots(rs):
            for base in REGEX_BASE.get(spec, [b'a']):
                for m_ in WS_MATERIAL:
                    mid = len(base) // 2
                    for v in (base + m_, m_ + base, base[:mid] + m_ + base[mid:], base + m_ + m_, m_, base + m_ + base):
                        if rs.m == 'h' and rs.enc == '-' and rng.random() < 0.5:
                            continue
                        q = b"'" if rng.random() < 0.5 else b'"'
                        cases.append(rs.case(doc(t, k, a, v, q), rng.choice([0, 0, 63])))
    # random rule sets: a matching value with one boundary byte appended / prepended
    for _ in range(ctx.scale(1500, 40000)):
        rs = rng.choice(sets)
        sl = regex_slots(rs)
        if not sl:
            continue
        t, k, a, spec = rng.choice(sl)
        base = rng.choice(REGEX_BASE.get(spec, [b'a']))
        m_ = rng.choice(WS_MATERIAL)
        v = rng.choice([base + m_, m_ + base, base + m_ * 2, base + bytes([rng.randrange(256)]), bytes([rng.randrange(256)]) + base])
        if b'"' in v:
            continue
        cases.append(rs.case(b'<b>' + doc(t, k, a, v, b'"') + b'</b>', 0))
    return cases


CP_ALLOWED = [9, 10, 13, 32, 60, 62, 38, 65, 126, 160, 0xD7FF, 0xDC00, 0xE000, 0xFFFD, 0x10000, 0x10FFFF]
CP_FORBIDDEN = [0, 8, 11, 12, 14, 31, 127, 128, 159, 0xD800, 0xDBFF, 0xFFFE, 0xFFFF, 0x110000]


def gen_numeric_cases(ctx, fixed):
    """numeric character references whose digit string denotes v + k*2^32, v + k*2^64 (the low 32 / 64 bits are an allowed or a
    forbidden code point), values around LONG_MAX / ULONG_MAX / INT_MAX / UINT_MAX, digit strings of 10..40 digits with leading zeros,
    decimal and hexadecimal in both letter cases"""
    rng = ctx.rng
    cases = []
    sets = [fixed[0], fixed[1], RuleSet('x', 0, 1, 'UTF-8', [], [], [('b', 1, [])])]
    offs = [2 ** 32, 2 * 2 ** 32, 5 * 2 ** 32, 2 ** 31 * 2 ** 32, (2 ** 32 - 1) * 2 ** 32, 2 ** 64, 2 * 2 ** 64, 2 ** 64 + 2 ** 32, 2 ** 63, 2 ** 96, 2 ** 128]
    vals = []
    for v in CP_ALLOWED + CP_FORBIDDEN:
        vals.append(v)
        for o in offs:
            vals.append(v + o)
    for edge in (2 ** 31, 2 ** 32, 2 ** 63, 2 ** 64):
        vals += [edge - 2, edge - 1, edge, edge + 1, edge + 60, edge + 65]
    vals += [10 ** 9 + 60, 10 ** 19, 10 ** 20 + 65, 10 ** 39 + 60, 16 ** 9 + 0x3C, 16 ** 16 + 0x41, 16 ** 39 + 0x3C]

    def spell(v):
        z = b'0' * rng.choice([0, 0, 1, 7, 25])
        k = rng.randrange(3)
        if k == 0:
            return b'&#' + z + str(v).encode() + b';'
        return b'&#' + rng.choice([b'x', b'X']) + z + (('%x' if k == 1 else '%X') % v).encode() + b';'
    for v in vals:
        for rs in sets:
            for txt in (b'&#%d;' % v, b'&#x%x;' % v, b'&#X%X;' % v, spell(v)):
                cases.append(rs.case(txt))
            cases.append(rs.case(b'<b>x' + spell(v) + b'</b>' + spell(v)))
    # digit strings of every length 10..40 whose low bits are an allowed code point
    for n in range(10, 41):
        for base, digs in ((10, '0123456789'), (16, '0123456789abcdefABCDEF')):
            for _ in range(ctx.scale(2, 20)):
                hi = int(''.join(rng.choice(digs[:base if base == 10 else 16]) for _ in range(n)), base)
                v = (hi >> 32 << 32) + rng.choice(CP_ALLOWED) if rng.random() < 0.7 else hi
                txt = (b'&#%d;' % v) if base == 10 else (b'&#x%x;' % v if rng.random() < 0.5 else b'&#X%X;' % v)
                cases.append(rng.choice(sets).case(rng.choice([b'', b'a', b'<b>']) + txt))
    for _ in range(ctx.scale(1000, 30000)):
        v = rng.choice(CP_ALLOWED + CP_FORBIDDEN) + rng.randrange(0, 2 ** 33) * 2 ** 32
        cases.append(rng.choice(sets).case(spell(v)))
    return cases


def gen_cases(ctx):
    rng = ctx.rng
    cases = []
    fixed = fixed_rulesets()
    rand = [random_ruleset(rng) for _ in range(ctx.scale(6, 40))]
    # 1. exhaustive small strings over the 12-symbol alphabet
    maxlen = ctx.scale(3, 5)
    ex_rs = fixed[:5] if ctx.quick() else fixed[:3]
    for ln in range(0, maxlen + 1):
        for t in itertools.product(ALPHA12, repeat=ln):
            s = b''.join(t)
            for i, rs in enumerate(ex_rs):
                if ln <= 3 or i < 2:
                    cases.append(rs.case(s))
    # 2. exhaustive sequences of markup pieces (nesting logic)
    plen = ctx.scale(3, 4)
    for ln in range(1, plen + 1):
        for t in itertools.product(PIECES, repeat=ln):
            if ln == plen and ctx.quick() and rng.random() < 0.5:
                continue
            s = b''.join(t)
            cases.append(fixed[0].case(s))
            cases.append(fixed[1].case(s))
    for ln in (1, 2):
        for t in itertools.product(PIECES2 + PIECES[:6], repeat=ln):
            if ln == 2 and not any(x in PIECES2 for x in t):
                continue
            s = b''.join(t)
            cases.append(fixed[0].case(s))
            cases.append(fixed[1].case(s))
    # documents that validate and single structural damages of them
    for _ in range(ctx.scale(2500, 60000)):
        rs = rng.choice(fixed[:2] + fixed[:2] + fixed[2:] + rand)
        for d in near_valid(rng, rs):
            cases.append(rs.case(d, rng.choice([0, 0, 63])))
    # longer random piece sequences
    for _ in range(ctx.scale(4000, 100000)):
        s = b''.join(rng.choice(PIECES) for _ in range(rng.randrange(4, 14)))
        cases.append(rng.choice(fixed[:2] + fixed[6:]).case(s))
    # 3. grammar-guided documents and their mutations
    for _ in range(ctx.scale(9000, 200000)):
        rs = rng.choice(fixed + rand)
        s = gen_html(rng, rs)
        repl = rng.choice([0, 0, 0, 63, 32, 88, 60, 38])
        cases.append(rs.case(s, repl))
        for _ in range(rng.choice([0, 1, 2])):
            cases.append(rs.case(mutate(rng, s), repl))
    # 4. numeric entity boundaries, every rule set with numeric entities on and one without
    for cp in CP_BOUNDS + [c + d for c in (9, 32, 127, 160, 0xD800, 0xDC00, 0xE000, 0xFFFE, 0x10FFFF) for d in (-1, 1)]:
        if cp < 0:
            continue
        for txt in ('&#%d;' % cp, '&#x%x;' % cp, '&#X%X;' % cp, '&#0%d;' % cp):
            cases.append(fixed[0].case(txt.encode()))
            cases.append(fixed[3].case(txt.encode()))
            cases.append(fixed[2].case(txt.encode()))
    # 5. encoding: bad bytes around markup, all replacement characters
    for _ in range(ctx.scale(1500, 30000)):
        rs = rng.choice(fixed[2:] + rand)
        s = b''.join(rng.choice(BAD_BYTES + PIECES + [b'x', b'<a a="\xc3\xa9">', b'<a a="\xff">', b'&\xff;', b'<\xffa>']) for _ in range(rng.randrange(1, 8)))
        cases.append(rs.case(s, rng.choice([0, 63, 32, 60, 62, 38, 34, 59])))
    # 8. URI attribute values (the URI parser is modelled): every URI validator kind, xhtml and html
    uri_slots = [(fixed[0], b'<a href="', b'">x</a>'), (fixed[0], b'<img src="', b'"/>'), (fixed[0], b'<a rel="', b'">x</a>'),
                 (fixed[1], b'<img SRC="', b'">'), (fixed[1], b'<A Href="', b'">x</a>'), (fixed[2], b'<a href="', b'"/>'),
                 (fixed[8], b'<a href="', b'">x</a>'), (fixed[8], b'<img src="', b'"/>'), (fixed[8], b'<a rel="', b'">x</a>'),
                 (fixed[9], b'<img SRC="', b'">'), (fixed[9], b'<A Href="', b'">x</a>')]
    for _ in range(ctx.scale(5000, 150000)):
        rs, pre, post = rng.choice(uri_slots)
        cases.append(rs.case(pre + gen_uri_value(rng) + post))
    # 9. exhaustive URI values: all sequences of <= 3 (thorough 4) of 13 symbols around the case splits of uri_parser
    #    (scheme / colon / slashes / authority / query / fragment / percent / entity / blank) under the three validator kinds
    urs = RuleSet('x', 0, 0, '-', [], ['abs:(h|h1)', 'uris:(h|h1)', 'rel'], [('a', 3, [('x', 'f0'), ('y', 'f1'), ('z', 'f2')])])
    for ln in range(0, ctx.scale(3, 4) + 1):
        for t in itertools.product(URI_ALPHA, repeat=ln):
            v = b''.join(t)
            for an in (b'x', b'y', b'z'):
                cases.append(urs.case(b'<a ' + an + b'="' + v + b'"/>'))
    # 10. rule sets with repeated registrations: piece sequences, documents, damages
    DUP_PIECES = [b'<a href="http://h">', b'<a href="/rel">', b"<a HREF='x.html' title='t'>", b'<a id="abc">', b'<a id="12">', b'</a>', b'<a/>',
                  b'<a href="/r"/>', b'<b x="x"/>', b'<b x="12"/>', b'<b x >', b'<B X>', b'<b y="3"/>', b'<b>', b'</b>', b'<i/>', b'<i>', b'</i>',
                  b'<i class="k"/>', b'<I CLASS="k">', b'<p a="a">', b'<p a="12">', b'<p a >', b'</p>', b'<q y="1">', b't']
    for ln in (1, 2):
        for t in itertools.product(DUP_PIECES, repeat=ln):
            s = b''.join(t)
            cases.append(fixed[10].case(s))
            cases.append(fixed[11].case(s))
    for _ in range(ctx.scale(600, 20000)):
        rs = rng.choice(fixed[10:12])
        if rng.random() < 0.5:
            for d in near_valid(rng, rs):
                cases.append(rs.case(d))
        else:
            cases.append(rs.case(gen_html(rng, rs)))
    # 7. encodings that are converted to UTF-8 and back: documents, damages, stray bytes, truncation
    wide = ['text', 'a\u3042', '\u30bd', '\u00e9', '\U0001F600', '\ufeff']
    for _ in range(ctx.scale(1200, 30000)):
        base = rng.choice(fixed[:2])
        enc = rng.choice(sorted(NONASCII))
        rs = RuleSet(base.m, base.c, base.n, enc, base.ents, base.funs, base.tags)
        docs = near_valid(rng, rs) if rng.random() < 0.6 else [gen_html(rng, rs)]
        for d in docs:
            try:
                u = d.decode('latin-1')
                if rng.random() < 0.5:
                    pos = rng.randrange(len(u) + 1)
                    u = u[:pos] + rng.choice(wide) + u[pos:]
                raw = u.encode(NONASCII[enc])
            except (UnicodeEncodeError, UnicodeDecodeError):
                continue
            k = rng.randrange(6)
            if k == 0 and raw:
                pos = rng.randrange(len(raw))
                raw = raw[:pos] + rng.choice([b'\xff', b'\x80', b'\x00', b'\xd8', b'<']) + raw[pos:]
            elif k == 1 and raw:
                raw = raw[:-1]
            cases.append(rs.case(raw, rng.choice([0, 63])))
    # 12. regex-typed attributes: boundary bytes before / inside / after a matching value; 13. numeric references: the conversion
    cases.extend(gen_regex_cases(ctx, fixed))
    cases.extend(gen_numeric_cases(ctx, fixed))
    # 11. encoding boundary material
    cases.extend(gen_encoding_cases(ctx, fixed))
    # 6. long inputs
    for ln in ([200, 1000] if ctx.quick() else [200, 1000, 5000]):
        for rs in fixed[:2]:
            s = b''.join(rng.choice(PIECES) for _ in range(ln))
            cases.append(rs.case(s))
    return cases


# ------------------------------------------------------------------------------------------------
# oracle on the implementation's answer alone
# ------------------------------------------------------------------------------------------------
VALUE_ENTS = [b'&amp;', b'&lt;', b'&gt;', b'&quot;', b'&apos;', b'&#x27;', b'&#X27;', b'&#39;']
VALUE_DEC = {b'&amp;': b'&', b'&lt;': b'<', b'&gt;': b'>', b'&quot;': b'"', b'&apos;': b"'", b'&#x27;': b"'", b'&#X27;': b"'", b'&#39;': b"'"}
WS = b' \t\r\n\x0c'


OBSERVED = {}


def norm_enc(name):
    """the comparison key of cppcms::encoding (encodings_comparator): letters and digits only, lower case"""
    return re.sub(r'[^a-z0-9]', '', name.lower())


# names of the validators_set table of src/encoding.cpp -> python codec whose published table is the independent reference
PY_CODEC = {'latin1': 'iso8859_1', 'iso88591': 'iso8859_1', 'iso88592': 'iso8859_2', 'iso88593': 'iso8859_3', 'iso88594': 'iso8859_4',
            'iso88595': 'iso8859_5', 'iso88596': 'iso8859_6', 'iso88597': 'iso8859_7', 'iso88598': 'iso8859_8', 'iso88599': 'iso8859_9',
            'iso885910': 'iso8859_10', 'iso885911': 'iso8859_11', 'iso885913': 'iso8859_13', 'iso885914': 'iso8859_14',
            'iso885915': 'iso8859_15', 'iso885916': 'iso8859_16',
            'windows1250': 'cp1250', 'windows1251': 'cp1251', 'windows1252': 'cp1252', 'windows1253': 'cp1253', 'windows1255': 'cp1255',
            'windows1256': 'cp1256', 'windows1257': 'cp1257', 'windows1258': 'cp1258',
            'cp1250': 'cp1250', 'cp1251': 'cp1251', 'cp1252': 'cp1252', 'cp1253': 'cp1253', 'cp1255': 'cp1255', 'cp1256': 'cp1256',
            'cp1257': 'cp1257', 'cp1258': 'cp1258', 'koi8r': 'koi8_r', 'koi8u': 'koi8_u'}
WIDE = {'utf16le': 'utf-16-le', 'utf16be': 'utf-16-be', 'utf32le': 'utf-32-le', 'utf32be': 'utf-32-be'}


def html_safe_cp(cp):
    """the control character rule cppcms applies to user text: no C0 control other than tab / LF / CR, not DEL, no C1 control"""
    return (cp >= 0x20 or cp in (9, 10, 13)) and cp != 0x7F and not (0x80 <= cp <= 0x9F)


def wellformed(enc, data):
    """INDEPENDENT judgement (nothing of /repo is asked): is `data` well-formed text in the declared encoding?
    UTF-8: python's strict decoder (RFC 3629: shortest form, no surrogates, <= U+10FFFF, nothing truncated) and no forbidden
    control character; US-ASCII: 0x20..0x7E, tab, LF, CR; single byte code pages: every byte defined by the published table
    (python codec) and no C0 control / DEL, for the ISO-8859 family no byte 0x80..0x9F (C1); UTF-16 / UTF-32: strict decoder and
    no forbidden control character.  None = no opinion (multi-byte legacy encodings whose tables differ between vendors)."""
    e = norm_enc(enc)
    if e == 'utf8':
        try:
            u = data.decode('utf-8', 'strict')
        except UnicodeDecodeError:
            return False
        return all(html_safe_cp(ord(ch)) for ch in u)
    if e in ('usascii', 'ascii'):
        return all(0x20 <= c <= 0x7E or c in (9, 10, 13) for c in data)
    if e in PY_CODEC:
        iso = e.startswith('iso') or e == 'latin1'
        for c in data:
            if (c < 0x20 and c not in (9, 10, 13)) or c == 0x7F or (iso and 0x80 <= c <= 0x9F):
                return False
        try:
            data.decode(PY_CODEC[e], 'strict')
            return True
        except UnicodeDecodeError:
            return False
    if e in WIDE:
        try:
            u = data.decode(WIDE[e], 'strict')
        except UnicodeDecodeError:
            return False
        return all(html_safe_cp(ord(ch)) for ch in u)
    return None


def cp_allowed_by_spec(cp):
    """XML Char minus the control ranges the filter also refuses"""
    if cp > 0x10FFFF or 0xD800 <= cp <= 0xDFFF or cp in (0xFFFE, 0xFFFF):
        return False
    if 0x7F <= cp <= 0x9F:
        return False
    if cp < 0x20 and cp not in (9, 10, 13):
        return False
    return True


def check_value(R, vk, raw):
    """attribute value as it stands in the output"""
    if b'<' in raw or b'>' in raw:
        return 'attribute-value-with-angle-bracket'
    i = 0
    dec = bytearray()
    while i < len(raw):
        if raw[i] == 0x26:
            for e in VALUE_ENTS:
                if raw.startswith(e, i):
                    dec += VALUE_DEC[e]
                    i += len(e)
                    break
            else:
                return 'attribute-value-with-bare-ampersand'
        else:
            dec.append(raw[i])
            i += 1
    if vk == 'i':
        if not re.fullmatch(rb'-?[0-9]+', raw):
            return 'integer-attribute-not-integer'
    elif vk.startswith('f'):
        spec = R['funs'][int(vk[1:])]
        if spec.startswith('re:'):
            # independent judgement: the WHOLE value must be in the language of the pattern (python re.fullmatch; as in PCRE without
            # DOTALL a dot does not match a line feed, and nothing - no trailing line feed either - may follow the match)
            pat = spec[3:]
            if not re.fullmatch(pat.encode('latin-1'), raw):
                return 'regex-attribute-does-not-match'
        else:
            # RFC 3986 characters only (as the value stands in the text: & only from the permitted entities)
            if re.search(rb'[^A-Za-z0-9\-._~%!$()*+,;=\':@/?#&]', raw):
                return 'uri-attribute-with-illegal-character'
            # ... and % only as the start of a percent-encoded byte, & only as the start of &amp; / &apos; (the two references that
            # uri_parser::sub_delims knows); theorem uri_value_is_token_sequence
            if not re.fullmatch(rb"(?:[A-Za-z0-9\-._~!$()*+,;=':@/?#]|%[0-9A-Fa-f]{2}|&amp;|&apos;)*", raw):
                return 'uri-attribute-with-malformed-escape'
            # browser-lenient scheme extraction: control characters and blanks are ignored by browsers
            v = bytes(c for c in dec if c > 0x20)
            m = re.match(rb'([A-Za-z][A-Za-z0-9+.\-]*):', v)
            scheme = m.group(1) if m else None
            if spec == 'rel':
                if scheme is not None:
                    return 'relative-uri-attribute-with-scheme'
            else:
                allowed = DEFAULT_SCHEMES if spec == 'uri' else spec.split(':', 1)[1]
                if scheme is not None and not re.fullmatch(allowed.encode(), scheme):
                    return 'uri-scheme-not-white-listed'
                if scheme is None and spec.startswith('abs:'):
                    return 'absolute-uri-attribute-without-scheme'
    return None


def lenient_scan(R, out):
    """independent, browser-lenient tokenizer over filter output: returns None or a failure key"""
    n = len(out)
    i = 0
    while i < n:
        c = out[i]
        if c == 0x3E:
            return 'stray-gt'
        if c == 0x26:
            m = re.compile(rb'&(#[0-9]+|#[xX][0-9a-fA-F]+|[A-Za-z0-9]+);').match(out, i)
            if not m:
                return 'stray-ampersand'
            nm = m.group(1)
            if nm[:1] == b'#':
                if not R['numeric']:
                    return 'numeric-entity-not-allowed'
                cp = int(nm[2:], 16) if nm[1:2] in (b'x', b'X') else int(nm[1:])
                if not cp_allowed_by_spec(cp):
                    if 0xDC00 <= cp <= 0xDFFF:
                        # not an XML Char, but the property text does not restrict the code points of numeric
                        # references beyond "the rules allow" them (see docs/C04.md, Observations): noted, not a failure
                        OBSERVED['numeric-entity-low-surrogate-accepted'] = OBSERVED.get('numeric-entity-low-surrogate-accepted', 0) + 1
                    else:
                        return 'numeric-entity-bad-code-point'
            elif nm not in R['ents']:
                return 'entity-not-white-listed'
            i = m.end()
            continue
        if c != 0x3C:
            i += 1
            continue
        # '<'
        if out.startswith(b'<!--', i):
            if not R['comments']:
                return 'comment-not-allowed'
            j = out.find(b'-->', i + 4)
            if j < 0:
                return 'unterminated-comment'
            body = out[i + 4:j]
            if b'<' in body or b'>' in body or b'&' in body:
                return 'comment-with-markup'
            i = j + 3
            continue
        m = re.compile(rb'<(/?)([A-Za-z_][A-Za-z0-9]*)').match(out, i)
        if not m:
            return 'stray-lt'
        closing = m.group(1) == b'/'
        name = R['norm'](m.group(2))
        if name not in R['tags'] or R['tags'][name][0] == 0:
            return 'tag-not-white-listed'
        kind, attrs = R['tags'][name]
        j = m.end()
        seen = set()
        selfclose = False
        # browser style attribute parsing
        while True:
            while j < n and (out[j] in WS or out[j] == 0x2F):
                if out[j] == 0x2F and j + 1 < n and out[j + 1] == 0x3E:
                    selfclose = True
                j += 1
            if j >= n:
                return 'unterminated-tag'
            if out[j] == 0x3E:
                j += 1
                break
            k = j
            while k < n and out[k] not in WS and out[k] not in b'=>/':
                k += 1
            if k == j:
                return 'malformed-attribute'
            an = R['norm'](out[j:k])
            j = k
            while j < n and out[j] in WS:
                j += 1
            val = None
            if j < n and out[j] == 0x3D:
                j += 1
                while j < n and out[j] in WS:
                    j += 1
                if j < n and out[j] in b'"\'':
                    q = out[j]
                    e = out.find(bytes([q]), j + 1)
                    if e < 0:
                        return 'unterminated-attribute-value'
                    val = out[j + 1:e]
                    j = e + 1
                else:
                    e = j
                    while e < n and out[e] not in WS and out[e] != 0x3E:
                        e += 1
                    val = out[j:e]
                    j = e
                    return 'unquoted-attribute-value'
            if closing:
                return 'attribute-on-closing-tag'
            if an in seen:
                return 'duplicate-attribute'
            seen.add(an)
            if an not in attrs:
                return 'attribute-not-white-listed'
            vk = attrs[an]
            if val is None:
                if vk != 'b' or R['xhtml']:
                    return 'valueless-attribute-not-boolean'
            else:
                if vk == 'b':
                    if not R['xhtml'] or val != out[k - len(an):k]:
                        return 'boolean-attribute-with-value'
                else:
                    r = check_value(R, vk, val)
                    if r:
                        return r
        if closing and kind == 2:
            return 'closing-tag-of-stand-alone-tag'
        if selfclose and kind == 1:
            return 'self-closed-tag-of-paired-kind'
        i = j
    return None


def balanced_xhtml(R, out):
    """in XHTML mode every white-listed opening tag must be closed in order (independent stack check)"""
    st = []
    for m in re.finditer(rb'<(/?)([A-Za-z_][A-Za-z0-9]*)((?:[^>"\']|"[^"]*"|\'[^\']*\')*)>', out):
        if m.group(3).rstrip().endswith(b'/'):
            continue
        if m.group(1):
            if not st or st.pop() != m.group(2):
                return False
        else:
            st.append(m.group(2))
    return not st


def html_closes_matched(R, out):
    """html mode: every closing tag of the output closes an opening tag that is still open (names compared without case);
    opening tags may stay open (independent stack check)"""
    st = []
    for m in re.finditer(rb'<(/?)([A-Za-z_][A-Za-z0-9]*)((?:[^>"\']|"[^"]*"|\'[^\']*\')*)>', out):
        name = m.group(2).lower()
        if m.group(1):
            while st and st[-1] != name:
                st.pop()
            if not st:
                return False
            st.pop()
        elif not m.group(3).rstrip().endswith(b'/'):
            st.append(name)
    return True


def oracle(case, out):
    if out.startswith('<crash'):
        return ('crash', 'harness died on this input: ' + out)
    head = out.split(' | ')[0]
    if head.startswith('EXCEPTION') or head.startswith('BAD-RULES'):
        return ('exception', 'library threw: ' + head[:200])
    o = dict(t.split('=', 1) for t in head.split() if '=' in t)
    if not all(k in o for k in ('v', 'fl', 'rm', 'es', 'vrm', 'ves')):
        return ('bad-output', 'unexpected harness answer ' + out[:200])
    if 'PATHS-DIFFER' in head:
        if 'PRM' in o and 'PES' in o:
            # the rule set built with the convenience overloads of the public API (the library's own regex_functor / URI validators) answered
            # differently: judge what IT returns with the independent tokenizer, so that the failure is named
            Rp = rules_of(fields_of(case))
            for name, text in (('remove_invalid', unhex(o['PRM'])), ('escape_invalid', unhex(o['PES']))):
                r = lenient_scan(Rp, text) if Rp['enc'] not in NONASCII else None
                if r:
                    return (r, 'independent tokenizer over the %s output of filter() under the rule set registered with the convenience overloads '
                               '(add_property(tag, attr, booster::regex) ...): %s' % (name, r))
        return ('entry-points-disagree', 'the entry points of the filter disagree: ' + ' '.join(t for t in head.split() if t.startswith('PATHS')))
    f = fields_of(case)
    R = rules_of(f)
    x = unhex(f.get('in', '-'))
    rm, es = unhex(o['rm']), unhex(o['es'])
    if o['v'] != o['fl']:
        return ('validate-differs-from-filter-flag', 'validate() and validate_and_filter_if_invalid() give different verdicts')
    if o['v'] == '1' and (rm != x or es != x):
        return ('valid-input-changed', 'input validates but the filter changed it')
    if R['enc'] != '-':
        # well-formedness in the declared encoding, judged without asking the implementation: whatever validate() accepts and
        # whatever filter() returns (valid or not, either method) must be well-formed
        if o['v'] == '1' and wellformed(R['enc'], x) is False:
            return ('validate-accepts-ill-formed-encoding', 'validate() accepts the input although it is not well-formed %s%s' % (
                R['enc'], ' (and filter() returns it unchanged)' if rm == x else ''))
        for name, text, ok in (('remove_invalid', rm, o['vrm']), ('escape_invalid', es, o['ves'])):
            if wellformed(R['enc'], text) is False:
                return ('filter-output-ill-formed-encoding', 'the %s output of filter() is not well-formed %s%s' % (
                    name, R['enc'], ' (validate() accepts it)' if ok == '1' else ''))
    if R['enc'] == '-' and o['v'] != '1':
        # without an encoding filter, remove_invalid only deletes and escape_invalid only rewrites < > & " of deleted parts
        it = iter(x)
        if not all(c in it for c in rm):
            return ('remove-output-not-a-subsequence', 'remove_invalid output is not a subsequence of the input')
        it = iter(es)
        if len(es) < len(x) or not all(c in it for c in rm):
            return ('escape-output-lost-text', 'escape_invalid output does not contain the text kept by remove_invalid / is shorter than the input')
    if R['enc'] != '-' and wellformed(R['enc'], b'a') is not None and norm_enc(R['enc']) not in WIDE and f.get('repl', '0') == '0' and o['v'] != '1':
        # a byte-oriented encoding with a built-in validator and no replacement character: the encoding filter and the markup filter only delete
        it = iter(x)
        if not all(c in it for c in rm):
            return ('remove-output-not-a-subsequence', 'remove_invalid output (encoding %s, no replacement character) is not a subsequence of the input' % R['enc'])
    for name, text, ok in (('remove_invalid', rm, o['vrm']), ('escape_invalid', es, o['ves'])):
        if R['enc'] in NONASCII:
            # the markup is looked for in the decoded text (python codec); undecodable output: no opinion unless the
            # encoding is one of the unambiguous ones (then validate-accepts-ill-formed-encoding above has fired)
            try:
                text = text.decode(NONASCII[R['enc']], 'strict').encode('utf-8')
            except UnicodeDecodeError:
                if ok != '1':
                    return ('filter-output-fails-validation', 'validate(filter(x)) is false for the %s output' % name)
                continue
        r = lenient_scan(R, text)
        if r:
            return (r, 'independent tokenizer over the %s output: %s' % (name, r))
        if R['xhtml'] and not balanced_xhtml(R, text):
            return ('unbalanced-xhtml-output', 'opening/closing tags of the %s output are not balanced' % name)
        if not R['xhtml'] and not html_closes_matched(R, text):
            return ('unmatched-closing-tag-in-html-output', 'a closing tag of the %s output closes nothing' % name)
        if ok != '1':
            return ('filter-output-fails-validation', 'validate(filter(x)) is false for the %s output' % name)
    return None


def nontrivial(case, out):
    f = fields_of(case)
    x = unhex(f.get('in', '-'))
    if any(c in x for c in b'<>&'):
        return True
    # with a declared encoding: text that exercises the encoding validator beyond printable ASCII
    return f.get('enc', '-') != '-' and any(c >= 0x7F or (c < 0x20 and c not in (9, 10, 13)) for c in x)


def classify(case, out):
    f = fields_of(case)
    n = 0 if f.get('in', '-') == '-' else len(f['in']) // 2
    b = 'len0-3' if n <= 3 else 'len4-16' if n <= 16 else 'len17-64' if n <= 64 else 'len65-512' if n <= 512 else 'len>512'
    m = re.match(r'v=(\d)', out)
    return '%s:%s:%s:%s' % ('xhtml' if f['m'] == 'x' else 'html', 'enc' if f.get('enc', '-') != '-' else 'noenc',
                            'valid' if (m and m.group(1) == '1') else 'filtered', b)


# ------------------------------------------------------------------------------------------------
# two-phase differential: the harness answer carries the oracle table that the model needs
# ------------------------------------------------------------------------------------------------
def differential2(ctx, cases, exe, mexe):
    t0 = time.time()
    rc_i, out_i, err_i = vlib.run_lines_parallel(exe, cases)
    t1 = time.time()
    cov = ctx.coverage
    cov['evaluations'] = cov.get('evaluations', 0) + len(cases)
    cov['impl_wall_s'] = round(cov.get('impl_wall_s', 0) + t1 - t0, 2)
    if len(out_i) != len(cases):
        ctx.broke('implementation harness produced %d lines for %d cases (rc=%s)' % (len(out_i), len(cases), rc_i), err_i[-3000:])
        if len(out_i) < len(cases):
            bad = cases[len(out_i)]
            r = oracle(bad, '<crash rc=%s> %s' % (rc_i, err_i[-400:].replace('\n', ' | ')))
            if r:
                ctx.fail(r[0], r[1], bad)
        return
    out_m = None
    if mexe:
        mlines = []
        for c, o in zip(cases, out_i):
            tail = o.split(' | ', 1)
            mlines.append(c + ' ' + (tail[1] if len(tail) == 2 else 'F=- E=- A=1 U=- V=- S=-'))
        rc_m, out_m, err_m = vlib.run_lines_parallel(mexe, mlines)
        if len(out_m) != len(cases):
            ctx.broke('model driver produced %d lines for %d cases' % (len(out_m), len(cases)), err_m[-2000:])
            out_m = None
    t2 = time.time()
    cov['model_wall_s'] = round(cov.get('model_wall_s', 0) + t2 - t1, 2)
    ndiff = 0
    hist = cov.setdefault('distribution', {})
    seen = cov.setdefault('_seen', set())
    for i, c in enumerate(cases):
        a = out_i[i]
        r = oracle(c, a)
        if r:
            ctx.fail(r[0], r[1] + '\n  case: %s\n  impl: %s' % (c[:600], a[:400]), c)
        head = a.split(' | ')[0]
        if out_m is not None and not model_covers(c):
            cov['oracle_only_cases'] = cov.get('oracle_only_cases', 0) + 1
        elif out_m is not None and head != out_m[i]:
            ndiff += 1
            if ndiff <= 5:
                ctx.broke('correspondence model vs implementation: differ on case',
                          'case:  %s\nimpl:  %s\nmodel: %s' % (c[:800], head[:600], out_m[i][:600]))
        if ' J=1 ' in a:
            cov['cases_also_run_with_json_built_rules'] = cov.get('cases_also_run_with_json_built_rules', 0) + 1
        k = classify(c, a)
        hist[k] = hist.get(k, 0) + 1
        if nontrivial(c, a):
            seen.add(hashlib.md5(c.encode()).digest())
    cov['distinct_nontrivial'] = len(seen)
    cov['correspondence_differences'] = cov.get('correspondence_differences', 0) + ndiff
    if len(cov.get('samples', [])) < 6:
        step = max(1, len(cases) // 5)
        for i in range(0, len(cases), step):
            cov.setdefault('samples', []).append({'case': cases[i][:300], 'impl': out_i[i][:300],
                                                  'model': (out_m[i][:300] if out_m else None)})


def run(ctx):
    # the translator front end is one clang run per function: run the independent generation jobs side by side (subprocesses),
    # and compile the harness meanwhile
    import concurrent.futures
    with concurrent.futures.ThreadPoolExecutor(12) as ex:
        jobs = [ex.submit(vlib.gen_coq, {n: spec}) for n, spec in GEN.items()] + [ex.submit(gen_extra), ex.submit(gen_next), ex.submit(gen_enc), ex.submit(gen_control)]
        hjob = ex.submit(vlib.build_harness, 'C04_xss', ['C04_xss.cpp'])
        errs = []
        for j in jobs:
            errs += j.result()
        exe, herr = hjob.result()
    for n, e in errs:
        ctx.broke('translator cxx2v failed on %s (tie to source broken)' % n, e)
    # the statement skeleton of the core of src/xss.cpp (tokeniser, parsers, nesting, white-list look-up, validate, filter): compared with the
    # one recorded when the hand model was last read against the code.  Informative only (a note, never an alarm): the behaviour of these
    # functions is tied by correspondence, their leafs by Link.v
    skel_file = os.path.join(vlib.VERIF, 'docs', 'C04_xss_skeleton.txt')
    if 'text' in XSS_SKELETON and os.path.exists(skel_file):
        rec = open(skel_file).read()
        if rec == XSS_SKELETON['text']:
            ctx.coverage['xss_core_skeleton'] = 'as recorded in docs/C04_xss_skeleton.txt (%d lines): the hand model was written from this text' % rec.count('\n')
        else:
            import difflib
            d = [l for l in difflib.unified_diff(rec.split('\n'), XSS_SKELETON['text'].split('\n'), 'recorded', 'current', lineterm='', n=0)][:40]
            ctx.coverage['xss_core_skeleton'] = 'CHANGED since it was recorded (informative): ' + ' | '.join(d)[:1500]
            ctx.notes.append('the statement skeleton of the core of src/xss.cpp differs from docs/C04_xss_skeleton.txt: the hand model (coq/C04/Defs.v) should be re-read '
                             'against the changed functions (correspondence and the oracle decide about behaviour): ' + ' | '.join(d)[:800])
    res = vlib.coq_props('C04')
    ctx.proof(res)
    ctx.coverage['trusted_base'] = [
        'Coq 8.16.1 kernel, vm_compute (256-point sweeps); no native_compute',
        'tools/cxx2v.py + clang 14 JSON AST (character classes regenerated from src/xss.cpp)',
        'extraction: ExtrOcamlBasic only, OCaml 4.13.1',
        'harness/C04_xss.cpp, ocaml/C04_driver.ml, checks/C04.py (generators, oracle table plumbing, independent python tokenizer)',
        'hand model of the loops of src/xss.cpp (coq/C04/Defs.v), tied by correspondence only',
        'regex engine (PCRE via booster::regex): for patterns of the family parsed by coq/C04/DefsR.v the model decides (coq/C20/Defs.v full_match, proved correct in coq/C20/Regex.v, imported read-only) and the real regex_functor is cross-checked on every value (REGEX-MODEL-DIFFERS); other patterns and the scheme expression of URI validators: abstract, answered by the real code; the full-match anchoring of booster::regex is tied rigidly (LinkR.v); class uri_parser is modelled (coq/C04/DefsU.v), its one-byte matchers, alternatives and entry points are tied by Link.v',
        'cppcms::encoding::valid / validate_or_filter / is_ascii_compatible: modelled (coq/C14/Defs.v through coq/C04/DefsE.v), computed by the extracted model during correspondence (the answers of the real functions printed by the harness are not given to the model); leafs utf::valid, is_trail, trail_length, width tied by coq/C04/LinkE.v over coq/gen/Gen_C04utf.v; decoder switch, filter loops, validators_set table, single byte loop bodies: by correspondence',
        'coq/C14/Spec.v (transcription of the RFC 3629 section 4 ABNF and section 3 table) as the meaning of well-formed UTF-8; python strict decoders and code page tables in the oracle',
        'booster::locale::conv::to_utf / from_utf (iconv) for the encodings that are not ASCII compatible: abstract, answered by the real code']
    ctx.assumptions = [
        'the validator functors (regex, URI, user supplied) are pure functions of the attribute value',
        'sections 1-8 of Props.v keep the encoding validators abstract under the premises enc_agree, enc_vof_valid, enc_ascii_compatible; section 9 proves these premises for the concrete UTF-8 and single byte validators, so the theorems there have none of them',
        'filter output well-formedness / stability with an encoding: the replacement character is absent (0) or itself acceptable (HTML-safe ASCII for UTF-8, a byte the code page accepts otherwise); for converted encodings premise conv_roundtrip (to_utf (from_utf u) = u)',
        'single byte theorems: input bytes < 256 (bytes_ok) for the control character corollary',
        'stability: premise kind_compat / esc_entities_ok on the rule set, proved for every rule set the public API can build',
        'char is signed 8-bit and long is 64-bit on this target (x86-64, LP64), as clang reports; strtol saturates at LONG_MAX (C standard)',
        'regex theorems: for patterns of the family of coq/C04/DefsR.v, under the reading of the pattern text given by parse_pattern (cross-checked against PCRE on every value asked)']
    if not exe:
        ctx.broke('harness build failed', herr)
        return
    mexe, err = vlib.build_model('C04', 'C04_driver.ml', 'c04m')
    if not mexe:
        ctx.broke('model extraction/build failed', err)
    if ctx.replay_cases is not None:
        cases = ctx.replay_cases
    else:
        cases = vlib.corpus_cases('C04') + gen_cases(ctx)
    ctx.coverage['rule'] = (
        'cases: rule set description + replacement char + hex input. Exhaustive: all strings of length<=3 (thorough: <=5) over the 12 symbols '
        '< > & ; / ! - " \' a = space under 5 rule sets; all sequences of <=3 (thorough: <=4) of 24 markup pieces under an xhtml and an html '
        'rule set. Random (seeded): piece sequences, grammar-guided documents (nested/unterminated/mismatched tags, attributes of every '
        'validator kind with good and bad values, mixed quotes, entities incl. numeric boundaries, comments incl. -- inside, invalid UTF-8, '
        'NUL) and single-byte mutations of them under 12 fixed + random rule sets (xhtml/html, tag kinds, repeated registrations of a tag / attribute, boolean/integer/regex/uri/absolute/'
        'relative attributes, comments and numeric entities on/off, encodings none/UTF-8/ISO-8859-x/windows-125x/koi8/ascii), replacement '
        'characters 0 ? space X < & > " ;; documents that validate and single structural damages of them; converted encodings UTF-16LE/BE, UTF-32LE, '
        'Shift_JIS, EUC-JP, GBK with wide characters, stray bytes and truncation; encoding boundary material (gen_encoding_cases): for UTF-8 every boundary code point (7F/80, 9F/A0, 7FF/800, FFFF/10000, D7FF/D800/DFFF/E000, FFFD/FFFE, 10FFFF/110000, 1FFFFF) in shortest form and in every over-long form incl. 5/6 byte forms, over-long < > & and quote, truncated sequences, stray trail bytes, invalid lead bytes, bad bytes at every trail position, the second-byte ranges of E0/ED/F0/F4 - each placed in 21 contexts (text, end of input, before <, before &, inside / at the cut end of an attribute value, URI value, tag / attribute / entity name, numeric entity, comment, cut tag ...) under an xhtml and an html rule set; pairs of such sequences; the grid lead class x second byte x trail bytes of lengths 2-4; every single byte; every byte under every single byte validator body (thorough: every table name) in text and in an attribute value; UTF-16/32 units (lone surrogates, controls, odd length); regex-typed attributes (gen_regex_cases): for every regex-typed attribute of 4 rule sets, every matching base value with each of 19 boundary byte sequences (LF, CR, CRLF, LF LF, LF CR, NUL, tab, blank, VT, FF, US, DEL, 0x85, U+0085, U+2028, U+2029, NBSP byte, blank LF, LF blank) before, inside, after, doubled after, alone and between two copies, both quote characters, plus random single bytes appended / prepended; numeric character references (gen_numeric_cases): v + k*2^32 and v + k*2^64 (and 2^63, 2^96, 2^128 offsets) for 16 allowed and 14 forbidden code points v, values around INT_MAX / UINT_MAX / LONG_MAX / ULONG_MAX, powers of 10 and 16, digit strings of every length 10..40 with and without leading zeros, decimal and both hexadecimal letter cases; URI attribute values: grammar-guided (scheme/authority/path/query/fragment parts, good and bad) and exhaustive short sequences of 13 URI symbols under the three URI validator kinds. A case is non-trivial when the input contains at least one of < > &, or - with an encoding declared - a byte outside printable ASCII / tab / LF / CR; distinct = distinct case lines.')
    ctx.coverage['exhaustive'] = False
    ctx.coverage['exhaustive_parts'] = ['strings of length<=%d over 12 symbols' % ctx.scale(3, 5),
                                        'piece sequences of length<=%d (quick: half of the longest)' % ctx.scale(3, 4),
                                        'every byte value as a one byte text under UTF-8 and under every single byte validator body; the UTF-8 boundary sequences x 21 contexts x 2 rule sets' + ('' if ctx.quick() else '; every 2 byte sequence starting with a non-ASCII byte under UTF-8; every table name of validators_set'),
                                        'URI attribute values: sequences of <=%d of 13 symbols (h 1 : / ? # @ %%41 . &amp; blank _ %%4) under the absolute-only, both and relative validators' % ctx.scale(3, 4)]
    pf = probe_parse_full()
    if pf == 'uri_reference':
        ctx.broke('uri_parser::parse_full() is uri_reference() && begin_ == end_ again: regression of /repo 92a72e6, the absolute-only URI '
                  'validator accepts relative references that start with a scheme word (e.g. <img src="http/evil"/> under '
                  'uri_validator("(http|https)", true)); the model (coq/C04/DefsU.v: parse_full) and theorem absolute_uri_requires_scheme '
                  'describe uri() && begin_ == end_')
    elif pf is None:
        ctx.broke('uri_parser::parse_full() no longer has the shape the model describes (uri() && begin_ == end_): tie to source broken')
    ctx.coverage['parse_full_shape'] = {'uri': 'uri() && begin_ == end_ (as modelled)', 'uri_reference': 'uri_reference() && begin_ == end_ (REGRESSION)',
                                        None: 'unknown'}[pf]
    differential2(ctx, cases, exe, mexe)
    if OBSERVED:
        ctx.notes.append('observations (not failures): %s' % ', '.join('%s x%d' % kv for kv in sorted(OBSERVED.items())))
