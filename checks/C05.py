"""C05 -- client-side sessions are accepted only if issued by this server and unexpired."""
import os, re, base64, hashlib, struct, hmac as pyhmac
import vlib
from vlib import hexs, unhex

META = dict(
    property_id='C05',
    design_ref='DESIGN.md section 4, C05',
    technique='Coq proof (encrypt-then-MAC decision logic over abstract HMAC / AES block primitives) + extracted-model '
              'correspondence on the real session_cookies / hmac_cipher / aes_cipher / session_pool with interposed time()',
    level_text=('Theorems in coq/C05/Props.v over an executable model of hmac_cipher, aes_cipher (CBC over an abstract block cipher, '
                'zero first block, 32-bit length, padding, chained IV), session_cookies save/load (8-byte expiry, C tag, base64url of '
                'C15) and the key preparation of aes_factory, for every payload, key, IV and clock: save-then-load returns the saved '
                'data and expiry iff not expired; every accepted cookie carries a correct MAC over its entire cipher text, checked '
                'before decryption, and the result is a function of that authenticated text only; under an explicit unforgeability '
                'hypothesis on the history, an accepted cookie returns the (data, expiry) of an earlier save; acceptance of any '
                'mutation of body or tag is exactly a MAC collision; structural rejects (too short, not a block multiple, fewer than two '
                'blocks, inner length beyond the available bytes, expired) are rejects with the cookie cleared. HMAC, the AES block '
                'function and its inverse are universally quantified; the real primitives are supplied to the extracted model by the '
                'harness so that the decision logic of the real code and of the model are compared on every single-bit flip, '
                'truncation, extension, block swap, splice and cross-key transplant of real cookies. The state an encryptor carries '
                'between calls is explicit in the model (the two chaining vectors iv_enc / iv_dec of the cbc object of src/aes.cpp, one '
                'object per aes_cipher per session_cookies): proved for EVERY history of encrypt/decrypt (save/load) calls on one object: '
                'what encrypt issues and the vector it starts from depend only on the initial nonce and the earlier encrypt calls, never '
                'on a decrypted (client presented) input (non-interference); load verdicts do not depend on the object state; objects with '
                'different nonces never issue equal first blocks, whatever was presented to them and whatever they save. Histories with '
                'decrypt-then-encrypt on one object (several objects from one factory, whole session_pool requests presenting the same '
                'cookie and saving the same / prefix-sharing data) are run on the real code; the model must reproduce every issued byte '
                'from the recovered nonce, and the oracle checks IV freshness / own-chain discipline on the cookies alone.'),
    level_note=('Trusted: Coq kernel; ExtrOcamlBasic extraction; the hand model of the C++ control flow (tied by correspondence, except: '
                'crypto::key::from_hex translated by tools/cxx2v.py, and hmac_cipher::equal -- the tag comparator of both encryptors -- whose '
                'loop body and return test are translated from the current source inside a rigid byte-loop frame and proved in '
                'coq/C05/LinkEqual.v to be an equality test of all bytes = the model ct_equal); unforgeability of HMAC and '
                'indistinguishability of AES-CBC are assumptions, not theorems (the confidentiality sentence of the property is covered '
                'only by the structural lemmas on IV chaining and by pairwise-distinctness checks on the real cipher texts); the harness '
                'reads session_interface::temp_cookie_ through a private-access define; the openssl command line tool (enc -aes-*-ecb) '
                'is the independent AES the oracle uses to recover IVs from first cipher blocks (if it is missing the raw block values '
                'reported by a fresh cppcms cbc object are used and the evidence says so).'),
)

GEN = {
    # crypto::key::from_hex (hex digit value used by key::set_hex for every configured key)
    'Gen_c05key': dict(src='src/crypto.cpp', functions=[('from_hex', 'g_key_from_hex')]),
}

# hmac_cipher::equal (the comparator of BOTH encryptors) is a loop, which tools/cxx2v.py does not translate.  Rigid statement tie:
# the function must have exactly the byte-loop frame below; its loop BODY and its RETURN expression are then copied verbatim into
# two loop-free functions of a generated translation unit, translated by cxx2v, and coq/C05/Link.v proves that folding the
# translated step over two byte strings of equal length and applying the translated test is list equality.  An accumulator that
# can cancel (xor, wrapping sums), that is one-directional, or any other frame breaks the tie.
EQUAL_FRAME = re.compile(
    r'bool hmac_cipher::equal\(void const \*a,void const \*b,size_t n\) \{ '
    r'char const \*left = static_cast<char const \*>\(a\); '
    r'char const \*right = static_cast<char const \*>\(b\); '
    r'size_t diff = 0; '
    r'for\(size_t i=0;i<n;i\+\+\) \{ (?P<body>[^{}]*) \} '
    r'return (?P<ret>[^;{}]*); \} '
    r'bool hmac_cipher::decrypt\(')


def equal_tie_spec():
    """write the translation unit for the tie of hmac_cipher::equal from /repo's CURRENT source and return its cxx2v spec"""
    d = os.path.join(vlib.WORK, 'gen-src')
    os.makedirs(d, exist_ok=True)
    tu = os.path.join(d, 'C05_equal_tu.cpp')
    why = None
    try:
        src = open(os.path.join(vlib.REPO, 'src/hmac_encryptor.cpp')).read()
        src = re.sub(r'//[^\n]*', ' ', src)
        src = re.sub(r'/\*.*?\*/', ' ', src, flags=re.S)
        m = EQUAL_FRAME.search(' '.join(src.split()))
        if not m:
            why = 'hmac_cipher::equal no longer has the byte-loop frame (left/right char pointers, size_t diff = 0, one for loop over i<n, one return)'
        else:
            body = m.group('body').replace('left[i]', 'l').replace('right[i]', 'r')
            body = re.sub(r'\bdiff\+\+\s*;', 'diff += 1;', body)
            body = re.sub(r'\+\+diff\s*;', 'diff += 1;', body)
            ret = m.group('ret')
            ids = set(re.findall(r'[A-Za-z_]\w*', body))
            if not ids <= {'l', 'r', 'diff', 'if', 'else'} or '[' in body or set(re.findall(r'[A-Za-z_]\w*', ret)) - {'diff'}:
                why = 'the loop body / return of hmac_cipher::equal uses something else than left[i], right[i] and diff'
    except OSError as e:
        why = 'cannot read src/hmac_encryptor.cpp: %s' % e
    if why:
        txt = '#error "C05 tie: %s"\n' % why
    else:
        txt = ('// GENERATED by checks/C05.py from src/hmac_encryptor.cpp (hmac_cipher::equal): loop body and return expression verbatim\n'
               '#include <stddef.h>\n'
               'size_t c05_equal_step(size_t diff_in,char l,char r)\n{\n\tsize_t diff = diff_in;\n\t%s\n\treturn diff;\n}\n'
               'bool c05_equal_done(size_t diff)\n{\n\treturn %s;\n}\n' % (body, ret))
    vlib.write_if_changed(tu, txt)
    return {'Gen_c05equal': dict(src=tu, functions=[('c05_equal_step', 'g_equal_step'), ('c05_equal_done', 'g_equal_done')])}


GEN.update(equal_tie_spec())

ALGS = ['md5', 'sha1', 'sha224', 'sha256', 'sha384', 'sha512']
DLEN = dict(md5=16, sha1=20, sha224=28, sha256=32, sha384=48, sha512=64)
BLK = dict(md5=64, sha1=64, sha224=64, sha256=64, sha384=128, sha512=128)
CBC = {'aes': 16, 'AES': 16, 'aes128': 16, 'aes-128': 16, 'AES128': 16, 'AES-128': 16,
       'aes192': 24, 'aes-192': 24, 'AES192': 24, 'AES-192': 24,
       'aes256': 32, 'aes-256': 32, 'AES256': 32, 'AES-256': 32}
ALPHA = b'ABCDEFGHIJKLMNOPQRSTUVWXYZabcdefghijklmnopqrstuvwxyz0123456789-_'
D6 = {c: i for i, c in enumerate(ALPHA)}
I64MAX = 2 ** 63 - 1
I64MIN = -2 ** 63


# ------------------------------------------------------------------------------------------
# specification-side helpers (independent of the model): key material, base64url, save_data
# ------------------------------------------------------------------------------------------
def norm_mac_key(alg, k):
    """HMAC treats keys that agree after hashing-if-long and zero padding as the same key"""
    if len(k) > BLK[alg]:
        k = hashlib.new(alg, k).digest()
    return k.ljust(BLK[alg], b'\0')


def material(tok):
    """effective key material of a configuration token, None if the configuration is unusable"""
    p = tok.split('/')
    if p[0] == 'hmac' and len(p) == 3:
        alg, k = p[1].lower(), unhex(p[2])
        if alg not in DLEN or len(k) < 16:
            return None
        return ('hmac', alg, norm_mac_key(alg, k))
    if p[0] == 'aes' and len(p) == 5:
        sz, ck, alg, mk = CBC.get(p[1]), unhex(p[2]), p[3].lower(), unhex(p[4])
        if sz is None or len(ck) != sz or alg not in DLEN:
            return None
        return ('aes', ck, alg, norm_mac_key(alg, mk))
    if p[0] == 'aesk' and len(p) == 3:
        sz, k = CBC.get(p[1]), unhex(p[2])
        if sz is None or not p[1].startswith('aes'):
            return None
        if len(k) == sz + 20:
            ck, mk = k[:sz], k[sz:]
        elif len(k) >= sz:
            name = 'sha256' if len(k) * 8 <= 256 else 'sha512'
            ck = pyhmac.new(k, b'0', name).digest()[:sz]
            mk = pyhmac.new(k, b'\x01', name).digest()[:20]
        else:
            return None
        return ('aes', ck, 'sha1', norm_mac_key('sha1', mk))
    return None


def raw_mac_key(tok):
    """(hash name, MAC key bytes) a usable configuration authenticates with (RFC 2104 HMAC), None if unusable"""
    p = tok.split('/')
    if material(tok) is None:
        return None
    if p[0] == 'hmac':
        return p[1].lower(), unhex(p[2])
    if p[0] == 'aes':
        return p[3].lower(), unhex(p[4])
    sz, k = CBC[p[1]], unhex(p[2])
    if len(k) == sz + 20:
        return 'sha1', k[sz:]
    name = 'sha256' if len(k) * 8 <= 256 else 'sha512'
    return 'sha1', pyhmac.new(k, b'\x01', name).digest()[:20]


KAT_AES = [('000102030405060708090a0b0c0d0e0f', '69c4e0d86a7b0430d8cdb78070b4c55a'),
           ('000102030405060708090a0b0c0d0e0f1011121314151617', 'dda97ca4864cdfe06eaf70a0ec0d7191'),
           ('000102030405060708090a0b0c0d0e0f101112131415161718191a1b1c1d1e1f', '8ea2b7ca516745bfeafc49904b496089')]
KAT_PLAIN = '00112233445566778899aabbccddeeff'


def check_prims(prims):
    """the HMAC values handed to the model are RFC 2104 HMACs (independent Python implementation)"""
    for t in prims:
        if t.startswith('H='):
            a, k, m, tag = t[2:].split(',')
            if pyhmac.new(unhex(k), unhex(m), ALGS[int(a)]).digest() != unhex(tag):
                return ('hmac-primitive-wrong', 'cppcms::crypto::hmac(%s) differs from RFC 2104 HMAC for key %s message %s' % (ALGS[int(a)], k[:64], m[:64]))
    return None


def oracle_kat(case, out):
    ct = case.split(' ')
    if crashed(out):
        return [('crash', 'the harness died: ' + out[:300], None)]
    head, items, prims, extra = parse_impl(out)
    r = check_prims(prims)
    if r:
        return [(r[0], r[1], None)]
    if ct[1] == 'aes':
        got = {t[2:].split(',')[2]: t[2:].split(',')[1] for t in prims if t.startswith('B=')}
        for y in ct[3:]:
            want = KAT_PLAIN if (ct[2], y) in KAT_AES else None
            if y not in got:
                return [('aes-primitive-missing', 'no block decryption reported', None)]
            if want and got[y] != want:
                return [('aes-primitive-wrong', 'cppcms::crypto::cbc decryption of the FIPS-197 vector is wrong', None)]
            ref = aes_ecb_dec(ct[2], [unhex(y)])
            if ref is not None and ref[unhex(y)] != unhex(got[y]):
                return [('aes-primitive-wrong', 'cppcms::crypto::cbc block decryption differs from AES (openssl enc -aes-ecb)', None)]
    elif not any(t.startswith('H=') for t in prims):
        return [('hmac-primitive-missing', 'no HMAC value reported', None)]
    return []


def mac_dlen(tok):
    p = tok.split('/')
    if p[0] == 'hmac':
        return DLEN.get(p[1].lower(), 20)
    if p[0] == 'aes':
        return DLEN.get(p[3].lower(), 20)
    return 20


def cipher_len(tok, plain_len):
    if tok.startswith('hmac/'):
        return plain_len + mac_dlen(tok)
    return (plain_len + 4 + 15) // 16 * 16 + 16 + mac_dlen(tok)


def text_len(clen):
    return 1 + (clen * 4 + 2) // 3


def b64e(b):
    return base64.urlsafe_b64encode(b).rstrip(b'=')


def cpp_b64decode(s):
    """what a cookie text decodes to: characters outside the alphabet count as 'A' (value 0), len%4==1 is invalid"""
    if len(s) % 4 == 1:
        return None
    v = [D6.get(c, 0) for c in s]
    n = len(v) * 3 // 4
    v += [0] * (-len(v) % 4)
    out = bytearray()
    for i in range(0, len(v), 4):
        w = (v[i] << 18) | (v[i + 1] << 12) | (v[i + 2] << 6) | v[i + 3]
        out += bytes([(w >> 16) & 255, (w >> 8) & 255, w & 255])
    return bytes(out[:n])


def save_data(kvs):
    out = b''
    for k, v in kvs:
        out += struct.pack('<I', len(k) | (len(v) << 11)) + k + v
    return out


def le64(t):
    return struct.pack('<q', t)


# ------------------------------------------------------------------------------------------
# harness output parsing
# ------------------------------------------------------------------------------------------
def parse_impl(out):
    toks = out.split(' ')
    head, items, prims, extra = toks[0], [], [], []
    for t in toks[1:]:
        h = t[:2]
        if h in ('H=', 'B='):
            prims.append(t)
        elif h in ('S=', 'X='):
            items.append((t[0], t[2:], None))
        elif h == 'Q=':
            body = t[2:]
            if ':' in body:
                ck, v = body.split(':', 1)
                items.append(('Q', ck, v))
            else:
                items.append(('Q', None, body))
        elif h == 'L=':
            body = t[2:]
            if ':' in body:
                ck, v = body.split(':', 1)
                items.append(('L', ck, v))
            else:
                items.append(('L', None, body))
        else:
            extra.append(t)
    return head, items, prims, extra


def is_op(tok):
    return tok[:2] in ('S:', 'X:')


def is_pool(case):
    """pool lines (session_pool + session_interface with a cookie adapter) and http lines (the same requests through a real
    cppcms::service over SCGI) share format, model and oracle"""
    return case.startswith('pool ') or case.startswith('http ')


def is_ctl(tok):
    """tokens that produce no answer: clock changes, `new` (another encryptor object from the same factory), `obj:<k>`"""
    return tok.startswith('now=') or tok == 'new' or tok.startswith('obj:')


def is_cand(tok):
    return not is_op(tok) and not is_ctl(tok) and not tok.startswith('Q~')


def blocks16(b):
    return [b[i:i + 16] for i in range(0, len(b) - len(b) % 16, 16)]


def btable(prims):
    """raw block decryptions printed by the harness: (key, cipher block) -> D_key(block)"""
    t = {}
    for x in prims:
        if x.startswith('B='):
            k, pl, y = x[2:].split(',')
            t[(k, y)] = pl
    return t


def xor16(a, b):
    return bytes(x ^ y for x, y in zip(a, b))


def cbc_ops(ct):
    return ct[3:]


def cbc_items(out):
    toks = out.split(' ')
    return toks[0], [t for t in toks[1:] if t[:2] in ('I=', 'N=', 'E=', 'D=')], [t for t in toks[1:] if t[:2] == 'B=']


def cbc_nonces(case, out):
    """the two vectors each set_nonce_iv drew, as far as later calls reveal them:
    encryption side = D(first cipher block) xor first plain block of the next encrypt, decryption side = first output
    block xor D(first input block) of the next decrypt.  -> list of [ne or None, nd or None]"""
    ct = case.split(' ')
    head, items, prims = cbc_items(out)
    bt = btable(prims)
    res = []
    curN = None
    for tok, it in zip(cbc_ops(ct), items):
        if tok == 'N':
            curN = [None, None]
            res.append(curN)
        elif tok.startswith('I:'):
            if it == 'I=ok':
                curN = None
        elif curN is not None and it[2:] not in ('EXC', '-'):
            inp, outp = unhex(tok[2:]), unhex(it[2:])
            if tok[0] == 'E' and curN[0] is None and len(outp) >= 16:
                dd = bt.get((ct[2], hexs(outp[:16])))
                if dd:
                    curN[0] = xor16(unhex(dd), inp[:16])
            if tok[0] == 'D' and curN[1] is None and len(inp) >= 16:
                dd = bt.get((ct[2], hexs(inp[:16])))
                if dd:
                    curN[1] = xor16(unhex(dd), outp[:16])
    return res


def crashed(out):
    return (out.startswith('<crash') or out.startswith('<missing') or out.startswith('<notrun') or out.startswith('HARNESS-EXC')
            or out.startswith('BAD-CASE'))


def first_c0(items):
    for it in items:
        if it[0] in 'SX' and it[1] not in ('EXC', '-', ''):
            ci = cpp_b64decode(unhex(it[1])[1:])
            if ci is not None and len(ci) >= 16:
                return 'C0=' + hexs(ci[:16])
            return None
    return None


def pool_split(ct):
    """pool line -> (dict of settings, index of the first op token)"""
    a = {}
    i = 1
    while i < len(ct):
        t = ct[i]
        if '=' not in t:
            break
        k, v = t.split('=', 1)
        if k == 'now' and 'now' in a:
            break
        if k not in ('prim', 'now', 'enc', 'mac', 'cbc', 'key', 'hkey', 'ckey', 'keyfile', 'hkeyfile', 'ckeyfile', 'timeout', 'expire', 'kv'):
            break
        a[k] = v
        i += 1
    return a, i


def model_line(case, out):
    """the scenario as the model sees it: same operations, candidates as explicit cookie strings, the first cipher
    block of the first issued cookie (the IV is its decryption) and the primitive values printed by the harness"""
    ct = case.split(' ')
    if ct[0] in ('kat', 'katseq'):
        return case
    if ct[0] == 'cbc':
        head, items, prims = cbc_items(out)
        res = list(ct)
        for j, (ne, nd) in enumerate(cbc_nonces(case, out)):
            if ne is not None:
                res.append('NE%d=%s' % (j, hexs(ne)))
            if nd is not None:
                res.append('ND%d=%s' % (j, hexs(nd)))
        return ' '.join(res + prims)
    head, items, prims, extra = parse_impl(out)
    it = iter(items)
    if ct[0] == 'scn':
        res = ct[:4]
        start = 4
        # the nonce of every encryptor object of side A is read off the first cookie that object issued
        cur, nobj, have = 0, 1, set()
        it2 = iter(items)
        for tok in ct[start:]:
            if tok == 'new':
                cur, nobj = nobj, nobj + 1
            elif tok.startswith('obj:'):
                cur = int(tok[4:])
            elif tok.startswith('now='):
                pass
            else:
                item = next(it2, None)
                if item and is_op(tok) and cur not in have and item[1] not in ('EXC', '-', '', None):
                    ci = cpp_b64decode(unhex(item[1])[1:])
                    if ci is not None and len(ci) >= 16:
                        have.add(cur)
                        res.append('C0@%d=%s' % (cur, hexs(ci[:16])))
    else:
        a, start = pool_split(ct)
        res = ['pool'] + [t for t in ct[1:start] if not t.startswith('prim=')]
        if head == 'ok':
            s_item = next(it, None)   # the issued session cookie
        c0 = first_c0(items)
        if c0:
            res.append(c0)
    for tok in ct[start:]:
        if is_ctl(tok):
            res.append(tok)
        elif is_op(tok):
            next(it, None)
            res.append(tok)
        elif tok.startswith('Q~'):
            item = next(it, None)
            c0 = '-'
            if item and item[2] and item[2] != 'EXC':
                iss = item[2].split(',')[-1]
                if iss != '-':
                    ci = cpp_b64decode(unhex(iss)[1:])
                    if ci is not None and len(ci) >= 16:
                        c0 = hexs(ci[:16])
            res.append('Q=%s~%s~%s' % (item[1] if item and item[1] is not None else 'BADSPEC', tok.split('~')[2], c0))
        else:
            item = next(it, None)
            res.append('L=' + (item[1] if item and item[1] is not None else 'BADSPEC'))
    return ' '.join(res + prims)


def parse_kvdump(s):
    if s == '-':
        return []
    r = []
    for kv in s.split(';'):
        k, v = kv.split('=')
        r.append((unhex(k), unhex(v)))
    return r


def canon_impl(case, out):
    """implementation answer in the vocabulary of the model driver"""
    if crashed(out):
        return out
    if case.startswith('kat ') or case.startswith('katseq '):
        return out.split(' ')[0]
    if case.startswith('cbc '):
        head, items, prims = cbc_items(out)
        return ' '.join([head] + items)
    head, items, prims, extra = parse_impl(out)
    pool = is_pool(case)
    res = [head]
    for kind, ck, v in items:
        if kind in 'SX':
            res.append('%s=%s' % (kind, ck))
        elif kind == 'Q':
            if v and v not in ('EXC', 'BADSPEC'):
                l, kvd, clr, iss = v.split(',')
                v = '%s,%s,%s,%s' % (l, hexs(save_data(parse_kvdump(kvd))), clr, iss)
            res.append('Q=' + str(v))
        else:
            if pool and v and v.startswith('A,'):
                _, kvd, clr = v.split(',')
                v = 'A,%s,%s' % (hexs(save_data(parse_kvdump(kvd))), clr)
            res.append('L=' + str(v))
    return ' '.join(res)


# ------------------------------------------------------------------------------------------
# property oracle: evaluated on the implementation's answers only
# ------------------------------------------------------------------------------------------
def forged_expect(tok, now, cfgL):
    """expected verdict of a forged (correct MAC, arbitrary body) candidate where the structure decides it:
    True accept / False reject / None not determined by the token"""
    q = tok.split(':')
    if q[0] == 'fa':
        n, size, extra = int(q[1]), int(q[2]), int(q[3])
        if n < 2 or extra % 16 != 0:
            return False
        avail = 16 * (n + extra // 16 - 1) - 4
        if size > avail or size < 8:
            return False
        if len(q) == 6:
            return int(q[5]) >= now
        return None
    if q[0] == 'ft' and cfgL.startswith('hmac/'):
        body = unhex(q[1])
        if len(body) < 8:
            return False
        return struct.unpack('<q', body[:8])[0] >= now
    if q[0] == 'ft':
        body = unhex(q[1])
        if len(body) % 16 != 0 or len(body) < 32:
            return False
    return None


class IvDiscipline:
    """What an encrypting backend must do with its chaining vector so that it reveals neither the payload nor the
    equality of payloads, evaluated on the cookies alone.  The first cipher block of an aes cookie is E(IV) (the first
    plain block is zero), so IV = D(first block).  Per encryptor object: the IV of an issued cipher text must be fresh
    (the object's random nonce) or the last cipher block that SAME object produced; it must never be a block of a
    cookie that was presented to the object, nor any other block that already left or entered the server; and no two
    issued cipher texts under one key may start with the same block (equal IV: equal payloads give equal cookies,
    payloads with a common prefix give cookies with a common prefix)."""

    def __init__(self, ckhex, dl, bt):
        self.ck, self.dl, self.bt = ckhex, dl, bt
        self.last = {}          # object -> last cipher block it produced
        self.seen = {}          # object -> blocks of the cookies presented to it
        self.public = set()     # every block that was issued or presented so far
        self.first = set()      # first blocks of the issued cipher texts
        self.iv_of = []         # (object, IV) per issued cipher text
        self.issued_blocks = set()

    def presented(self, obj, cookie):
        ci = cpp_b64decode(cookie[1:]) if cookie[:1] == b'C' else None
        if ci:
            b = blocks16(ci)
            self.seen.setdefault(obj, set()).update(b)
            self.public.update(b)

    def issued(self, obj, ci):
        bad = []
        body = ci[:len(ci) - self.dl]
        c0 = body[:16]
        ivh = self.bt.get((self.ck, hexs(c0)))
        if len(body) < 32 or len(body) % 16:
            return [('aes-ciphertext-shape', 'issued aes cipher text is not whole blocks (at least two) followed by the tag')]
        if ivh is None:
            return [('bad-output', 'the harness reported no block decryption for the first block of an issued cookie')]
        iv = unhex(ivh)
        own = self.last.get(obj)
        if c0 in self.first:
            bad.append(('aes-first-block-repeated', 'two cipher texts issued under one key start with the same block (same IV %s): equal '
                        'payloads give equal cookies, a common prefix stays visible' % ivh))
        if iv != own:
            if iv in self.seen.get(obj, ()):
                bad.append(('aes-iv-from-presented-cookie', 'the IV %s of an issued cookie is a cipher block of a cookie the client presented '
                            'to this encryptor before (decrypt feeds the encryption chain): the client chooses the IV' % ivh))
            elif iv in self.public:
                bad.append(('aes-iv-predictable', 'the IV %s of an issued cookie is a cipher block that was already public and is not the '
                            'last block this encryptor produced' % ivh))
        rep = [b for b in blocks16(body) if b in self.issued_blocks]
        if rep and c0 not in self.first:
            bad.append(('aes-block-repeated', 'a cipher block (%s) occurs in two issued cipher texts under one key: equal chained inputs are visible' % hexs(rep[0])))
        self.issued_blocks.update(blocks16(body))
        self.iv_of.append((obj, iv))
        self.first.add(c0)
        self.last[obj] = body[-16:]
        self.public.update(blocks16(body))
        return bad


def oracle_scn(case, out):
    """-> list of (key, description, index of the offending token or None)"""
    ct = case.split(' ')
    cfgA, cfgB = ct[1], ct[2]
    cfgL = cfgA if cfgB == '=' else cfgB
    now = int(ct[3][4:])
    if crashed(out):
        return [('crash', 'the harness died / raised outside the code under test: ' + out[:300], None)]
    head, items, prims, extra = parse_impl(out)
    mA = material(cfgA)
    mB = mA if cfgB == '=' else material(cfgB)
    bad = []
    for tok in (cfgA, cfgL):
        p = tok.split('/')
        if p[0] == 'hmac' and len(unhex(p[2])) < 16 and head == 'ok':
            bad.append(('short-hmac-key-accepted', 'an hmac encryptor was built with a key shorter than 16 bytes', None))
    if head.startswith('cfgerr'):
        which = mA if head == 'cfgerrA' else mB
        if which is not None:
            bad.append(('valid-config-refused', 'a usable configuration was refused: ' + head, None))
        return bad
    if head != 'ok':
        return [('bad-output', 'unexpected harness answer ' + out[:200], None)]
    saves = {}      # cipher text -> (data, timeout)
    texts = {}      # cookie text -> (data, timeout)
    issued = set()
    aesA = mA is not None and mA[0] == 'aes'
    ivs = IvDiscipline(hexs(mA[1]), mac_dlen(cfgA), btable(prims)) if aesA else None
    cur, nobj = 0, 1
    it = iter(items)
    for ti in range(4, len(ct)):
        tok = ct[ti]
        if tok.startswith('now='):
            now = int(tok[4:])
            continue
        if tok == 'new':
            cur, nobj = nobj, nobj + 1
            continue
        if tok.startswith('obj:'):
            cur = int(tok[4:])
            continue
        item = next(it, None)
        if item is None:
            bad.append(('bad-output', 'fewer answers than operations', ti))
            break
        kind, ck, v = item
        if is_op(tok):
            if ck == 'EXC':
                if mA is not None:
                    bad.append(('save-throws', 'save/encrypt raised under a usable configuration', ti))
                continue
            cookie = unhex(ck)
            q = tok.split(':')
            if cookie[:1] != b'C' or any(c not in D6 for c in cookie[1:]):
                bad.append(('issued-cookie-not-urlsafe', 'issued cookie is not C + base64url text', ti))
                continue
            ci = cpp_b64decode(cookie[1:])
            if tok[0] == 'S':
                dt = (unhex(q[1]), int(q[2]))
            else:
                pl = unhex(q[1])
                dt = (pl[8:], struct.unpack('<q', pl[:8])[0]) if len(pl) >= 8 else None
            if mA and mA[0] == 'aes':
                if ci in issued:
                    bad.append(('aes-equal-ciphertexts', 'two encryptions under the encrypting backend gave the same cipher text', ti))
                plain = (le64(dt[1]) + dt[0]) if dt else unhex(q[1])
                if len(plain) >= 12 and plain[8:] in ci:
                    bad.append(('aes-plaintext-visible', 'the payload occurs verbatim in the cipher text', ti))
                for key, desc in ivs.issued(cur, ci):
                    bad.append((key, desc, ti))
                PLAIN_CHECKS.append((hexs(mA[1]), mac_dlen(cfgA), ci, plain, reduce_case(case, ti)))
            issued.add(ci)
            rk = raw_mac_key(cfgA)
            if rk:
                dl_ = DLEN[rk[0]]
                if len(ci) < dl_ or pyhmac.new(rk[1], ci[:-dl_], rk[0]).digest() != ci[-dl_:]:
                    bad.append(('issued-cookie-mac-wrong', 'the tag of an issued cookie is not the RFC 2104 HMAC of everything before it '
                                'under the configured MAC key', ti))
            if dt:
                saves[ci] = dt
                texts[cookie] = dt
            continue
        # a candidate load
        if v in ('BADSPEC', None) or ck is None:
            bad.append(('bad-output', 'candidate not understood by the harness: ' + tok, ti))
            continue
        cookie = unhex(ck)
        forged = tok.startswith('fa:') or tok.startswith('ft:')
        if ivs is not None and cfgB == '=':
            ivs.presented(cur, cookie)
        if v == 'EXC':
            if mB is not None:
                bad.append(('load-throws', 'load raised an exception on a client supplied cookie', ti))
            continue
        f = v.split(',')
        if f[0] == 'R':
            if cookie and f[1] != '1':
                bad.append(('reject-not-cleared', 'a rejected non-empty cookie was not cleared', ti))
            if not cookie and f[1] != '0':
                bad.append(('empty-cookie-cleared', 'clearing requested although no cookie was sent', ti))
            if not forged and mA is not None and mA == mB and cookie in texts and texts[cookie][1] >= now:
                bad.append(('valid-cookie-rejected', 'an issued, unexpired cookie was rejected under the same key material', ti))
            if forged and forged_expect(tok, now, cfgL) is True:
                bad.append(('valid-structure-rejected', 'correctly authenticated, well-formed, unexpired cipher text rejected', ti))
            continue
        if f[0] != 'A':
            bad.append(('bad-output', 'unexpected verdict ' + v[:80], ti))
            continue
        data, t, clr = unhex(f[1]), int(f[2]), f[3]
        if t < now:
            bad.append(('expired-accepted', 'accepted although the expiry %d is before now %d' % (t, now), ti))
        if clr != '0':
            bad.append(('accepted-but-cleared', 'cookie accepted and cleared at the same time', ti))
        if forged:
            fe = forged_expect(tok, now, cfgL)
            if fe is False:
                bad.append(('malformed-authenticated-accepted',
                            'cipher text with a correct MAC but an impossible structure / inner length / expiry was accepted', ti))
            if tok.startswith('fa:') and len(data) != int(tok.split(':')[2]) - 8:
                bad.append(('inner-length-ignored', 'returned data length differs from the authenticated length field', ti))
            continue
        if mA is None or mA != mB:
            # the signing and the encrypting encryptor authenticate with the same HMAC and no domain separation: when a
            # deployment reuses one MAC key for both, each accepts the (correctly authenticated) cipher texts of the other.
            # That is key reuse by the operator, not a forgery; everything else accepted across configurations is.
            if not (mA is not None and mB is not None and mA[0] != mB[0] and mA[-2:] == mB[-2:]):
                bad.append(('accepted-under-foreign-key', 'cookie made under different key material / algorithm accepted', ti))
            continue
        ci = cpp_b64decode(cookie[1:]) if cookie[:1] == b'C' else None
        if ci is None or ci not in issued:
            bad.append(('accepted-unissued-ciphertext', 'accepted cookie does not decode to a cipher text issued in this history', ti))
        elif saves.get(ci) != (data, t):
            bad.append(('accepted-wrong-data', 'accepted cookie returned data/expiry different from the save that issued it', ti))
        if (data, t) not in saves.values():
            bad.append(('accepted-unissued-data', 'returned (data, expiry) was never saved', ti))
    return bad


def pool_prim_token(a):
    """the encryptor a pool configuration selects (specification side), '-' if the configuration must be refused"""
    enc, mac, cbc = (unhex(a.get(k, '-')).decode('latin-1') for k in ('enc', 'mac', 'cbc'))

    def key(name):
        if name + 'file' in a:
            s = unhex(a[name + 'file'])
            if not s:
                return None                 # an empty key file is refused
            s = s.rstrip(b' \n\r\t')
        else:
            s = unhex(a.get(name, '-'))
        if len(s) % 2 or not re.fullmatch(rb'[0-9a-fA-F]*', s):
            return None
        return bytes.fromhex(s.decode())
    if not enc and not mac and not cbc:
        return '-'
    if enc and (mac or cbc):
        return '-'
    if cbc and not mac:
        return '-'
    if enc:
        k = key('key')
        if k is None:
            return '-'
        if enc == 'hmac':
            tok = 'hmac/sha1/' + hexs(k)
        elif enc.startswith('hmac-'):
            tok = 'hmac/%s/%s' % (enc[5:], hexs(k))
        elif enc.startswith('aes'):
            tok = 'aesk/%s/%s' % (enc, hexs(k))
        else:
            return '-'
    else:
        hk = key('hkey')
        if hk is None:
            return '-'
        if not cbc:
            tok = 'hmac/%s/%s' % (mac, hexs(hk))
        else:
            ckk = key('ckey')
            if ckk is None:
                return '-'
            tok = 'aes/%s/%s/%s/%s' % (cbc, hexs(ckk), mac, hexs(hk))
    return tok if material(tok) is not None else '-'


def oracle_pool(case, out):
    ct = case.split(' ')
    a, start = pool_split(ct)
    if crashed(out):
        return [('crash', 'the harness died / raised outside the code under test: ' + out[:300], None)]
    head, items, prims, extra = parse_impl(out)
    bad = []
    if head.startswith('httperr'):
        return []          # the test service could not be started / reached: nothing was evaluated (counted in the coverage)
    want = pool_prim_token(a)
    now0, timeout = int(a['now']), int(a['timeout'])
    kvs = [tuple(unhex(x) for x in kv.split(':')) for kv in a.get('kv', '').split(';') if ':' in kv]
    if head.startswith('cfgerr') or head.startswith('useerr'):
        if want != '-':
            bad.append(('valid-config-refused', 'a usable pool configuration was refused: ' + head, None))
        return bad
    if head != 'ok':
        return [('bad-output', 'unexpected harness answer ' + out[:200], None)]
    if unhex(a.get('cbc', '-')) and not unhex(a.get('mac', '-')):
        bad.append(('cipher-without-mac-accepted', 'session.client.cbc without session.client.hmac was accepted', None))
    elif want == '-':
        enc = unhex(a.get('enc', '-'))
        if enc.startswith(b'hmac') or (unhex(a.get('mac', '-')) and not unhex(a.get('cbc', '-'))):
            bad.append(('short-hmac-key-accepted', 'hmac encryptor configured with a short / malformed key works', None))
        else:
            bad.append(('invalid-config-accepted', 'a configuration that must be refused produced a working session pool', None))
        return bad
    it = iter(items)
    s_item = next(it, None)
    if s_item is None or s_item[0] != 'S':
        return [('bad-output', 'no issued cookie in ' + out[:200], None)]
    issued = unhex(s_item[1])
    if kvs:
        if issued[:1] != b'C' or any(c not in D6 for c in issued[1:]):
            bad.append(('issued-cookie-not-urlsafe', 'issued session cookie is not C + base64url text', None))
            return bad
    mat = material(want)
    aes = mat is not None and mat[0] == 'aes'
    ivs = IvDiscipline(hexs(mat[1]), 20 if want.startswith('aesk/') else mac_dlen(want), btable(prims)) if aes else None
    how = a.get('expire', 'fixed')
    saved = {}       # issued cipher text -> (cookie text, kv list in map order, expiry)
    nreq = 0         # every request runs on its own encryptor object

    def record(text, kvl, exp):
        ci = cpp_b64decode(text[1:])
        if aes:
            if ci in saved:
                bad.append(('aes-equal-ciphertexts', 'two requests were answered with the same session cookie', None))
            for key, desc in ivs.issued(nreq, ci):
                bad.append((key, desc, None))
            PLAIN_CHECKS.append((hexs(mat[1]), ivs.dl, ci, le64(exp) + save_data(kvl), case))
        elif mat is not None and mat[0] == 'hmac':
            dl_ = DLEN[mat[1]]
            if ci[:len(ci) - dl_] != le64(exp) + save_data(kvl):
                bad.append(('issued-cookie-plaintext-wrong', 'the signed session cookie does not carry the expiry and data of the request', None))
        saved[ci] = (text, kvl, exp)

    if kvs and issued:
        record(issued, sorted(dict(kvs).items()), now0 + timeout)
    now = now0
    for ti in range(start, len(ct)):
        tok = ct[ti]
        if tok.startswith('now='):
            now = int(tok[4:])
            continue
        item = next(it, None)
        if item is None:
            bad.append(('bad-output', 'fewer answers than operations', ti))
            break
        kind, ck, v = item
        if ck is None or v in (None, 'BADSPEC'):
            bad.append(('bad-output', 'candidate not understood by the harness: ' + tok, ti))
            continue
        cookie = unhex(ck)
        ctok = tok.split('~')[1] if kind == 'Q' else tok
        forged = ctok.startswith('fa:') or ctok.startswith('ft:')
        nreq += 1
        if ivs is not None:
            ivs.presented(nreq, cookie)
        if v == 'EXC':
            if not forged:
                bad.append(('load-throws', 'session load raised an exception on a client supplied cookie', ti))
            continue
        f = v.split(',')
        ci = cpp_b64decode(cookie[1:]) if cookie[:1] == b'C' else None
        if kind == 'Q':
            accepted, kvd, clr, iss = f[0] == '1', f[1], f[2], f[3]
        else:
            accepted, kvd, clr, iss = f[0] == 'A', (f[1] if f[0] == 'A' else '-'), (f[2] if f[0] == 'A' else f[1]), '-'
        if not accepted:
            if cookie and clr != '1':
                bad.append(('reject-not-cleared', 'a rejected non-empty cookie was not cleared', ti))
            if ci in saved and saved[ci][0] == cookie and now <= saved[ci][2]:
                bad.append(('valid-cookie-rejected', 'an issued, unexpired session cookie was rejected', ti))
        elif not forged:
            if ci is None or ci not in saved:
                bad.append(('accepted-unissued-ciphertext', 'accepted cookie does not decode to a cipher text this pool issued', ti))
            else:
                if now > saved[ci][2]:
                    bad.append(('expired-accepted', 'session accepted after its expiry', ti))
                if parse_kvdump(kvd) != saved[ci][1]:
                    bad.append(('accepted-wrong-data', 'session content differs from what was saved', ti))
        if kind != 'Q' or forged:
            continue
        # the rest of the request: values set, session saved on the SAME encryptor object that just decrypted
        sets = [tuple(unhex(x) for x in kv.split(':')) for kv in tok.split('~')[2].split(';') if ':' in kv]
        base = dict(saved[ci][1]) if accepted and ci in saved else {}
        data = dict(base)
        data.update(sets)
        if iss == '-':
            if data != base:
                bad.append(('session-change-not-saved', 'the request changed the session but no session cookie was issued', ti))
            continue
        text = unhex(iss)
        if text[:1] != b'C' or any(c not in D6 for c in text[1:]):
            bad.append(('issued-cookie-not-urlsafe', 'issued session cookie is not C + base64url text', ti))
            continue
        exp = saved[ci][2] if (accepted and ci in saved and how == 'fixed' and base) else now + timeout
        nb = len(bad)
        record(text, sorted(data.items()), exp)
        bad[nb:] = [(k, d, ti) for k, d, _ in bad[nb:]]
    return bad


_ECB = {}
ECB_STATE = {'available': None, 'blocks': 0}
# (cipher key hex, tag length, issued cipher text, plaintext that was saved, replay text): filled by the oracles, verified in
# one batch per key by run_differential with the independent AES (CBC decryption done here, block function by openssl)
PLAIN_CHECKS = []


def plain_of_aes_ciphertext(ci, dl, ref):
    """independent aes_cipher decryption: body = whole blocks, first plain block discarded, then uint32 length and the payload"""
    body = ci[:len(ci) - dl]
    bl = blocks16(body)
    if len(bl) < 2 or len(body) % 16:
        return None
    pt = b''.join(xor16(ref[bl[i]], bl[i - 1]) for i in range(1, len(bl)))
    n = struct.unpack('<I', pt[:4])[0]
    if n > len(pt) - 4:
        return None
    return pt[4:4 + n]


def aes_ecb_dec(keyhex, blocks):
    """independent AES (the openssl command line tool, ECB, no padding): {cipher block: D_key(block)}, None if not available"""
    import subprocess
    need = sorted(set(b for b in blocks if (keyhex, b) not in _ECB))
    if need and ECB_STATE['available'] is not False:
        try:
            p = subprocess.run(['openssl', 'enc', '-d', '-aes-%d-ecb' % (len(keyhex) * 4), '-nopad', '-K', keyhex],
                               input=b''.join(need), stdout=subprocess.PIPE, stderr=subprocess.PIPE, timeout=60)
            ok = p.returncode == 0 and len(p.stdout) == 16 * len(need)
        except Exception:
            ok = False
        if not ok:
            ECB_STATE['available'] = False
            return None
        ECB_STATE['available'] = True
        ECB_STATE['blocks'] += len(need)
        for i, b in enumerate(need):
            _ECB[(keyhex, b)] = p.stdout[16 * i:16 * i + 16]
    if ECB_STATE['available'] is False:
        return None
    return {b: _ECB[(keyhex, b)] for b in blocks}


def oracle_cbc(case, out):
    """cppcms::crypto::cbc as an object: NIST SP 800-38A CBC where encrypt chains ONLY through the vector set by set_iv /
    set_nonce_iv and the cipher blocks encrypt itself produced, decrypt ONLY through the vector set and the cipher blocks
    decrypt itself consumed; no use before a vector was set; a wrong IV size is refused and changes nothing."""
    ct = case.split(' ')
    if crashed(out):
        return [('crash', 'the harness died: ' + out[:300], None)]
    head, items, prims = cbc_items(out)
    name, keyhex = ct[1], ct[2]
    sz = CBC.get(name)
    if sz is None:
        return [] if head == 'nocbc' else [('cbc-unknown-name-accepted', 'cbc::create accepted the name ' + name, None)]
    if len(unhex(keyhex)) != sz:
        return [] if head == 'keyerr' else [('cbc-key-size-accepted', 'set_key accepted a key of the wrong size', None)]
    if head != 'ok':
        return [('valid-config-refused', 'a usable cbc name/key was refused: ' + head, None)]
    ops = ct[3:]
    if len(items) != len(ops):
        return [('bad-output', 'answers do not match operations', None)]
    blocks = []
    for tok, it in zip(ops, items):
        if tok[0] in 'ED' and it[2:] not in ('EXC', '-'):
            blocks += blocks16(unhex(it[2:]) if tok[0] == 'E' else unhex(tok[2:]))
    dec = aes_ecb_dec(keyhex, blocks)
    bt = btable(prims)
    if dec is None:
        dec = {b: unhex(bt[(keyhex, hexs(b))]) for b in blocks if (keyhex, hexs(b)) in bt}
    else:
        for b in blocks:
            if (keyhex, hexs(b)) in bt and unhex(bt[(keyhex, hexs(b))]) != dec[b]:
                return [('aes-primitive-wrong', 'a raw block decryption through cppcms::crypto::cbc (fresh object, zero IV) differs from AES', None)]
    bad = []
    UNSET, NONCE = 'unset', 'nonce'
    iv_e = iv_d = UNSET
    public = set()
    nonces = []
    for ti, (tok, it) in enumerate(zip(ops, items), 3):
        r = it[2:]
        if tok == 'N':
            iv_e = iv_d = NONCE
            continue
        if tok[0] == 'I':
            iv = unhex(tok[2:])
            if len(iv) == 16:
                if r != 'ok':
                    bad.append(('cbc-set-iv-refused', 'set_iv with 16 bytes raised', ti))
                else:
                    iv_e = iv_d = iv
            elif r != 'EXC':
                bad.append(('cbc-bad-iv-size-accepted', 'set_iv accepted %d bytes' % len(iv), ti))
            continue
        inp = unhex(tok[2:])
        cur = iv_e if tok[0] == 'E' else iv_d
        if cur == UNSET:
            if r != 'EXC':
                bad.append(('cbc-uninitialised-iv-used', 'encrypt/decrypt worked before any IV was set', ti))
            continue
        if r == 'EXC':
            bad.append(('cbc-throws', 'encrypt/decrypt raised on a keyed object with an IV', ti))
            continue
        outp = unhex(r)
        if len(outp) != len(inp):
            bad.append(('bad-output', 'output length differs', ti))
            continue
        ib, ob = blocks16(inp), blocks16(outp)
        for i in range(len(ib)):
            cblock = ob[i] if tok[0] == 'E' else ib[i]
            if cblock not in dec:
                bad.append(('bad-output', 'no raw block value available', ti))
                break
            x = dec[cblock]
            if tok[0] == 'E':
                prev_needed = xor16(x, ib[i])        # the vector this block was actually chained to
            else:
                prev_needed = xor16(x, ob[i])
            if cur == NONCE:
                # first use after set_nonce_iv: whatever the encryption vector is, it must be new
                if tok[0] == 'E':
                    if prev_needed in public or prev_needed in nonces:
                        bad.append(('cbc-nonce-not-fresh', 'after set_nonce_iv the encryption vector equals a block or nonce seen before', ti))
                    nonces.append(prev_needed)
            elif prev_needed != cur:
                if tok[0] == 'E':
                    bad.append(('cbc-encrypt-chain', 'encrypt did not start from its own vector (the IV that was set, or the last cipher block '
                                'encrypt itself produced): used %s, expected %s' % (hexs(prev_needed), hexs(cur)), ti))
                else:
                    bad.append(('cbc-decrypt-chain', 'decrypt did not start from its own vector (the IV that was set, or the last cipher block '
                                'decrypt itself consumed): used %s, expected %s' % (hexs(prev_needed), hexs(cur)), ti))
                break
            cur = cblock
        if tok[0] == 'E':
            iv_e = cur
        else:
            iv_d = cur
        public.update(ib)
        public.update(ob)
    return bad


def oracle_katseq(case, out):
    """one crypto::hmac / message_digest object, several messages in a row: every tag is the RFC 2104 HMAC / the hash of its own
    message only (readout leaves the object ready for the next message)"""
    ct = case.split(' ')
    if crashed(out):
        return [('crash', 'the harness died: ' + out[:300], None)]
    toks = out.split(' ')
    if toks[0] != 'ok':
        return [('valid-config-refused', 'hash %s not available: %s' % (ct[1], out[:80]), None)]
    tags = [t[2:] for t in toks[1:] if t.startswith('T=')]
    msgs = ct[3:]
    if len(tags) != len(msgs):
        return [('bad-output', 'answers do not match messages', None)]
    for i, (m, tag) in enumerate(zip(msgs, tags)):
        want = hashlib.new(ct[1], unhex(m)).digest() if ct[2] == 'md' else pyhmac.new(unhex(ct[2]), unhex(m), ct[1]).digest()
        if unhex(tag) != want:
            return [('hmac-object-state-leaks' if i else 'hmac-primitive-wrong',
                     'message %d on a reused %s object: tag differs from the %s of that message alone' %
                     (i, 'message_digest' if ct[2] == 'md' else 'crypto::hmac', 'hash' if ct[2] == 'md' else 'RFC 2104 HMAC'), None)]
    return []


def oracle_all(case, out):
    if case.startswith('katseq '):
        return oracle_katseq(case, out)
    if case.startswith('cbc '):
        return oracle_cbc(case, out)
    if case.startswith('scn '):
        return oracle_scn(case, out)
    if is_pool(case):
        return oracle_pool(case, out)
    if case.startswith('kat '):
        return oracle_kat(case, out)
    return [('bad-case', 'unknown case line', None)]


def oracle(case, out):
    """vlib-style single answer (first failure)"""
    r = oracle_all(case, out)
    return (r[0][0], r[0][1]) if r else None


def reduce_case(case, ti):
    """smallest scenario that still contains the offending candidate: all saves and clock changes, one candidate"""
    if ti is None or case.startswith('kat') or case.startswith('cbc '):
        return case
    ct = case.split(' ')
    if ct[0] == 'scn':
        start = 4
    else:
        start = pool_split(ct)[1]
    if ti >= start and not is_cand(ct[ti]) and ct[0] == 'scn':
        # a save that went wrong depends on everything the encryptor objects saw before it (loads included)
        return ' '.join(ct[:ti + 1])
    keep = ct[:start] + [t for i, t in enumerate(ct[start:], start) if i == ti or not is_cand(t)]
    return ' '.join(keep)


# ------------------------------------------------------------------------------------------
# generators
# ------------------------------------------------------------------------------------------
def rb(rng, n):
    return bytes(rng.getrandbits(8) for _ in range(n))


def rkey(rng, n):
    return hexs(rb(rng, n))


def flip_key(khex, rng):
    k = bytearray(unhex(khex))
    i = rng.choice([0, len(k) - 1, rng.randrange(len(k))])
    k[i] ^= 1 << rng.randrange(8)
    return hexs(bytes(k))


def configs(ctx):
    """a spread of usable configurations: (token, family)"""
    rng = ctx.rng
    out = []
    for alg in ALGS:
        for kl in ([16, 64, 65] if ctx.quick() else [16, 17, 20, 32, 63, 64, 65, 127, 128, 129, 200]):
            if ctx.quick() and kl != 16 and rng.random() < 0.5:
                continue
            out.append('hmac/%s/%s' % (alg, rkey(rng, kl)))
    names = [('aes', 16), ('aes128', 16), ('aes-128', 16), ('aes192', 24), ('aes-192', 24), ('aes256', 32), ('aes-256', 32),
             ('AES128', 16), ('AES-256', 32), ('AES', 16), ('AES192', 24)]
    for nm, sz in names:
        macs = ALGS if not ctx.quick() else [rng.choice(ALGS)]
        for m in macs:
            out.append('aes/%s/%s/%s/%s' % (nm, rkey(rng, sz), m, rkey(rng, rng.choice([1, 16, 20, 32, 64, 65, 130]))))
    for nm, sz in [('aes', 16), ('aes128', 16), ('aes192', 24), ('aes-256', 32), ('aes256', 32), ('aes-192', 24)]:
        for kl in ([sz + 20, sz, 32, 33] if ctx.quick() else [sz + 20, sz, sz + 1, sz + 19, sz + 21, 32, 33, 64, 100]):
            if kl >= sz:
                out.append('aesk/%s/%s' % (nm, rkey(rng, kl)))
    return out


def fam_bflips(i, clen, rng=None, n=None):
    pos = [(p, b) for p in range(clen) for b in range(8)]
    if n is not None and len(pos) > n:
        pos = rng.sample(pos, n)
    return ['bflip:%d:%d:%d' % (i, p, b) for p, b in pos]


def fam_cflips(i, tlen, rng=None, n=None):
    pos = [(p, b) for p in range(tlen) for b in range(8)]
    if n is not None and len(pos) > n:
        pos = rng.sample(pos, n)
    return ['cflip:%d:%d:%d' % (i, p, b) for p, b in pos]


def fam_trunc(i, clen, tlen, rng=None, n=None):
    a = ['b:%d,0,%d' % (i, k) for k in range(clen)] + ['c:%d,0,%d' % (i, k) for k in range(tlen)]
    a += ['b:%d,%d,$' % (i, k) for k in range(1, min(clen, 40))] + ['c:%d,%d,$' % (i, k) for k in range(1, min(tlen, 8))]
    if n is not None and len(a) > n:
        a = rng.sample(a, n)
    return a


def fam_ext(i, rng, clen):
    a = []
    for k in range(1, 18):
        a.append('b:%d,0,$+h%s' % (i, '00' * k))
        a.append('b:%d,0,$+h%s' % (i, rkey(rng, k)))
        a.append('b:%d,0,$+%d,%d,$' % (i, i, max(0, clen - k)))       # own tail repeated
        a.append('b:h%s+%d,0,$' % (rkey(rng, k), i))                   # prefix
    for k in (16, 32, 48, 20, 36):
        a.append('b:%d,0,$+h%s' % (i, 'ff' * k))
    for ch in [b'A', b'AA', b'AAA', b'AAAA', b'=', b'==', b'.', b' ', b'\x00', b'\xff', b'%3D', b'A=', b'AAAAA']:
        a.append('c:%d,0,$+h%s' % (i, hexs(ch)))
    a.append('c:h43+%d,0,$' % i)      # doubled C
    a.append('c:%d,1,$' % i)          # tag letter dropped
    a.append('c:h63+%d,1,$' % i)      # lower-case c
    a.append('c:h44+%d,1,$' % i)
    return a


def fam_blocks(i, clen, dl):
    """block-level edits of an aes body keeping the original tag"""
    nb = (clen - dl) // 16
    a = []
    tag = '%d,%d,$' % (i, nb * 16)
    for x in range(nb):
        for y in range(nb):
            if x < y:
                order = list(range(nb))
                order[x], order[y] = order[y], order[x]
                a.append('b:' + '+'.join('%d,%d,%d' % (i, 16 * k, 16 * k + 16) for k in order) + '+' + tag)
    for x in range(nb):
        order = [k for k in range(nb) if k != x]
        a.append('b:' + '+'.join(['%d,%d,%d' % (i, 16 * k, 16 * k + 16) for k in order] + [tag]))        # drop a block
        order = list(range(nb))
        order.insert(x, x)
        a.append('b:' + '+'.join(['%d,%d,%d' % (i, 16 * k, 16 * k + 16) for k in order] + [tag]))        # duplicate a block
    a.append('b:%s+%d,0,%d' % (tag, i, nb * 16))                                                            # tag first
    return a


def fam_tag(i, clen, dl, rng, mode):
    """changes of the TAG in two or more places (body untouched): the comparison of the tag must be an equality test of ALL its
    bytes -- accumulators that can cancel (xor of words, sums mod 2^k), that look at one direction only, or that skip a lane are
    visible only for such candidates.  mode: 'sample' | 'samebit' (all same-bit pairs) | 'all' (every pair of single-bit flips)"""
    t0 = clen - dl
    a = []
    # the same bit flipped in two tag bytes: all pairs at offsets equal mod 4 (hence also mod 8 / 2 / 1 lanes), or all pairs
    lanes = [(p, q) for p in range(dl) for q in range(p + 1, dl) if (q - p) % 4 == 0]
    anyp = [(p, q) for p in range(dl) for q in range(p + 1, dl) if (q - p) % 4 != 0]
    same = ['bflip2:%d:%d:%d:%d:%d' % (i, t0 + p, b, t0 + q, b) for p, q in lanes for b in range(8)]
    same_any = ['bflip2:%d:%d:%d:%d:%d' % (i, t0 + p, b, t0 + q, b) for p, q in anyp for b in range(8)]
    if mode == 'all':
        bits = [(p, b) for p in range(dl) for b in range(8)]
        a += ['bflip2:%d:%d:%d:%d:%d' % (i, t0 + p1, b1, t0 + p2, b2) for x, (p1, b1) in enumerate(bits) for (p2, b2) in bits[x + 1:]]
    elif mode == 'samebit':
        a += same + same_any
    else:
        a += same if len(same) <= 330 else rng.sample(same, 330)
        a += rng.sample(same_any, min(len(same_any), 120))
        for _ in range(60):
            p1, p2 = rng.sample(range(dl), 2)
            a.append('bflip2:%d:%d:%d:%d:%d' % (i, t0 + p1, rng.randrange(8), t0 + p2, rng.randrange(8)))
        a.append('bflip2:%d:%d:%d:%d:%d' % (i, t0, 0, t0, 7))                   # two bits of one byte
    # the same difference in two lanes: patterns whose word / half-word / byte XOR (and whose byte sum mod 256) is zero
    for w in (2, 4, 8):
        for _ in range(4):
            pat = rb(rng, w)
            for off in sorted(set([0, dl - 2 * w, rng.randrange(0, dl - 2 * w + 1) // w * w])):
                if off >= 0:
                    a.append('bxor:%d:%d:%s' % (i, t0 + off, hexs(pat + pat)))
            if dl >= 3 * w:
                a.append('bxor:%d:%d:%s' % (i, t0, hexs(pat + bytes(w) + pat)))
    for x in (1, 0x80, 0xff, 0x55):
        a.append('bxor:%d:%d:%s' % (i, t0, hexs(bytes([x]) * dl)))                # every byte changed alike (dl is even)
        a.append('bxor:%d:%d:%s' % (i, t0, hexs(bytes([x, x]))))
        a.append('bxor:%d:%d:%s' % (i, t0 + dl - 5, hexs(bytes([x, 0, 0, 0, x]))))
        a.append('bxor:%d:%d:%s' % (i, t0, hexs(bytes([x]) * 4 + bytes([(256 - x) & 255]) * 4)))
    a.append('bxor:%d:%d:%s' % (i, t0, hexs(bytes([1] + [0] * (dl - 2) + [1]))))
    # tag bytes / words / halves exchanged or rotated (a multiset-preserving change of the tag)
    seg = lambda x, y: '%d,%d,%d' % (i, t0 + x, t0 + y)
    body = '%d,0,%d' % (i, t0)
    for w in (1, 2, 4, 8):
        nw = dl // w
        pairs = [(x, y) for x in range(nw) for y in range(x + 1, nw)]
        for x, y in (pairs if len(pairs) <= 12 or mode != 'sample' else rng.sample(pairs, 12)):
            order = list(range(nw))
            order[x], order[y] = order[y], order[x]
            a.append('b:' + '+'.join([body] + [seg(k * w, k * w + w) for k in order] + ([seg(nw * w, dl)] if nw * w < dl else [])))
        a.append('b:' + '+'.join([body] + [seg(k * w, k * w + w) for k in list(range(1, nw)) + [0]] + ([seg(nw * w, dl)] if nw * w < dl else [])))
        a.append('b:' + '+'.join([body] + [seg(k * w, k * w + w) for k in reversed(range(nw))] + ([seg(nw * w, dl)] if nw * w < dl else [])))
    a.append('b:' + '+'.join([body, seg(dl // 2, dl), seg(0, dl // 2)]))
    return a


def fam_splice(i, j, cli, clj, dl, rng, aligned):
    a = []
    cuts_i = range(0, cli + 1, 16) if aligned else sorted(set([0, 1, 7, 8, 9, cli - dl - 1, cli - dl, cli - dl + 1, cli - 1, cli] +
                                                              [rng.randrange(cli + 1) for _ in range(6)]))
    cuts_j = range(0, clj + 1, 16) if aligned else sorted(set([0, 1, 8, clj - dl - 1, clj - dl, clj - dl + 1, clj] +
                                                              [rng.randrange(clj + 1) for _ in range(6)]))
    for x in cuts_i:
        for y in cuts_j:
            if 0 <= x <= cli and 0 <= y <= clj:
                a.append('b:%d,0,%d+%d,%d,$' % (i, x, j, y))
    # body of one, tag of the other (both ways)
    a.append('b:%d,0,%d+%d,%d,$' % (i, cli - dl, j, clj - dl))
    a.append('b:%d,0,%d+%d,%d,$' % (j, clj - dl, i, cli - dl))
    return a


def fam_raw(rng, dl, aes):
    a = ['raw:-', 'raw:43', 'raw:63', 'raw:44', 'raw:4341', 'raw:434141', 'raw:43414141', 'raw:4341414141', 'raw:2043', 'raw:00']
    lens = sorted(set([0, 1, 2, 3, dl - 1, dl, dl + 1, dl + 7, dl + 8, dl + 9, dl + 15, dl + 16, dl + 17, dl + 31, dl + 32, dl + 33,
                       dl + 47, dl + 48, dl + 49, 64, 100]))
    for n in lens:
        if n < 0:
            continue
        for fill in (None, 0, 255):
            body = rb(rng, n) if fill is None else bytes([fill]) * n
            a.append('raw:' + hexs(b'C' + b64e(body)))
    for n in (5, 9, 13, 41, 45):   # invalid base64 lengths
        a.append('raw:' + hexs(b'C' + bytes(rng.choice(ALPHA) for _ in range(n))))
    for _ in range(12):
        n = rng.randrange(1, 90)
        a.append('raw:' + hexs(bytes(rng.choice(ALPHA + b'C=+/.%\x00\xff ') for _ in range(n))))
        a.append('raw:' + hexs(b'C' + bytes(rng.choice(ALPHA + b'=+/') for _ in range(n))))
    return a


def fam_forged(rng, cfg, now):
    """correct MAC, arbitrary body (needs the key: not an attacker capability; drives the post-MAC checks)"""
    a = []
    if cfg.startswith('hmac/'):
        for n in (0, 1, 7, 8, 9, 16):
            for t in (now - 1, now, now + 1):
                body = (le64(t) + rb(rng, 16))[:n] if n < 8 else le64(t) + rb(rng, n - 8)
                a.append('ft:' + hexs(body))
        return a
    if not cfg.startswith('aes/'):
        return a
    seed = rkey(rng, 4)
    for nb in (0, 1, 2, 3, 4, 6):
        avail = 16 * (nb - 1) - 4
        for size in sorted(set([0, 7, 8, 9, max(avail - 1, 0), max(avail, 0), avail + 1, avail + 2, avail + 16, 2 ** 31, 2 ** 32 - 1,
                                2 ** 31 - 1, 65536])):
            for t in (now - 1, now, now + 5):
                a.append('fa:%d:%d:0:%s:%d' % (nb, size, seed, t))
        for extra in (1, 4, 15, 17):
            a.append('fa:%d:%d:%d:%s:%d' % (nb, 8, extra, seed, now + 5))
        a.append('fa:%d:%d:16:%s:%d' % (nb, 8, seed, now + 5))
    for n in (0, 15, 16, 31, 32, 33, 48):
        a.append('ft:' + hexs(rb(rng, n)))
    return a


PAYLOAD_EDGES = [0, 1, 3, 4, 5, 7, 8, 11, 12, 15, 16, 17, 19, 20, 21, 31, 32, 33, 36, 63, 64, 65]


def times_for(now, rng):
    return [now, now + 1, now + 3600, now - 1, now - 3600, 0, -1, 2 ** 31 - 1, 2 ** 31, 2 ** 32, I64MAX, I64MIN, now + 2 ** 32,
            now - 2 ** 32, rng.randrange(I64MIN, I64MAX)]


def chunked(ops, n):
    for i in range(0, len(ops), n):
        yield ops[i:i + n]


def gen_scn(ctx):
    rng = ctx.rng
    cases = []
    cfgs = configs(ctx)
    per = ctx.scale(250, 600)

    def emit(cfgA, cfgB, now, saves, cands):
        for part in chunked(cands, per):
            cases.append('scn %s %s now=%d %s %s' % (cfgA, cfgB, now, ' '.join(saves), ' '.join(part)))

    # 1. every single-bit flip / truncation / extension of a small valid cookie, per configuration
    tag_all_done = set()
    for ci_, cfg in enumerate(cfgs):
        now = rng.choice([0, 1, 1000000000, 2 ** 31, 2 ** 32 + 5, 1700000000])
        plen = rng.choice([0, 1, 3, 4, 5, 12]) if ctx.quick() else rng.choice(PAYLOAD_EDGES)
        data = rb(rng, plen)
        t = now + rng.choice([0, 1, 100, 2 ** 31])
        save = 'S:%s:%d' % (hexs(data), t)
        clen = cipher_len(cfg, plen + 8)
        tlen = text_len(clen)
        dl = mac_dlen(cfg)
        full = (not ctx.quick()) or ci_ % 3 == 0
        cands = ['c:0,0,$']
        cands += fam_bflips(0, clen, rng, None if full else 96)
        cands += fam_cflips(0, tlen, rng, None if full else 96)
        cands += fam_trunc(0, clen, tlen, rng, None if full else 60)
        cands += fam_ext(0, rng, clen)
        if not cfg.startswith('hmac/'):
            cands += fam_blocks(0, clen, dl)
        # the tag changed in two or more places: every pair of single-bit flips for the 16-byte tags of the first hmac and the
        # first aes configuration (in thorough: for a quarter of the configurations with tags of at most 20 bytes), all same-bit pairs in thorough
        fam = cfg.split('/')[0]
        if dl == 16 and fam not in tag_all_done and fam != 'aesk':
            tag_all_done.add(fam)
            tmode = 'all'
        elif not ctx.quick():
            tmode = 'all' if dl <= 20 and ci_ % 4 == 0 else 'samebit'
        else:
            tmode = 'sample'
        cands += fam_tag(0, clen, dl, rng, tmode)
        cands += fam_raw(rng, dl, not cfg.startswith('hmac/'))
        cands += fam_forged(rng, cfg, now)
        emit(cfg, '=', now, [save], cands)
        # the same cookie presented to a fresh encryptor object built from the same configuration
        emit(cfg, cfg, now, [save], ['c:0,0,$', 'bflip:0:%d:%d' % (rng.randrange(clen), rng.randrange(8)), 'b:0,0,-1'])

    # 2. round trips over payload sizes and expiry times (several saves per encryptor: IV chaining)
    for cfg in cfgs:
        now = rng.choice([0, 5, 1000000000, 2 ** 31 - 1, 2 ** 33])
        ops = []
        k = 0
        sizes = rng.sample(PAYLOAD_EDGES, 6) if ctx.quick() else PAYLOAD_EDGES
        for plen in sizes:
            t = rng.choice(times_for(now, rng))
            ops.append('S:%s:%d' % (hexs(rb(rng, plen)), t))
            ops.append('c:%d,0,$' % k)
            k += 1
        # same payload twice (an encrypting backend must not repeat itself), loads at later clocks
        d = hexs(rb(rng, 24))
        ops += ['S:%s:%d' % (d, now + 10), 'S:%s:%d' % (d, now + 10), 'c:%d,0,$' % k, 'c:%d,0,$' % (k + 1),
                'now=%d' % (now + 10), 'c:%d,0,$' % k, 'now=%d' % (now + 11), 'c:%d,0,$' % k, 'c:%d,0,$' % (k + 1),
                'now=%d' % now]
        k += 2
        for pl in (0, 1, 7, 8, 9):
            ops += ['X:%s' % hexs(rb(rng, pl)), 'c:%d,0,$' % k]
            k += 1
        cases.append('scn %s = now=%d %s' % (cfg, now, ' '.join(ops)))

    # 3. splices of two valid cookies
    for cfg in (rng.sample(cfgs, 8) if ctx.quick() else cfgs):
        now = 1000000000
        p0, p1 = rng.choice([0, 4, 5, 20]), rng.choice([4, 5, 20, 21, 37])
        saves = ['S:%s:%d' % (hexs(rb(rng, p0)), now + 5), 'S:%s:%d' % (hexs(rb(rng, p1)), now + 7)]
        c0, c1 = cipher_len(cfg, p0 + 8), cipher_len(cfg, p1 + 8)
        dl = mac_dlen(cfg)
        aes = not cfg.startswith('hmac/')
        cands = fam_splice(0, 1, c0, c1, dl, rng, aes) + fam_splice(1, 0, c1, c0, dl, rng, aes)
        if aes:
            cands += fam_splice(0, 1, c0, c1, dl, rng, False)
        # body of one cookie with the tag of the other, its 4-byte words rotated / reversed / pairwise exchanged
        for (bi, bl_), (tj, tl_) in (((0, c0), (1, c1)), ((1, c1), (0, c0))):
            words = ['%d,%d,%d' % (tj, tl_ - dl + 4 * k, tl_ - dl + 4 * k + 4) for k in range(dl // 4)]
            for order in (words[1:] + words[:1], list(reversed(words)), [words[k ^ 1] if (k ^ 1) < len(words) else words[k] for k in range(len(words))]):
                cands.append('b:%d,0,%d+%s' % (bi, bl_ - dl, '+'.join(order)))
        emit(cfg, '=', now, saves, cands)

    # 4. cross-key / cross-algorithm transplants
    for cfg in (rng.sample(cfgs, 14) if ctx.quick() else cfgs + cfgs):
        now = 1000000000
        p = cfg.split('/')
        others = []
        if p[0] == 'hmac':
            others.append('hmac/%s/%s' % (p[1], flip_key(p[2], rng)))
            others.append('hmac/%s/%s' % (p[1], p[2] + '00'))                 # same HMAC key after zero padding
            others.append('hmac/%s/%s' % (p[1], p[2][:-2]) if len(p[2]) > 34 else 'hmac/%s/%s' % (p[1], p[2] + '01'))
            others.append('hmac/%s/%s' % (rng.choice([a for a in ALGS if a != p[1]]), p[2]))
            others.append('hmac/%s/%s' % (p[1].upper(), p[2]))                 # same algorithm, other spelling
            others.append('aes/aes/%s/%s/%s' % (p[2][:32], p[1], p[2]))
        elif p[0] == 'aes':
            others.append('aes/%s/%s/%s/%s' % (p[1], flip_key(p[2], rng), p[3], p[4]))
            others.append('aes/%s/%s/%s/%s' % (p[1], p[2], p[3], flip_key(p[4], rng)))
            others.append('aes/%s/%s/%s/%s' % (p[1], p[2], rng.choice([a for a in ALGS if a != p[3]]), p[4]))
            others.append('aes/%s/%s/%s/%s' % (p[1], p[2], p[3], p[4] + '00'))
            others.append('hmac/%s/%s' % (p[3], p[4] if len(p[4]) >= 32 else p[4] + '00' * 16))
            if len(p[4]) == 40 and p[3] == 'sha1':
                others.append('aesk/%s/%s' % (p[1].lower().replace('-', ''), p[2] + p[4]))
        else:
            others.append('aesk/%s/%s' % (p[1], flip_key(p[2], rng)))
            others.append('aesk/%s/%s' % (p[1], p[2] + '00'))
            m = material(cfg)
            if m:
                # the same key material spelled as separate keys
                others.append('aes/%s/%s/sha1/%s' % (p[1], hexs(m[1]), hexs(m[3].rstrip(b'\0').ljust(20, b'\0'))))
        plen = rng.choice([0, 5, 12, 20])
        saves = ['S:%s:%d' % (hexs(rb(rng, plen)), now + 50)]
        clen = cipher_len(cfg, plen + 8)
        for o in others:
            cands = ['c:0,0,$', 'b:0,0,$', 'bflip:0:%d:0' % rng.randrange(clen), 'b:0,0,-1', 'b:0,0,$+h00']
            cases.append('scn %s %s now=%d %s %s' % (cfg, o, now, ' '.join(saves), ' '.join(cands)))

    # 5. configurations that must be refused or that cannot be used
    K16 = rkey(rng, 16)
    for bad in ['hmac/sha1/' + rkey(rng, 15), 'hmac/md5/' + rkey(rng, 1), 'hmac/sha256/-', 'hmac/sha1/' + rkey(rng, 8),
                'hmac/sha3/' + K16, 'hmac/SHA1/' + K16, 'hmac/Sha256/' + K16, 'hmac/sha-1/' + K16,
                'aes/aes/%s/sha1/%s' % (rkey(rng, 15), K16), 'aes/aes192/%s/sha1/%s' % (K16, K16), 'aes/aes256/%s/md5/%s' % (rkey(rng, 24), K16),
                'aes/aes512/%s/sha1/%s' % (K16, K16), 'aes/des/%s/sha1/%s' % (K16, K16), 'aes/aes/%s/sha3/%s' % (K16, K16),
                'aes/aes/%s/sha1/-' % K16, 'aes/aes/%s/SHA512/%s' % (K16, K16),
                'aesk/aes/' + rkey(rng, 15), 'aesk/aes256/' + rkey(rng, 31), 'aesk/aes192/' + rkey(rng, 23), 'aesk/aes1/' + rkey(rng, 36),
                'aesk/aes/-', 'aesk/aes/' + rkey(rng, 16), 'aesk/aes/' + rkey(rng, 36), 'aesk/aes/' + rkey(rng, 35), 'aesk/aes/' + rkey(rng, 37)]:
        ops = ['S:%s:%d' % (hexs(rb(rng, 5)), 2000), 'c:0,0,$', 'raw:-', 'raw:43', 'raw:44', 'raw:4341414141', 'raw:' + hexs(b'C' + b64e(rb(rng, 60)))]
        # an encryptor that raised once is left half initialised (aes_cipher::load keeps the cbc object without a key):
        # only the first use of an unusable configuration is compared, one operation per scenario
        for op in ops[:1] + ops[2:]:
            cases.append('scn %s = now=1000 %s' % (bad, op))
        for op in ops[1:]:
            cases.append('scn hmac/sha1/%s %s now=1000 %s %s' % (K16, bad, ops[0], op))

    # 6. large payloads (sampled mutations)
    big = [1000, 4096, 65536] if ctx.quick() else [1000, 4096, 16383, 65535, 65536, 65537, 100000]
    simple = [c for c in cfgs if not c.startswith('aesk/')]
    for plen in big:
        for cfg in ([rng.choice([c for c in simple if c.startswith('hmac/')]), rng.choice([c for c in simple if c.startswith('aes/')])]
                    if ctx.quick() else rng.sample(cfgs, 6)):
            now = 1000000000
            clen = cipher_len(cfg, plen + 8)
            tlen = text_len(clen)
            cands = ['c:0,0,$'] + fam_bflips(0, clen, rng, 3) + fam_cflips(0, tlen, rng, 2) + fam_trunc(0, clen, tlen, rng, 2)
            cands += ['b:0,0,$+h00', 'b:0,0,-16', 'b:0,16,$']
            cases.append('scn %s = now=%d S:%s:%d %s' % (cfg, now, hexs(rb(rng, plen)), now + 1, ' '.join(cands)))
    rng.shuffle(cases)      # spreads the expensive lines over the parallel workers
    return cases


def hx(s):
    return hexs(s.encode('latin-1') if isinstance(s, str) else s)


def gen_pool(ctx):
    rng = ctx.rng
    cases = []

    def line(now, opts, timeout, kvs, ops, expire='fixed'):
        a = dict(now=str(now), timeout=str(timeout), expire=expire)
        for k, v in opts.items():
            a[k] = hx(v)
        a['kv'] = ';'.join('%s:%s' % (hexs(k), hexs(v)) for k, v in kvs)
        a['prim'] = pool_prim_token(a)
        order = ['prim', 'now', 'enc', 'mac', 'cbc', 'key', 'hkey', 'ckey', 'keyfile', 'hkeyfile', 'ckeyfile', 'timeout', 'expire', 'kv']
        return 'pool ' + ' '.join('%s=%s' % (k, a[k]) for k in order if k in a) + ' ' + ' '.join(ops)

    def kvset():
        n = rng.choice([1, 1, 2, 3])
        ks = sorted(set(bytes(rng.choice(b'abcdefgh_xyz') for _ in range(rng.randrange(1, 6))) for _ in range(n)))
        ks = [k for k in ks if not k.startswith(b'_')] or [b'k']
        return [(k, rb(rng, rng.choice([0, 1, 5, 17]))) for k in ks]

    def hk(n):
        return rb(rng, n).hex()

    good = []
    for alg in ALGS:
        good.append(dict(enc='hmac-' + alg, key=hk(rng.choice([16, 20, 64, 70]))))
        good.append(dict(mac=alg, hkey=hk(rng.choice([16, 32, 100]))))
        good.append(dict(mac=alg, cbc=rng.choice(['aes', 'aes128', 'aes-128']), hkey=hk(rng.choice([16, 20, 64])), ckey=hk(16)))
    good += [dict(enc='hmac', key=hk(16)), dict(enc='hmac', key=hk(20).upper()), dict(enc='hmac-SHA256', key=hk(32)),
             dict(enc='aes', key=hk(36)), dict(enc='aes', key=hk(16)), dict(enc='aes', key=hk(32)), dict(enc='aes', key=hk(40)),
             dict(enc='aes128', key=hk(36)), dict(enc='aes-128', key=hk(17)), dict(enc='aes192', key=hk(44)), dict(enc='aes192', key=hk(24)),
             dict(enc='aes-192', key=hk(33)), dict(enc='aes256', key=hk(52)), dict(enc='aes-256', key=hk(32)), dict(enc='aes256', key=hk(64)),
             dict(mac='sha1', cbc='aes192', hkey=hk(20), ckey=hk(24)), dict(mac='sha512', cbc='aes256', hkey=hk(64), ckey=hk(32)),
             dict(mac='md5', cbc='AES-256', hkey=hk(5), ckey=hk(32)), dict(mac='SHA1', cbc='AES', hkey=hk(20), ckey=hk(16))]
    # keys read from files: trailing blanks and line ends are dropped, everything else must be hex
    good += [dict(enc='hmac', keyfile=hk(20) + '\n'), dict(enc='hmac-sha256', keyfile=hk(32) + ' \t\r\n\n'),
             dict(enc='aes', keyfile=hk(36).upper() + '\r\n'), dict(mac='sha1', hkeyfile=hk(16)),
             dict(mac='sha256', cbc='aes', hkeyfile=hk(32) + '\n', ckeyfile=hk(16) + '\n'),
             dict(mac='sha1', cbc='aes256', hkey=hk(20), ckeyfile=hk(32) + '  '),
             dict(enc='hmac', key='zz', keyfile=hk(16) + '\n')]        # the file wins over the inline key
    for opts in good:
        now = rng.choice([1000, 1000000000, 2 ** 31 + 7])
        timeout = rng.choice([1, 10, 3600, 86400])
        kvs = kvset()
        prim = pool_prim_token({k: hx(v) for k, v in opts.items()})
        plen = len(save_data(kvs))
        clen = cipher_len(prim, plen + 8) if prim != '-' else 40
        tlen = text_len(clen)
        ops = ['c:0,0,$', 'now=%d' % (now + timeout), 'c:0,0,$', 'now=%d' % (now + timeout + 1), 'c:0,0,$', 'now=%d' % now]
        ops += fam_bflips(0, clen, rng, ctx.scale(24, 200)) + fam_cflips(0, tlen, rng, ctx.scale(16, 100))
        ops += fam_trunc(0, clen, tlen, rng, ctx.scale(16, 100))
        ops += ['b:0,0,$+h00', 'c:0,0,$+h41', 'c:0,0,$+h3d', 'c:0,1,$', 'raw:-', 'raw:43', 'raw:4341414141']
        ops += ['raw:' + hexs(b'C' + b64e(rb(rng, n))) for n in (19, 20, 36, 52, 68, 84)]
        cases.append(line(now, opts, timeout, kvs, ops, rng.choice(['fixed', 'renew', 'browser'])))
    # whole requests: every request gets its own encryptor object from the pool's factory and does load (decrypt) then
    # save (encrypt) on it.  The same cookie presented and the same values set, several times: the answers must differ
    reqcfgs = [g for g in good if pool_prim_token({k: hx(v) for k, v in g.items()}).split('/')[0] in ('aes', 'aesk')]
    reqcfgs = reqcfgs if not ctx.quick() else rng.sample(reqcfgs, min(len(reqcfgs), 12))
    reqcfgs += rng.sample([g for g in good if g not in reqcfgs], 3)
    for opts in reqcfgs:
        for expire in (['fixed', 'renew'] if not ctx.quick() else [rng.choice(['fixed', 'renew', 'browser'])]):
            now = rng.choice([1000, 1000000000])
            timeout = rng.choice([10, 3600])
            kvs = [(b'a', rb(rng, 4)), (b'k', rb(rng, 20))]
            v1, v2 = rb(rng, 40), rb(rng, 5)
            q = lambda c, sets: 'Q~%s~%s' % (c, ';'.join('%s:%s' % (hexs(k), hexs(v)) for k, v in sets))
            ops = [q('c:0,0,$', [(b'k', v1)]), q('c:0,0,$', [(b'k', v1)]), q('c:0,0,$', [(b'k', v1)]),     # cookies 1,2,3: same request thrice
                   q('c:0,0,$', [(b'k', v1 + b'x')]), q('c:0,0,$', [(b'k', v1 + b'y')]),                   # 4,5: long common prefix
                   q('c:1,0,$', [(b'b', v2)]), q('c:2,0,$', [(b'b', v2)]),                                 # 6,7: equal data, different cookies presented
                   q('c:1,0,$', []),                                                                       # 8: nothing changed
                   'c:1,0,$', 'c:6,0,$', 'c:7,0,$',
                   q('bflip:0:3:1', [(b'k', v1)]), q('bflip:0:3:1', [(b'k', v1)]),                         # 9,10: tampered -> new session, twice
                   q('raw:-', [(b'k', v1)]), q('raw:-', [(b'k', v1)]),                                     # 11,12: no cookie, twice
                   'now=%d' % (now + timeout // 2),
                   q('c:1,0,$', []), q('c:1,0,$', []),                                                     # 13,14: renew re-issues unchanged data
                   'now=%d' % (now + timeout + 1),
                   q('c:0,0,$', [(b'k', v1)]), q('c:0,0,$', [(b'k', v1)])]                                 # 15,16: expired -> new session, twice
            cases.append(line(now, opts, timeout, kvs, ops, expire))
    # empty session: nothing is issued
    cases.append(line(1000, dict(enc='hmac', key=hk(16)), 10, [], ['raw:-', 'raw:43']))
    # configurations that must be refused
    K = hk(16)
    bad = [dict(), dict(cbc='aes', ckey=K), dict(cbc='aes', ckey=K, hkey=K), dict(enc='hmac', mac='sha1', key=K, hkey=K),
           dict(enc='aes', cbc='aes', key=hk(36), ckey=K), dict(enc='hmac', cbc='aes', key=K, ckey=K), dict(enc='aes', mac='sha1', key=hk(36), hkey=K),
           dict(enc='des', key=K), dict(enc='HMAC', key=K), dict(enc='AES', key=hk(36)), dict(enc='hma', key=K), dict(enc='none', key=K),
           dict(enc='hmac', key=hk(15)), dict(enc='hmac', key=hk(8)), dict(enc='hmac', key=''), dict(enc='hmac-sha256', key=hk(15)),
           dict(enc='hmac-md5', key=hk(1)), dict(mac='sha1', hkey=hk(15)), dict(mac='sha512', hkey=''), dict(mac='md5', hkey=hk(2)),
           dict(enc='hmac', key=K + 'a'), dict(enc='hmac', key=K[:-1] + 'g'), dict(enc='hmac', key='zz' * 16), dict(mac='sha1', hkey=K + '0'),
           dict(mac='sha1', cbc='aes', hkey=K, ckey=K + 'x1'), dict(mac='sha1', cbc='aes', hkey='x' + K, ckey=K),
           dict(enc='hmac-sha3', key=K), dict(enc='hmac-', key=K), dict(enc='hmac-sha1x', key=K), dict(mac='sha2', hkey=K),
           dict(enc='aes', key=hk(15)), dict(enc='aes', key=''), dict(enc='aes256', key=hk(31)), dict(enc='aes192', key=hk(23)),
           dict(enc='aes512', key=hk(64)), dict(enc='aes-', key=hk(36)), dict(enc='aesx', key=hk(36)), dict(enc='aes1', key=hk(36)),
           dict(mac='sha1', cbc='aes', hkey=K, ckey=hk(15)), dict(mac='sha1', cbc='aes', hkey=K, ckey=hk(17)), dict(mac='sha1', cbc='aes256', hkey=K, ckey=hk(16)),
           dict(mac='sha1', cbc='aes192', hkey=K, ckey=hk(32)), dict(mac='sha1', cbc='des', hkey=K, ckey=K), dict(mac='sha3', cbc='aes', hkey=K, ckey=K),
           dict(mac='sha1', cbc='aes', hkey=K, ckey=''), dict(mac='sha1', cbc='aes', hkey='', ckey=K)]
    bad += [dict(enc='hmac', keyfile=''), dict(enc='hmac', keyfile='\n'), dict(enc='hmac', keyfile=' \n\t'), dict(enc='hmac', keyfile='\n' + K),
            dict(enc='hmac', keyfile=K[:16] + ' ' + K[16:]), dict(enc='hmac', keyfile=K + 'a\n'), dict(enc='hmac', keyfile=hk(15) + '\n'),
            dict(enc='hmac', keyfile=K + '\n#'), dict(mac='sha1', hkeyfile=''), dict(mac='sha1', cbc='aes', hkey=K, ckeyfile=''),
            dict(mac='sha1', cbc='aes', hkeyfile='', ckey=K), dict(mac='sha1', cbc='aes', hkey=K, ckeyfile=hk(17) + '\n'),
            dict(enc='aes', keyfile=hk(15) + '\n'), dict(enc='hmac', keyfile=K + '\x00')]
    for opts in bad:
        cases.append(line(1000, opts, 10, [(b'a', b'b')], ['c:0,0,$', 'raw:43']))
    return cases


def gen_kat(ctx):
    rng = ctx.rng
    cases = ['kat aes %s %s' % kv for kv in KAT_AES]
    for alg in ALGS:
        for kl in (0, 1, 16, 20, 63, 64, 65, 127, 128, 129, 200):
            for ml in (0, 1, 55, 56, 64, 111, 112, 128, 300):
                if ctx.quick() and rng.random() < 0.6:
                    continue
                cases.append('kat %s %s %s' % (alg, rkey(rng, kl), rkey(rng, ml)))
    return cases


def gen_katseq(ctx):
    rng = ctx.rng
    cases = []
    for alg in ALGS:
        for kl in (0, 16, 64, 65, 128, 129):
            if ctx.quick() and rng.random() < 0.5:
                continue
            msgs = [rkey(rng, rng.choice([0, 1, 55, 56, 63, 64, 65, 111, 112, 127, 128, 129, 300])) for _ in range(rng.randrange(2, 6))]
            msgs += [msgs[0], '-', msgs[0]]       # the same message again, after an empty one
            cases.append('katseq %s %s %s' % (alg, rkey(rng, kl), ' '.join(msgs)))
        msgs = [rkey(rng, rng.choice([0, 1, 55, 56, 64, 119, 120, 128, 300])) for _ in range(4)]
        cases.append('katseq %s md %s %s - %s' % (alg, ' '.join(msgs), msgs[0], msgs[0]))
    return cases


def gen_cbc(ctx):
    """the cbc object itself: every order of set_iv / set_nonce_iv / encrypt / decrypt, aimed at the two chaining vectors"""
    rng = ctx.rng
    cases = []

    def blk(n):
        return hexs(rb(rng, 16 * n))
    names = [('aes128', 16), ('aes192', 24), ('aes256', 32), ('aes', 16), ('AES-256', 32), ('aes-192', 24)]
    for nm, sz in names:
        key = rkey(rng, sz)
        iv = rkey(rng, 16)
        x2 = blk(2)
        pats = [
            ['I:' + iv, 'E:' + blk(1), 'D:' + blk(1), 'E:' + blk(1), 'D:' + blk(1)],          # alternate: each side keeps its own chain
            ['I:' + iv, 'D:' + blk(2), 'E:' + blk(2), 'E:' + blk(1)],                          # decrypt first, then encrypt from the IV
            ['I:' + iv, 'E:' + x2, 'I:' + iv, 'E:' + x2, 'I:' + iv, 'D:' + x2, 'I:' + iv, 'D:' + x2],   # set_iv resets BOTH sides
            ['I:' + iv, 'E:' + x2, 'D:' + x2, 'I:' + rkey(rng, 16), 'D:' + x2, 'E:' + x2],
            ['N', 'E:' + blk(1), 'D:' + blk(1), 'E:' + blk(2), 'D:' + blk(2), 'E:-', 'D:-', 'E:' + blk(1), 'D:' + blk(1)],
            ['N', 'D:' + blk(1), 'E:' + blk(1), 'N', 'E:' + blk(1), 'D:' + blk(1)],
            ['E:' + blk(1)], ['D:' + blk(1)], ['I:' + rkey(rng, 15), 'E:' + blk(1)], ['I:' + rkey(rng, 17), 'D:' + blk(1)], ['I:-', 'E:' + blk(1)],
            ['I:' + iv, 'I:' + rkey(rng, 8), 'E:' + blk(1), 'D:' + blk(1)],                    # a refused set_iv changes nothing
            ['I:' + iv, 'E:-', 'D:-', 'E:' + blk(1), 'D:' + blk(1)],                           # zero length: vectors unchanged
        ]
        for _ in range(ctx.scale(3, 20)):
            ops = [rng.choice(['I:' + rkey(rng, 16), 'N'])]
            for _ in range(rng.randrange(2, 9)):
                r = rng.random()
                if r < 0.1:
                    ops.append(rng.choice(['I:' + rkey(rng, 16), 'N']))
                else:
                    ops.append(rng.choice('ED') + ':' + blk(rng.choice([0, 1, 1, 2, 3])))
            pats.append(ops)
        # a decrypt of what was just encrypted and vice versa (the blocks then coincide with the chains)
        pats.append(['I:' + iv, 'E:' + x2, 'D:' + x2, 'E:' + x2])
        for ops in pats:
            cases.append('cbc %s %s %s' % (nm, key, ' '.join(ops)))
    cases.append('cbc aes512 %s I:%s E:%s' % (rkey(rng, 16), rkey(rng, 16), blk(1)))
    cases.append('cbc des %s I:%s E:%s' % (rkey(rng, 16), rkey(rng, 16), blk(1)))
    cases.append('cbc aes128 %s I:%s E:%s' % (rkey(rng, 24), rkey(rng, 16), blk(1)))
    cases.append('cbc aes256 %s I:%s E:%s' % (rkey(rng, 16), rkey(rng, 16), blk(1)))
    return cases


def gen_hist(ctx):
    """histories on encryptor OBJECTS: decrypt (load) followed by encrypt (save) on one object, with cookies other than the one
    just issued, repeated with the same presented cookie and the same / prefix-sharing data over several objects"""
    rng = ctx.rng
    cases = []
    cfgs = [c for c in configs(ctx)]
    aes = [c for c in cfgs if not c.startswith('hmac/')]
    hm = [c for c in cfgs if c.startswith('hmac/')]
    pick = (rng.sample(aes, min(len(aes), 14)) + rng.sample(hm, 3)) if ctx.quick() else cfgs
    for cfg in pick:
        now = rng.choice([5, 1000000000, 2 ** 31 + 1])
        t = now + 100
        d = [hexs(rb(rng, n)) for n in (3, 24, 40, 0)]
        pre = rb(rng, 40)
        dp = [hexs(pre + rb(rng, 8)), hexs(pre + rb(rng, 8))]          # common 40-byte prefix
        S = lambda x: 'S:%s:%d' % (x, t)
        # A. load an OLDER cookie, then save: the save must continue the object's own chain
        cases.append('scn %s = now=%d %s %s c:0,0,$ %s c:0,0,$ c:1,0,$ %s c:2,0,$ c:0,0,$ %s' % (cfg, now, S(d[0]), S(d[1]), S(d[1]), S(d[2]), S(d[2])))
        # B. every request on its own object: the same cookie presented, the same data saved (three times), then prefix-sharing data
        ops = [S(d[0])]
        for x in (d[1], d[1], d[1], dp[0], dp[1], dp[0]):
            ops += ['new', 'c:0,0,$', S(x)]
        cases.append('scn %s = now=%d %s' % (cfg, now, ' '.join(ops)))
        # C. two objects used alternately, each loading what the other issued
        cases.append('scn %s = now=%d %s new %s obj:0 c:1,0,$ %s obj:1 c:0,0,$ %s obj:0 c:3,0,$ c:2,0,$ %s obj:1 %s' %
                     (cfg, now, S(d[0]), S(d[0]), S(d[1]), S(d[1]), S(d[2]), S(d[2])))
        # D. rejected cookies between saves do not reach the cbc object; accepted forged ones (made with the key) do
        clen = cipher_len(cfg, 3 + 8)
        ops = [S(d[0]), S(d[1]), 'bflip:0:%d:%d' % (rng.randrange(clen), rng.randrange(8)), S(d[1]), 'b:0,0,-1', 'raw:-', 'raw:43', S(d[1])]
        if cfg.startswith('aes/'):
            seed = rkey(rng, 3)
            ops += ['fa:3:20:0:%s:%d' % (seed, t), S(d[1]), 'new', 'fa:3:20:0:%s:%d' % (seed, t), S(d[1]), 'new', 'fa:4:30:0:%s:%d' % (seed, t), S(d[1]),
                    'fa:3:21:0:%s:%d' % (seed, now - 1), S(d[1])]
        cases.append('scn %s = now=%d %s' % (cfg, now, ' '.join(ops)))
        # E. a cookie made by another encryptor with the same keys (cfgB side loads only; A keeps saving)
        cases.append('scn %s %s now=%d %s c:0,0,$ %s c:1,0,$ c:0,0,$ %s' % (cfg, cfg, now, S(d[0]), S(d[0]), S(d[0])))
        # F. random interleavings
        for _ in range(ctx.scale(2, 8)):
            ops, nck, nobj = [S(d[0])], 1, 1
            for _ in range(rng.randrange(6, 16)):
                r = rng.random()
                if r < 0.4:
                    ops.append(S(rng.choice(d + dp)))
                    nck += 1
                elif r < 0.8:
                    ops.append('c:%d,0,$' % rng.randrange(nck))
                elif r < 0.9:
                    ops.append('new')
                    nobj += 1
                else:
                    ops.append('obj:%d' % rng.randrange(nobj))
            ops.append(S(d[1]))
            cases.append('scn %s = now=%d %s' % (cfg, now, ' '.join(ops)))
    return cases


def gen_http(ctx, pool_cases):
    """the request histories of the pool lines once more, through a real cppcms::service (SCGI): only configurations given
    inline (no key files) and only requests (Q) whose cookie is plain base64url text"""
    rng = ctx.rng
    out = []
    for c in pool_cases:
        if 'Q~' not in c or 'keyfile=' in c:
            continue
        ct = c.split(' ')
        a, start = pool_split(ct)
        ops = []
        for t in ct[start:]:
            if t.startswith('now='):
                ops.append(t)
            elif t.startswith('Q~') and not t.startswith('Q~cflip'):
                ops.append(t)
            elif not t.startswith('Q~'):
                pass          # load-only candidates are pool-only; as a request without changes they would shift the indices
        # indices of issued cookies must stay aligned: only Q tokens push one, in both scenario kinds
        out.append('http ' + ' '.join(ct[1:start] + ops))
    n = ctx.scale(8, 40)
    return out if len(out) <= n else rng.sample(out, n)


def gen_cases(ctx):
    pool_cases = gen_pool(ctx)
    return gen_kat(ctx) + gen_katseq(ctx) + gen_cbc(ctx) + gen_hist(ctx) + gen_scn(ctx) + pool_cases + gen_http(ctx, pool_cases)


# ------------------------------------------------------------------------------------------
# classification / coverage
# ------------------------------------------------------------------------------------------
def cand_kind(tok):
    k = tok.split(':', 1)[0]
    if k in ('b', 'c'):
        body = tok.split(':', 1)[1]
        if body in ('0,0,$', '1,0,$') or re.fullmatch(r'\d+,0,\$', body):
            return 'identity'
        if '+' not in body:
            return 'truncation'
        if re.fullmatch(r'\d+,0,\$\+h[0-9a-f]*', body) or body.startswith('h'):
            return 'extension'
        return 'splice'
    return {'bflip': 'bitflip-cipher', 'bflip2': 'two-bitflips-tag', 'bxor': 'xor-pattern-tag', 'cflip': 'bitflip-text', 'raw': 'arbitrary', 'fa': 'forged-mac', 'ft': 'forged-mac'}.get(k, k)


def run_differential(ctx, cases, exe, mexe):
    import time, hashlib as hl
    cov = ctx.coverage
    t0 = time.time()
    env = {'ASAN_OPTIONS': 'detect_leaks=0:abort_on_error=0'}
    rc, out_i, err = vlib.run_lines_parallel(exe, cases, env=env)
    if len(out_i) < len(cases):
        out_i = out_i + ['<missing>'] * (len(cases) - len(out_i))
    # a line the process died on (sanitizer report, abort): mark it, then run the lines after it in a new process so
    # that one crash neither hides the rest of the run nor blames the wrong line
    restarts = 0
    while restarts < 40:
        k = next((i for i, o in enumerate(out_i) if o.startswith('<missing')), None)
        if k is None:
            break
        out_i[k] = '<crash rc=%s> %s' % (rc, err[-300:].replace('\n', ' | '))
        ctx.broke('implementation harness died on a case (rc=%s)' % rc, cases[k][:300] + '\n' + err[-1500:])
        j = k + 1
        while j < len(out_i) and out_i[j].startswith('<missing'):
            j += 1
        if j > k + 1:
            restarts += 1
            rc2, o2, err = vlib.run_lines(exe, cases[k + 1:j], env=env)
            rc = rc2 or rc
            out_i[k + 1:k + 1 + len(o2[:j - k - 1])] = o2[:j - k - 1]
    for i, o in enumerate(out_i):
        if o.startswith('<missing'):     # too many crashes: the rest was not run
            out_i[i] = '<notrun>'
    t1 = time.time()
    cov['impl_wall_s'] = round(t1 - t0, 2)
    hist = cov.setdefault('distribution', {})
    seen = set()
    nev = 0
    mlines, midx = [], []
    first_blocks = {}
    del PLAIN_CHECKS[:]
    to_verify = {}      # cipher key -> {first cipher block of an issued cookie: D(block) as the harness reported it}
    for i, c in enumerate(cases):
        o = out_i[i]
        # across scenarios: no two cipher texts issued under the same key material may start with the same block (= the same
        # IV): every encryptor object starts from a fresh random nonce and continues with its own last cipher block
        if not crashed(o) and o.startswith('ok') and (c.startswith('scn ') or is_pool(c)):
            tok0 = c.split(' ')[1]
            mat = material(tok0[5:] if tok0.startswith('prim=') else tok0)
            if mat and mat[0] == 'aes':
                head_, items_, prims_, _ = parse_impl(o)
                bt_ = btable(prims_)
                ckh = hexs(mat[1])
                for it_ in items_:
                    txt = it_[1] if it_[0] in 'SX' else (it_[2].split(',')[-1] if it_[0] == 'Q' and it_[2] and ',' in it_[2] else None)
                    if not txt or txt in ('EXC', '-'):
                        continue
                    ci_ = cpp_b64decode(unhex(txt)[1:])
                    if ci_ is None or len(ci_) < 16:
                        continue
                    c0 = hexs(ci_[:16])
                    if (ckh, c0) in bt_:
                        to_verify.setdefault(ckh, {})[ci_[:16]] = unhex(bt_[(ckh, c0)])
                    k0 = (mat, c0)
                    if k0 in first_blocks and first_blocks[k0] != c:
                        ctx.fail('aes-first-block-repeated', 'two cipher texts issued under the same keys in different histories start with the same '
                                 'block (same IV): equal payloads give equal cookies\n  first block: ' + c0,
                                 first_blocks[k0] + '\n' + c)
                    first_blocks.setdefault(k0, c)
        if o.startswith('<notrun'):      # the harness kept dying: the crashes are reported, this line was never run
            cov['lines_not_run_after_repeated_crashes'] = cov.get('lines_not_run_after_repeated_crashes', 0) + 1
            continue
        for key, desc, ti in oracle_all(c, o):
            red = reduce_case(c, ti)
            ctx.fail(key, desc + '\n  case: %s\n  impl: %s' % (red[:600], o[:300]), red)
        if not crashed(o) and not c.startswith('kat'):
            r = check_prims(parse_impl(o)[2])
            if r:
                ctx.fail(r[0], r[1], reduce_case(c, -1) if not is_pool(c) else c)
        if crashed(o):
            continue
        if o.startswith('httperr'):
            cov['http_lines_not_run'] = cov.get('http_lines_not_run', 0) + 1
            continue
        head, items, prims, extra = parse_impl(o)
        ct = c.split(' ')
        if ct[0] in ('kat', 'katseq'):
            nev += 1 if ct[0] == 'kat' else max(1, len(ct) - 3)
            hist[ct[0] + ':' + ct[1]] = hist.get(ct[0] + ':' + ct[1], 0) + 1
            mlines.append(c)
            midx.append(i)
            continue
        if ct[0] == 'cbc':
            h_, its_, _ = cbc_items(o)
            nev += max(1, len(its_))
            for t_ in its_:
                k = 'cbc:%s:%s' % (t_[0], 'EXC' if t_.endswith('=EXC') else 'ok')
                hist[k] = hist.get(k, 0) + 1
            if h_ != 'ok':
                hist['cbc:' + h_] = hist.get('cbc:' + h_, 0) + 1
            seen.add(hl.md5(c.encode()).digest())
            mlines.append(model_line(c, o))
            midx.append(i)
            continue
        fam = ct[1].split('/')[0] if ct[0] == 'scn' else ct[0]
        cfgL = (ct[1] if ct[2] == '=' else ct[2]) if ct[0] == 'scn' else ct[1]
        nev += max(1, len(items))
        if head != 'ok':
            k = '%s:%s' % (fam, head.split(':')[0])
            hist[k] = hist.get(k, 0) + 1
        else:
            start = 4 if ct[0] == 'scn' else pool_split(ct)[1]
            it = iter(items)
            if ct[0] in ('pool', 'http'):
                next(it, None)
            after_load = False
            for tok in ct[start:]:
                if is_ctl(tok):
                    if tok == 'new' or tok.startswith('obj:'):
                        after_load = False
                        hist['%s:object-switch' % fam] = hist.get('%s:object-switch' % fam, 0) + 1
                    continue
                item = next(it, None)
                if item is None:
                    break
                if is_op(tok):
                    k = '%s:save-after-accepted-load' % fam if after_load else '%s:save' % fam
                    after_load = False
                elif tok.startswith('Q~'):
                    v = item[2] or '?'
                    f_ = v.split(',')
                    k = '%s:request:%s:%s' % (ct[0], 'loaded' if f_[0] == '1' else 'EXC' if v == 'EXC' else 'new-session',
                                                'issued' if len(f_) == 4 and f_[3] != '-' else 'no-cookie')
                    if item[1]:
                        seen.add(hl.md5((cfgL + '|Q|' + item[1] + tok).encode()).digest())
                else:
                    if item[2] and item[2][:1] == 'A' and ct[0] == 'scn' and ct[2] == '=':
                        after_load = True
                    v = item[2] or '?'
                    k = '%s:%s:%s' % (fam, cand_kind(tok), v[0] if v[0] in 'AR' else v[:3])
                    if item[1]:
                        ck = unhex(item[1])
                        # non-trivial: the cookie reaches the encryptor (tag letter present, valid base64 length)
                        if ck[:1] == b'C' and len(ck) % 4 != 2:
                            seen.add(hl.md5((cfgL + '|' + item[1]).encode()).digest())
                hist[k] = hist.get(k, 0) + 1
        mlines.append(model_line(c, o))
        midx.append(i)
    # the IVs the oracle worked with are D(first block) as computed by the implementation (a fresh cbc object, zero IV):
    # check them against an independent AES
    nver = 0
    for ckh, tab in to_verify.items():
        ref = aes_ecb_dec(ckh, list(tab.keys()))
        if ref is None:
            break
        nver += len(tab)
        for y, x in tab.items():
            if ref[y] != x:
                ctx.fail('aes-primitive-wrong', 'a raw block decryption through cppcms::crypto::cbc differs from AES (openssl enc -aes-ecb): key %s block %s'
                         % (ckh, hexs(y)), 'kat aes %s %s' % (ckh, hexs(y)))
                break
    # every issued aes cookie is decrypted independently (CBC here, block function by openssl): it must carry exactly the
    # expiry and data that were saved
    bykey = {}
    for pc in PLAIN_CHECKS:
        bykey.setdefault(pc[0], []).append(pc)
    ndec = 0
    for ckh, lst in bykey.items():
        ref = aes_ecb_dec(ckh, [b for pc in lst for b in blocks16(pc[2][:len(pc[2]) - pc[1]])])
        if ref is None:
            break
        for _, dl_, ci_, plain_, rep_ in lst:
            ndec += 1
            got = plain_of_aes_ciphertext(ci_, dl_, ref)
            if got != plain_:
                ctx.fail('issued-cookie-plaintext-wrong', 'an issued aes cookie, decrypted independently (AES-CBC, first block discarded, 32-bit length), '
                         'does not carry the expiry and data that were saved: got %s want %s' % (hexs(got)[:80] if got is not None else 'malformed', hexs(plain_)[:80]), rep_)
    del PLAIN_CHECKS[:]
    cov['issued_cookies_decrypted_independently'] = cov.get('issued_cookies_decrypted_independently', 0) + ndec
    cov['first_blocks_checked_against_independent_aes'] = cov.get('first_blocks_checked_against_independent_aes', 0) + nver
    cov['independent_aes_available'] = bool(ECB_STATE['available'])
    cov['evaluations'] = cov.get('evaluations', 0) + nev
    cov['scenario_lines'] = cov.get('scenario_lines', 0) + len(cases)
    cov['distinct_nontrivial'] = cov.get('distinct_nontrivial', 0) + len(seen)
    ndiff = 0
    out_m = None
    if mexe and mlines:
        rc_m, out_m, err_m = vlib.run_lines_parallel(mexe, mlines)
        cov['model_wall_s'] = round(time.time() - t1, 2)
        if len(out_m) != len(mlines):
            ctx.broke('model driver produced %d lines for %d cases' % (len(out_m), len(mlines)), err_m[-2000:])
            out_m = None
    if out_m is not None:
        for j, i in enumerate(midx):
            a = canon_impl(cases[i], out_i[i])
            b = out_m[j]
            if a != b:
                ndiff += 1
                if ndiff <= 5:
                    at, bt = a.split(' '), b.split(' ')
                    k = next((x for x in range(min(len(at), len(bt))) if at[x] != bt[x]), min(len(at), len(bt)))
                    ct = cases[i].split(' ')
                    start = 4 if ct[0] == 'scn' else pool_split(ct)[1] if ct[0] in ('pool', 'http') else len(ct)
                    ops_idx = [x for x in range(start, len(ct)) if not is_ctl(ct[x])]
                    off = k - 1 - (1 if ct[0] in ('pool', 'http') else 0)
                    ti = ops_idx[off] if 0 <= off < len(ops_idx) else None
                    ctx.broke('correspondence model vs implementation: differ on case',
                              'operation: %s\nimpl:  %s\nmodel: %s\ncase:  %s' % (
                                  ct[ti] if ti is not None else '(header)', ' '.join(at[k:k + 1])[:300], ' '.join(bt[k:k + 1])[:300],
                                  reduce_case(cases[i], ti)[:1500]))
    cov['correspondence_differences'] = cov.get('correspondence_differences', 0) + ndiff
    if len(cov.get('samples', [])) < 6:
        step = max(1, len(cases) // 5)
        for i in range(0, len(cases), step):
            cov.setdefault('samples', []).append({'case': cases[i][:400], 'impl': canon_impl(cases[i], out_i[i])[:300]})


def run(ctx):
    GEN.update(equal_tie_spec())
    errs = vlib.gen_coq(GEN)
    for n, e in errs:
        ctx.broke('translator cxx2v failed on %s (tie to source broken)' % n, e)
    res = vlib.coq_props('C05')
    ctx.proof(res)
    ctx.coverage['trusted_base'] = [
        'Coq 8.16.1 kernel',
        'extraction: ExtrOcamlBasic only, OCaml 4.13.1; ocaml/C05_driver.ml (primitive tables, line protocol)',
        'harness/C05_cookies.cpp (drives the real session_cookies / hmac_cipher / aes_cipher / session_pool / session_interface / crypto::cbc, and an '
        'in-process cppcms::service with an SCGI client for the http lines; '
        'computes HMAC tags and raw AES block decryptions through cppcms::crypto for the model; forged-MAC candidates)',
        'openssl command line tool (enc -d -aes-{128,192,256}-ecb -nopad): independent AES for the IV oracle and the raw block values',
        'checks/C05.py (generators, oracle, specification-side key material and base64url/save_data codecs in Python)',
        'hand model of the C++ control flow (coq/C05/Defs.v), tied by correspondence; source ties: crypto::key::from_hex (cxx2v) and '
        'hmac_cipher::equal (loop body + return test via cxx2v inside a rigid frame checked textually by checks/C05.py, coq/C05/LinkEqual.v)',
        'base64url model of C15 (coq/C15/Defs.v, linked to src/base64.cpp by C15)']
    ctx.assumptions = [
        'HMAC is an arbitrary function with fixed output length dlen(a); AES block functions satisfy D k (E k b) = b and map 16 bytes to 16 bytes '
        '(Section hypotheses, visible as premises of the theorems)',
        'issued_only: existential unforgeability is a hypothesis on the concrete history (every presented body with a correct tag was issued)',
        'confidentiality (payload / payload-equality hiding) is NOT proved as indistinguishability: computational property of AES-CBC; proved are its '
        'structural preconditions (IV = nonce chained through own encrypt outputs only, non-interference of presented cookies, distinct nonces '
        '=> distinct first blocks) and checked on the implementation: no repeated first block / cipher text, IV never a presented or public block',
        'set_nonce_iv draws fresh random vectors (/dev/urandom): assumption; the oracle only sees that nonces never repeat and never equal a public block',
        'cbc lines use lengths that are multiples of the block size (as aes_cipher does); AES_cbc_encrypt with a ragged length is outside the model',
        'x86-64: little-endian uint32_t / time_t, 8-byte time_t, bit-field layout of the packed session header',
        'payloads shorter than 2^32 - 12 bytes (uint32_t length field)']
    # the anchored sources of the working tree are compiled into the harness executable with AddressSanitizer (their
    # definitions take precedence over the copies in libcppcms.so): out-of-range reads in the code under test abort
    R = vlib.REPO
    exe, err = vlib.build_harness('C05_cookies', ['C05_cookies.cpp', R + '/src/session_cookies.cpp', R + '/src/hmac_encryptor.cpp',
                                                  R + '/src/aes_encryptor.cpp'],
                                  extra=['-fsanitize=address', '-fno-omit-frame-pointer'])
    if not exe:
        ctx.broke('harness build failed', err)
        return
    ctx.coverage['sanitizer_run'] = ('harness + src/session_cookies.cpp + src/hmac_encryptor.cpp + src/aes_encryptor.cpp of the working tree '
                                     'compiled with -fsanitize=address; base64, crypto, aes, session_pool, session_interface from the regular '
                                     'library build' + ('' if ctx.quick() else '; all cases run a second time against the regular library only'))
    mexe, err = vlib.build_model('C05', 'C05_driver.ml', 'c05m')
    if not mexe:
        ctx.broke('model extraction/build failed', err)
    if ctx.replay_cases is not None:
        cases = ctx.replay_cases
    else:
        cases = vlib.corpus_cases('C05') + gen_cases(ctx)
    ctx.coverage['rule'] = (
        'A case line is a scenario on the real code: an encryptor configuration (hmac-{md5,sha1,sha224,sha256,sha384,sha512} with key lengths '
        '16..200, aes-{128,192,256} with separate cbc/hmac keys over every hash, combined-key aes with split and derived keys), an interposed '
        'clock, saves through session_cookies::save (or a whole session_pool + session_interface for pool lines), then candidate cookies '
        'loaded through session_cookies::load: the issued cookie itself, EVERY single-bit flip of its cipher text and of its text, EVERY '
        'truncation, extensions by 1..17 bytes and by whole blocks, block swaps/drops/duplications, splices of two valid cookies at every '
        'block boundary, transplants to encryptors with a flipped key bit / other hash / other cipher / equivalent key material, arbitrary '
        'and non-canonical base64 strings, the TAG changed in two or more places with the body untouched (pairs of single-bit flips: all pairs '
        'for 16-byte tags of one hmac and one aes configuration, same-bit pairs at offsets equal mod 4 and others sampled elsewhere, all of '
        'them in thorough; exchanged / rotated / reversed tag bytes, half-words, words and halves; XOR patterns with zero word-XOR and zero '
        'byte sum; the permuted tag of another cookie), and cipher texts with a correct MAC but malformed structure (forged with the key, to drive the '
        'checks after MAC verification). Object histories: saves and loads interleaved on one encryptor object (loading cookies OTHER than '
        'the one just issued, accepted forged ones, rejected ones), several objects made by one factory (`new`, `obj:k`) that are presented '
        'the same cookie and save the same or prefix-sharing data; pool lines continue with whole requests (Q: new session_interface = new '
        'encryptor object, load the presented cookie, set values, save) repeated with identical inputs, tampered / missing / expired cookies '
        'and the three expiration policies; cbc lines drive cppcms::crypto::cbc itself through every order of set_iv / set_nonce_iv / '
        'encrypt / decrypt (0..3 blocks), use before an IV, wrong IV sizes; http lines repeat request histories through a real cppcms::service '
        '(SCGI on a unix socket: Cookie header in, Set-Cookie lines out, session loaded and saved by the framework). '
        'evaluations = saves + candidate loads + requests + cbc calls + configuration-only lines. A candidate is non-trivial when '
        'it reaches the encryptor (tag letter C and a valid base64 length); distinct = distinct (loading configuration, cookie string), '
        'distinct requests, distinct cbc lines.')
    ctx.coverage['exhaustive'] = False
    ctx.coverage['exhaustive_parts'] = ['all single-bit flips of cipher text and cookie text, all truncations of a small valid cookie, '
                                        'for a third of the configurations in quick and all in thorough']
    run_differential(ctx, cases, exe, mexe)
    if not ctx.quick() and ctx.replay_cases is None:
        pexe, err = vlib.build_harness('C05_cookies_plain', ['C05_cookies.cpp'])
        if not pexe:
            ctx.broke('plain harness build failed', err)
            return
        ev, dn = ctx.coverage.get('evaluations', 0), ctx.coverage.get('distinct_nontrivial', 0)
        run_differential(ctx, cases, pexe, mexe)
        ctx.coverage['evaluations_regular_library'] = ctx.coverage['evaluations'] - ev
        ctx.coverage['distinct_nontrivial'] = dn      # same cases: do not count twice
