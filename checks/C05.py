"""C05 -- client-side sessions are accepted only if issued by this server and unexpired."""
import os, re, base64, hashlib, struct, hmac as pyhmac
import vlib
from vlib import hexs, unhex

META = dict(
    property_id='C05',
    design_ref='DESIGN.md section 4, C05',
    technique='Coq proof (encrypt-then-MAC decision logic over abstract HMAC / AES block primitives) + extracted-model '
              'correspondence on the real session_cookies / hmac_cipher / aes_cipher / session_pool with interposed time()',
    level_text=('Theorems in coq/C05/Props.v over an executable model of hmac_cipher, aes_cipher (CBC over an abstract block cipher, '
                'zero first block, 32-bit length, padding, chained IV), session_cookies save/load (8-byte expiry, C tag, base64url of '
                'C15) and the key preparation of aes_factory, for every payload, key, IV and clock: save-then-load returns the saved '
                'data and expiry iff not expired; every accepted cookie carries a correct MAC over its entire cipher text, checked '
                'before decryption, and the result is a function of that authenticated text only; under an explicit unforgeability '
                'hypothesis on the history, an accepted cookie returns the (data, expiry) of an earlier save; acceptance of any '
                'mutation of body or tag is exactly a MAC collision; structural rejects (too short, not a block multiple, fewer than two '
                'blocks, inner length beyond the available bytes, expired) are rejects with the cookie cleared. HMAC, the AES block '
                'function and its inverse are universally quantified; the real primitives are supplied to the extracted model by the '
                'harness so that the decision logic of the real code and of the model are compared on every single-bit flip, '
                'truncation, extension, block swap, splice and cross-key transplant of real cookies.'),
    level_note=('Trusted: Coq kernel; ExtrOcamlBasic extraction; the hand model of the C++ control flow (tied by correspondence only: '
                'the anchored functions contain no loop-free integer leaf that tools/cxx2v.py can translate); unforgeability of HMAC and '
                'indistinguishability of AES-CBC are assumptions, not theorems (the confidentiality sentence of the property is covered '
                'only by the structural lemmas on IV chaining and by pairwise-distinctness checks on the real cipher texts); the harness '
                'reads session_interface::temp_cookie_ through a private-access define.'),
)

GEN = {
    # crypto::key::from_hex (hex digit value used by key::set_hex for every configured key)
    'Gen_c05key': dict(src='src/crypto.cpp', functions=[('from_hex', 'g_key_from_hex')]),
}

ALGS = ['md5', 'sha1', 'sha224', 'sha256', 'sha384', 'sha512']
DLEN = dict(md5=16, sha1=20, sha224=28, sha256=32, sha384=48, sha512=64)
BLK = dict(md5=64, sha1=64, sha224=64, sha256=64, sha384=128, sha512=128)
CBC = {'aes': 16, 'AES': 16, 'aes128': 16, 'aes-128': 16, 'AES128': 16, 'AES-128': 16,
       'aes192': 24, 'aes-192': 24, 'AES192': 24, 'AES-192': 24,
       'aes256': 32, 'aes-256': 32, 'AES256': 32, 'AES-256': 32}
ALPHA = b'ABCDEFGHIJKLMNOPQRSTUVWXYZabcdefghijklmnopqrstuvwxyz0123456789-_'
D6 = {c: i for i, c in enumerate(ALPHA)}
I64MAX = 2 ** 63 - 1
I64MIN = -2 ** 63


# ------------------------------------------------------------------------------------------
# specification-side helpers (independent of the model): key material, base64url, save_data
# ------------------------------------------------------------------------------------------
def norm_mac_key(alg, k):
    """HMAC treats keys that agree after hashing-if-long and zero padding as the same key"""
    if len(k) > BLK[alg]:
        k = hashlib.new(alg, k).digest()
    return k.ljust(BLK[alg], b'\0')


def material(tok):
    """effective key material of a configuration token, None if the configuration is unusable"""
    p = tok.split('/')
    if p[0] == 'hmac' and len(p) == 3:
        alg, k = p[1].lower(), unhex(p[2])
        if alg not in DLEN or len(k) < 16:
            return None
        return ('hmac', alg, norm_mac_key(alg, k))
    if p[0] == 'aes' and len(p) == 5:
        sz, ck, alg, mk = CBC.get(p[1]), unhex(p[2]), p[3].lower(), unhex(p[4])
        if sz is None or len(ck) != sz or alg not in DLEN:
            return None
        return ('aes', ck, alg, norm_mac_key(alg, mk))
    if p[0] == 'aesk' and len(p) == 3:
        sz, k = CBC.get(p[1]), unhex(p[2])
        if sz is None or not p[1].startswith('aes'):
            return None
        if len(k) == sz + 20:
            ck, mk = k[:sz], k[sz:]
        elif len(k) >= sz:
            name = 'sha256' if len(k) * 8 <= 256 else 'sha512'
            ck = pyhmac.new(k, b'0', name).digest()[:sz]
            mk = pyhmac.new(k, b'\x01', name).digest()[:20]
        else:
            return None
        return ('aes', ck, 'sha1', norm_mac_key('sha1', mk))
    return None


def raw_mac_key(tok):
    """(hash name, MAC key bytes) a usable configuration authenticates with (RFC 2104 HMAC), None if unusable"""
    p = tok.split('/')
    if material(tok) is None:
        return None
    if p[0] == 'hmac':
        return p[1].lower(), unhex(p[2])
    if p[0] == 'aes':
        return p[3].lower(), unhex(p[4])
    sz, k = CBC[p[1]], unhex(p[2])
    if len(k) == sz + 20:
        return 'sha1', k[sz:]
    name = 'sha256' if len(k) * 8 <= 256 else 'sha512'
    return 'sha1', pyhmac.new(k, b'\x01', name).digest()[:20]


KAT_AES = [('000102030405060708090a0b0c0d0e0f', '69c4e0d86a7b0430d8cdb78070b4c55a'),
           ('000102030405060708090a0b0c0d0e0f1011121314151617', 'dda97ca4864cdfe06eaf70a0ec0d7191'),
           ('000102030405060708090a0b0c0d0e0f101112131415161718191a1b1c1d1e1f', '8ea2b7ca516745bfeafc49904b496089')]
KAT_PLAIN = '00112233445566778899aabbccddeeff'


def check_prims(prims):
    """the HMAC values handed to the model are RFC 2104 HMACs (independent Python implementation)"""
    for t in prims:
        if t.startswith('H='):
            a, k, m, tag = t[2:].split(',')
            if pyhmac.new(unhex(k), unhex(m), ALGS[int(a)]).digest() != unhex(tag):
                return ('hmac-primitive-wrong', 'cppcms::crypto::hmac(%s) differs from RFC 2104 HMAC for key %s message %s' % (ALGS[int(a)], k[:64], m[:64]))
    return None


def oracle_kat(case, out):
    ct = case.split(' ')
    if crashed(out):
        return [('crash', 'the harness died: ' + out[:300], None)]
    head, items, prims, extra = parse_impl(out)
    r = check_prims(prims)
    if r:
        return [(r[0], r[1], None)]
    if ct[1] == 'aes':
        got = {t[2:].split(',')[2]: t[2:].split(',')[1] for t in prims if t.startswith('B=')}
        for y in ct[3:]:
            want = KAT_PLAIN if (ct[2], y) in KAT_AES else None
            if y not in got:
                return [('aes-primitive-missing', 'no block decryption reported', None)]
            if want and got[y] != want:
                return [('aes-primitive-wrong', 'cppcms::crypto::cbc decryption of the FIPS-197 vector is wrong', None)]
    elif not any(t.startswith('H=') for t in prims):
        return [('hmac-primitive-missing', 'no HMAC value reported', None)]
    return []


def mac_dlen(tok):
    p = tok.split('/')
    if p[0] == 'hmac':
        return DLEN.get(p[1].lower(), 20)
    if p[0] == 'aes':
        return DLEN.get(p[3].lower(), 20)
    return 20


def cipher_len(tok, plain_len):
    if tok.startswith('hmac/'):
        return plain_len + mac_dlen(tok)
    return (plain_len + 4 + 15) // 16 * 16 + 16 + mac_dlen(tok)


def text_len(clen):
    return 1 + (clen * 4 + 2) // 3


def b64e(b):
    return base64.urlsafe_b64encode(b).rstrip(b'=')


def cpp_b64decode(s):
    """what a cookie text decodes to: characters outside the alphabet count as 'A' (value 0), len%4==1 is invalid"""
    if len(s) % 4 == 1:
        return None
    v = [D6.get(c, 0) for c in s]
    n = len(v) * 3 // 4
    v += [0] * (-len(v) % 4)
    out = bytearray()
    for i in range(0, len(v), 4):
        w = (v[i] << 18) | (v[i + 1] << 12) | (v[i + 2] << 6) | v[i + 3]
        out += bytes([(w >> 16) & 255, (w >> 8) & 255, w & 255])
    return bytes(out[:n])


def save_data(kvs):
    out = b''
    for k, v in kvs:
        out += struct.pack('<I', len(k) | (len(v) << 11)) + k + v
    return out


def le64(t):
    return struct.pack('<q', t)


# ------------------------------------------------------------------------------------------
# harness output parsing
# ------------------------------------------------------------------------------------------
def parse_impl(out):
    toks = out.split(' ')
    head, items, prims, extra = toks[0], [], [], []
    for t in toks[1:]:
        h = t[:2]
        if h in ('H=', 'B='):
            prims.append(t)
        elif h in ('S=', 'X='):
            items.append((t[0], t[2:], None))
        elif h == 'L=':
            body = t[2:]
            if ':' in body:
                ck, v = body.split(':', 1)
                items.append(('L', ck, v))
            else:
                items.append(('L', None, body))
        else:
            extra.append(t)
    return head, items, prims, extra


def is_op(tok):
    return tok[:2] in ('S:', 'X:')


def is_cand(tok):
    return not is_op(tok) and not tok.startswith('now=')


def crashed(out):
    return out.startswith('<crash') or out.startswith('<missing') or out.startswith('HARNESS-EXC') or out.startswith('BAD-CASE')


def first_c0(items):
    for it in items:
        if it[0] in 'SX' and it[1] not in ('EXC', '-', ''):
            ci = cpp_b64decode(unhex(it[1])[1:])
            if ci is not None and len(ci) >= 16:
                return 'C0=' + hexs(ci[:16])
            return None
    return None


def pool_split(ct):
    """pool line -> (dict of settings, index of the first op token)"""
    a = {}
    i = 1
    while i < len(ct):
        t = ct[i]
        if '=' not in t:
            break
        k, v = t.split('=', 1)
        if k == 'now' and 'now' in a:
            break
        if k not in ('prim', 'now', 'enc', 'mac', 'cbc', 'key', 'hkey', 'ckey', 'keyfile', 'hkeyfile', 'ckeyfile', 'timeout', 'expire', 'kv'):
            break
        a[k] = v
        i += 1
    return a, i


def model_line(case, out):
    """the scenario as the model sees it: same operations, candidates as explicit cookie strings, the first cipher
    block of the first issued cookie (the IV is its decryption) and the primitive values printed by the harness"""
    ct = case.split(' ')
    if ct[0] == 'kat':
        return case
    head, items, prims, extra = parse_impl(out)
    it = iter(items)
    if ct[0] == 'scn':
        res = ct[:4]
        start = 4
    else:
        a, start = pool_split(ct)
        res = [t for t in ct[:start] if not t.startswith('prim=')]
        if head == 'ok':
            s_item = next(it, None)   # the issued session cookie
    c0 = first_c0(items)
    if c0:
        res.append(c0)
    for tok in ct[start:]:
        if tok.startswith('now='):
            res.append(tok)
        elif is_op(tok):
            next(it, None)
            res.append(tok)
        else:
            item = next(it, None)
            res.append('L=' + (item[1] if item and item[1] is not None else 'BADSPEC'))
    return ' '.join(res + prims)


def parse_kvdump(s):
    if s == '-':
        return []
    r = []
    for kv in s.split(';'):
        k, v = kv.split('=')
        r.append((unhex(k), unhex(v)))
    return r


def canon_impl(case, out):
    """implementation answer in the vocabulary of the model driver"""
    if crashed(out):
        return out
    if case.startswith('kat '):
        return out.split(' ')[0]
    head, items, prims, extra = parse_impl(out)
    pool = case.startswith('pool ')
    res = [head]
    for kind, ck, v in items:
        if kind in 'SX':
            res.append('%s=%s' % (kind, ck))
        else:
            if pool and v and v.startswith('A,'):
                _, kvd, clr = v.split(',')
                v = 'A,%s,%s' % (hexs(save_data(parse_kvdump(kvd))), clr)
            res.append('L=' + str(v))
    return ' '.join(res)


# ------------------------------------------------------------------------------------------
# property oracle: evaluated on the implementation's answers only
# ------------------------------------------------------------------------------------------
def forged_expect(tok, now, cfgL):
    """expected verdict of a forged (correct MAC, arbitrary body) candidate where the structure decides it:
    True accept / False reject / None not determined by the token"""
    q = tok.split(':')
    if q[0] == 'fa':
        n, size, extra = int(q[1]), int(q[2]), int(q[3])
        if n < 2 or extra % 16 != 0:
            return False
        avail = 16 * (n + extra // 16 - 1) - 4
        if size > avail or size < 8:
            return False
        if len(q) == 6:
            return int(q[5]) >= now
        return None
    if q[0] == 'ft' and cfgL.startswith('hmac/'):
        body = unhex(q[1])
        if len(body) < 8:
            return False
        return struct.unpack('<q', body[:8])[0] >= now
    if q[0] == 'ft':
        body = unhex(q[1])
        if len(body) % 16 != 0 or len(body) < 32:
            return False
    return None


def oracle_scn(case, out):
    """-> list of (key, description, index of the offending token or None)"""
    ct = case.split(' ')
    cfgA, cfgB = ct[1], ct[2]
    cfgL = cfgA if cfgB == '=' else cfgB
    now = int(ct[3][4:])
    if crashed(out):
        return [('crash', 'the harness died / raised outside the code under test: ' + out[:300], None)]
    head, items, prims, extra = parse_impl(out)
    mA = material(cfgA)
    mB = mA if cfgB == '=' else material(cfgB)
    bad = []
    for tok in (cfgA, cfgL):
        p = tok.split('/')
        if p[0] == 'hmac' and len(unhex(p[2])) < 16 and head == 'ok':
            bad.append(('short-hmac-key-accepted', 'an hmac encryptor was built with a key shorter than 16 bytes', None))
    if head.startswith('cfgerr'):
        which = mA if head == 'cfgerrA' else mB
        if which is not None:
            bad.append(('valid-config-refused', 'a usable configuration was refused: ' + head, None))
        return bad
    if head != 'ok':
        return [('bad-output', 'unexpected harness answer ' + out[:200], None)]
    saves = {}      # cipher text -> (data, timeout)
    texts = {}      # cookie text -> (data, timeout)
    issued = set()
    it = iter(items)
    for ti in range(4, len(ct)):
        tok = ct[ti]
        if tok.startswith('now='):
            now = int(tok[4:])
            continue
        item = next(it, None)
        if item is None:
            bad.append(('bad-output', 'fewer answers than operations', ti))
            break
        kind, ck, v = item
        if is_op(tok):
            if ck == 'EXC':
                if mA is not None:
                    bad.append(('save-throws', 'save/encrypt raised under a usable configuration', ti))
                continue
            cookie = unhex(ck)
            q = tok.split(':')
            if cookie[:1] != b'C' or any(c not in D6 for c in cookie[1:]):
                bad.append(('issued-cookie-not-urlsafe', 'issued cookie is not C + base64url text', ti))
                continue
            ci = cpp_b64decode(cookie[1:])
            if tok[0] == 'S':
                dt = (unhex(q[1]), int(q[2]))
            else:
                pl = unhex(q[1])
                dt = (pl[8:], struct.unpack('<q', pl[:8])[0]) if len(pl) >= 8 else None
            if mA and mA[0] == 'aes':
                if ci in issued:
                    bad.append(('aes-equal-ciphertexts', 'two encryptions under the encrypting backend gave the same cipher text', ti))
                plain = (le64(dt[1]) + dt[0]) if dt else unhex(q[1])
                if len(plain) >= 12 and plain[8:] in ci:
                    bad.append(('aes-plaintext-visible', 'the payload occurs verbatim in the cipher text', ti))
            issued.add(ci)
            rk = raw_mac_key(cfgA)
            if rk:
                dl_ = DLEN[rk[0]]
                if len(ci) < dl_ or pyhmac.new(rk[1], ci[:-dl_], rk[0]).digest() != ci[-dl_:]:
                    bad.append(('issued-cookie-mac-wrong', 'the tag of an issued cookie is not the RFC 2104 HMAC of everything before it '
                                'under the configured MAC key', ti))
            if dt:
                saves[ci] = dt
                texts[cookie] = dt
            continue
        # a candidate load
        if v in ('BADSPEC', None) or ck is None:
            bad.append(('bad-output', 'candidate not understood by the harness: ' + tok, ti))
            continue
        cookie = unhex(ck)
        forged = tok.startswith('fa:') or tok.startswith('ft:')
        if v == 'EXC':
            if mB is not None:
                bad.append(('load-throws', 'load raised an exception on a client supplied cookie', ti))
            continue
        f = v.split(',')
        if f[0] == 'R':
            if cookie and f[1] != '1':
                bad.append(('reject-not-cleared', 'a rejected non-empty cookie was not cleared', ti))
            if not cookie and f[1] != '0':
                bad.append(('empty-cookie-cleared', 'clearing requested although no cookie was sent', ti))
            if not forged and mA is not None and mA == mB and cookie in texts and texts[cookie][1] >= now:
                bad.append(('valid-cookie-rejected', 'an issued, unexpired cookie was rejected under the same key material', ti))
            if forged and forged_expect(tok, now, cfgL) is True:
                bad.append(('valid-structure-rejected', 'correctly authenticated, well-formed, unexpired cipher text rejected', ti))
            continue
        if f[0] != 'A':
            bad.append(('bad-output', 'unexpected verdict ' + v[:80], ti))
            continue
        data, t, clr = unhex(f[1]), int(f[2]), f[3]
        if t < now:
            bad.append(('expired-accepted', 'accepted although the expiry %d is before now %d' % (t, now), ti))
        if clr != '0':
            bad.append(('accepted-but-cleared', 'cookie accepted and cleared at the same time', ti))
        if forged:
            fe = forged_expect(tok, now, cfgL)
            if fe is False:
                bad.append(('malformed-authenticated-accepted',
                            'cipher text with a correct MAC but an impossible structure / inner length / expiry was accepted', ti))
            if tok.startswith('fa:') and len(data) != int(tok.split(':')[2]) - 8:
                bad.append(('inner-length-ignored', 'returned data length differs from the authenticated length field', ti))
            continue
        if mA is None or mA != mB:
            # the signing and the encrypting encryptor authenticate with the same HMAC and no domain separation: when a
            # deployment reuses one MAC key for both, each accepts the (correctly authenticated) cipher texts of the other.
            # That is key reuse by the operator, not a forgery; everything else accepted across configurations is.
            if not (mA is not None and mB is not None and mA[0] != mB[0] and mA[-2:] == mB[-2:]):
                bad.append(('accepted-under-foreign-key', 'cookie made under different key material / algorithm accepted', ti))
            continue
        ci = cpp_b64decode(cookie[1:]) if cookie[:1] == b'C' else None
        if ci is None or ci not in issued:
            bad.append(('accepted-unissued-ciphertext', 'accepted cookie does not decode to a cipher text issued in this history', ti))
        elif saves.get(ci) != (data, t):
            bad.append(('accepted-wrong-data', 'accepted cookie returned data/expiry different from the save that issued it', ti))
        if (data, t) not in saves.values():
            bad.append(('accepted-unissued-data', 'returned (data, expiry) was never saved', ti))
    return bad


def pool_prim_token(a):
    """the encryptor a pool configuration selects (specification side), '-' if the configuration must be refused"""
    enc, mac, cbc = (unhex(a.get(k, '-')).decode('latin-1') for k in ('enc', 'mac', 'cbc'))

    def key(name):
        if name + 'file' in a:
            s = unhex(a[name + 'file'])
            if not s:
                return None                 # an empty key file is refused
            s = s.rstrip(b' \n\r\t')
        else:
            s = unhex(a.get(name, '-'))
        if len(s) % 2 or not re.fullmatch(rb'[0-9a-fA-F]*', s):
            return None
        return bytes.fromhex(s.decode())
    if not enc and not mac and not cbc:
        return '-'
    if enc and (mac or cbc):
        return '-'
    if cbc and not mac:
        return '-'
    if enc:
        k = key('key')
        if k is None:
            return '-'
        if enc == 'hmac':
            tok = 'hmac/sha1/' + hexs(k)
        elif enc.startswith('hmac-'):
            tok = 'hmac/%s/%s' % (enc[5:], hexs(k))
        elif enc.startswith('aes'):
            tok = 'aesk/%s/%s' % (enc, hexs(k))
        else:
            return '-'
    else:
        hk = key('hkey')
        if hk is None:
            return '-'
        if not cbc:
            tok = 'hmac/%s/%s' % (mac, hexs(hk))
        else:
            ckk = key('ckey')
            if ckk is None:
                return '-'
            tok = 'aes/%s/%s/%s/%s' % (cbc, hexs(ckk), mac, hexs(hk))
    return tok if material(tok) is not None else '-'


def oracle_pool(case, out):
    ct = case.split(' ')
    a, start = pool_split(ct)
    if crashed(out):
        return [('crash', 'the harness died / raised outside the code under test: ' + out[:300], None)]
    head, items, prims, extra = parse_impl(out)
    bad = []
    want = pool_prim_token(a)
    now0, timeout = int(a['now']), int(a['timeout'])
    kvs = [tuple(unhex(x) for x in kv.split(':')) for kv in a.get('kv', '').split(';') if ':' in kv]
    if head.startswith('cfgerr') or head.startswith('useerr'):
        if want != '-':
            bad.append(('valid-config-refused', 'a usable pool configuration was refused: ' + head, None))
        return bad
    if head != 'ok':
        return [('bad-output', 'unexpected harness answer ' + out[:200], None)]
    if unhex(a.get('cbc', '-')) and not unhex(a.get('mac', '-')):
        bad.append(('cipher-without-mac-accepted', 'session.client.cbc without session.client.hmac was accepted', None))
    elif want == '-':
        enc = unhex(a.get('enc', '-'))
        if enc.startswith(b'hmac') or (unhex(a.get('mac', '-')) and not unhex(a.get('cbc', '-'))):
            bad.append(('short-hmac-key-accepted', 'hmac encryptor configured with a short / malformed key works', None))
        else:
            bad.append(('invalid-config-accepted', 'a configuration that must be refused produced a working session pool', None))
        return bad
    it = iter(items)
    s_item = next(it, None)
    if s_item is None or s_item[0] != 'S':
        return [('bad-output', 'no issued cookie in ' + out[:200], None)]
    issued = unhex(s_item[1])
    if kvs:
        if issued[:1] != b'C' or any(c not in D6 for c in issued[1:]):
            bad.append(('issued-cookie-not-urlsafe', 'issued session cookie is not C + base64url text', None))
            return bad
    ci0 = cpp_b64decode(issued[1:]) if issued else None
    now = now0
    for ti in range(start, len(ct)):
        tok = ct[ti]
        if tok.startswith('now='):
            now = int(tok[4:])
            continue
        item = next(it, None)
        if item is None:
            bad.append(('bad-output', 'fewer answers than operations', ti))
            break
        kind, ck, v = item
        if ck is None or v in (None, 'BADSPEC'):
            bad.append(('bad-output', 'candidate not understood by the harness: ' + tok, ti))
            continue
        cookie = unhex(ck)
        forged = tok.startswith('fa:') or tok.startswith('ft:')
        if v == 'EXC':
            if not forged:
                bad.append(('load-throws', 'session load raised an exception on a client supplied cookie', ti))
            continue
        f = v.split(',')
        if f[0] == 'R':
            if cookie and f[1] != '1':
                bad.append(('reject-not-cleared', 'a rejected non-empty cookie was not cleared', ti))
            if kvs and cookie == issued and now <= now0 + timeout:
                bad.append(('valid-cookie-rejected', 'the issued, unexpired session cookie was rejected', ti))
            continue
        if forged:
            continue
        if now > now0 + timeout:
            bad.append(('expired-accepted', 'session accepted after its expiry', ti))
        ci = cpp_b64decode(cookie[1:]) if cookie[:1] == b'C' else None
        if ci is None or ci != ci0:
            bad.append(('accepted-unissued-ciphertext', 'accepted cookie does not decode to the issued cipher text', ti))
        if parse_kvdump(f[1]) != kvs:
            bad.append(('accepted-wrong-data', 'session content differs from what was saved', ti))
    return bad


def oracle_all(case, out):
    if case.startswith('scn '):
        return oracle_scn(case, out)
    if case.startswith('pool '):
        return oracle_pool(case, out)
    if case.startswith('kat '):
        return oracle_kat(case, out)
    return [('bad-case', 'unknown case line', None)]


def oracle(case, out):
    """vlib-style single answer (first failure)"""
    r = oracle_all(case, out)
    return (r[0][0], r[0][1]) if r else None


def reduce_case(case, ti):
    """smallest scenario that still contains the offending candidate: all saves and clock changes, one candidate"""
    if ti is None or case.startswith('kat '):
        return case
    ct = case.split(' ')
    if ct[0] == 'scn':
        start = 4
    else:
        start = pool_split(ct)[1]
    keep = ct[:start] + [t for i, t in enumerate(ct[start:], start) if i == ti or not is_cand(t)]
    return ' '.join(keep)


# ------------------------------------------------------------------------------------------
# generators
# ------------------------------------------------------------------------------------------
def rb(rng, n):
    return bytes(rng.getrandbits(8) for _ in range(n))


def rkey(rng, n):
    return hexs(rb(rng, n))


def flip_key(khex, rng):
    k = bytearray(unhex(khex))
    i = rng.choice([0, len(k) - 1, rng.randrange(len(k))])
    k[i] ^= 1 << rng.randrange(8)
    return hexs(bytes(k))


def configs(ctx):
    """a spread of usable configurations: (token, family)"""
    rng = ctx.rng
    out = []
    for alg in ALGS:
        for kl in ([16, 64, 65] if ctx.quick() else [16, 17, 20, 32, 63, 64, 65, 127, 128, 129, 200]):
            if ctx.quick() and kl != 16 and rng.random() < 0.5:
                continue
            out.append('hmac/%s/%s' % (alg, rkey(rng, kl)))
    names = [('aes', 16), ('aes128', 16), ('aes-128', 16), ('aes192', 24), ('aes-192', 24), ('aes256', 32), ('aes-256', 32),
             ('AES128', 16), ('AES-256', 32), ('AES', 16), ('AES192', 24)]
    for nm, sz in names:
        macs = ALGS if not ctx.quick() else [rng.choice(ALGS)]
        for m in macs:
            out.append('aes/%s/%s/%s/%s' % (nm, rkey(rng, sz), m, rkey(rng, rng.choice([1, 16, 20, 32, 64, 65, 130]))))
    for nm, sz in [('aes', 16), ('aes128', 16), ('aes192', 24), ('aes-256', 32), ('aes256', 32), ('aes-192', 24)]:
        for kl in ([sz + 20, sz, 32, 33] if ctx.quick() else [sz + 20, sz, sz + 1, sz + 19, sz + 21, 32, 33, 64, 100]):
            if kl >= sz:
                out.append('aesk/%s/%s' % (nm, rkey(rng, kl)))
    return out


def fam_bflips(i, clen, rng=None, n=None):
    pos = [(p, b) for p in range(clen) for b in range(8)]
    if n is not None and len(pos) > n:
        pos = rng.sample(pos, n)
    return ['bflip:%d:%d:%d' % (i, p, b) for p, b in pos]


def fam_cflips(i, tlen, rng=None, n=None):
    pos = [(p, b) for p in range(tlen) for b in range(8)]
    if n is not None and len(pos) > n:
        pos = rng.sample(pos, n)
    return ['cflip:%d:%d:%d' % (i, p, b) for p, b in pos]


def fam_trunc(i, clen, tlen, rng=None, n=None):
    a = ['b:%d,0,%d' % (i, k) for k in range(clen)] + ['c:%d,0,%d' % (i, k) for k in range(tlen)]
    a += ['b:%d,%d,$' % (i, k) for k in range(1, min(clen, 40))] + ['c:%d,%d,$' % (i, k) for k in range(1, min(tlen, 8))]
    if n is not None and len(a) > n:
        a = rng.sample(a, n)
    return a


def fam_ext(i, rng, clen):
    a = []
    for k in range(1, 18):
        a.append('b:%d,0,$+h%s' % (i, '00' * k))
        a.append('b:%d,0,$+h%s' % (i, rkey(rng, k)))
        a.append('b:%d,0,$+%d,%d,$' % (i, i, max(0, clen - k)))       # own tail repeated
        a.append('b:h%s+%d,0,$' % (rkey(rng, k), i))                   # prefix
    for k in (16, 32, 48, 20, 36):
        a.append('b:%d,0,$+h%s' % (i, 'ff' * k))
    for ch in [b'A', b'AA', b'AAA', b'AAAA', b'=', b'==', b'.', b' ', b'\x00', b'\xff', b'%3D', b'A=', b'AAAAA']:
        a.append('c:%d,0,$+h%s' % (i, hexs(ch)))
    a.append('c:h43+%d,0,$' % i)      # doubled C
    a.append('c:%d,1,$' % i)          # tag letter dropped
    a.append('c:h63+%d,1,$' % i)      # lower-case c
    a.append('c:h44+%d,1,$' % i)
    return a


def fam_blocks(i, clen, dl):
    """block-level edits of an aes body keeping the original tag"""
    nb = (clen - dl) // 16
    a = []
    tag = '%d,%d,$' % (i, nb * 16)
    for x in range(nb):
        for y in range(nb):
            if x < y:
                order = list(range(nb))
                order[x], order[y] = order[y], order[x]
                a.append('b:' + '+'.join('%d,%d,%d' % (i, 16 * k, 16 * k + 16) for k in order) + '+' + tag)
    for x in range(nb):
        order = [k for k in range(nb) if k != x]
        a.append('b:' + '+'.join(['%d,%d,%d' % (i, 16 * k, 16 * k + 16) for k in order] + [tag]))        # drop a block
        order = list(range(nb))
        order.insert(x, x)
        a.append('b:' + '+'.join(['%d,%d,%d' % (i, 16 * k, 16 * k + 16) for k in order] + [tag]))        # duplicate a block
    a.append('b:%s+%d,0,%d' % (tag, i, nb * 16))                                                            # tag first
    return a


def fam_splice(i, j, cli, clj, dl, rng, aligned):
    a = []
    cuts_i = range(0, cli + 1, 16) if aligned else sorted(set([0, 1, 7, 8, 9, cli - dl - 1, cli - dl, cli - dl + 1, cli - 1, cli] +
                                                              [rng.randrange(cli + 1) for _ in range(6)]))
    cuts_j = range(0, clj + 1, 16) if aligned else sorted(set([0, 1, 8, clj - dl - 1, clj - dl, clj - dl + 1, clj] +
                                                              [rng.randrange(clj + 1) for _ in range(6)]))
    for x in cuts_i:
        for y in cuts_j:
            if 0 <= x <= cli and 0 <= y <= clj:
                a.append('b:%d,0,%d+%d,%d,$' % (i, x, j, y))
    # body of one, tag of the other (both ways)
    a.append('b:%d,0,%d+%d,%d,$' % (i, cli - dl, j, clj - dl))
    a.append('b:%d,0,%d+%d,%d,$' % (j, clj - dl, i, cli - dl))
    return a


def fam_raw(rng, dl, aes):
    a = ['raw:-', 'raw:43', 'raw:63', 'raw:44', 'raw:4341', 'raw:434141', 'raw:43414141', 'raw:4341414141', 'raw:2043', 'raw:00']
    lens = sorted(set([0, 1, 2, 3, dl - 1, dl, dl + 1, dl + 7, dl + 8, dl + 9, dl + 15, dl + 16, dl + 17, dl + 31, dl + 32, dl + 33,
                       dl + 47, dl + 48, dl + 49, 64, 100]))
    for n in lens:
        if n < 0:
            continue
        for fill in (None, 0, 255):
            body = rb(rng, n) if fill is None else bytes([fill]) * n
            a.append('raw:' + hexs(b'C' + b64e(body)))
    for n in (5, 9, 13, 41, 45):   # invalid base64 lengths
        a.append('raw:' + hexs(b'C' + bytes(rng.choice(ALPHA) for _ in range(n))))
    for _ in range(12):
        n = rng.randrange(1, 90)
        a.append('raw:' + hexs(bytes(rng.choice(ALPHA + b'C=+/.%\x00\xff ') for _ in range(n))))
        a.append('raw:' + hexs(b'C' + bytes(rng.choice(ALPHA + b'=+/') for _ in range(n))))
    return a


def fam_forged(rng, cfg, now):
    """correct MAC, arbitrary body (needs the key: not an attacker capability; drives the post-MAC checks)"""
    a = []
    if cfg.startswith('hmac/'):
        for n in (0, 1, 7, 8, 9, 16):
            for t in (now - 1, now, now + 1):
                body = (le64(t) + rb(rng, 16))[:n] if n < 8 else le64(t) + rb(rng, n - 8)
                a.append('ft:' + hexs(body))
        return a
    if not cfg.startswith('aes/'):
        return a
    seed = rkey(rng, 4)
    for nb in (0, 1, 2, 3, 4, 6):
        avail = 16 * (nb - 1) - 4
        for size in sorted(set([0, 7, 8, 9, max(avail - 1, 0), max(avail, 0), avail + 1, avail + 2, avail + 16, 2 ** 31, 2 ** 32 - 1,
                                2 ** 31 - 1, 65536])):
            for t in (now - 1, now, now + 5):
                a.append('fa:%d:%d:0:%s:%d' % (nb, size, seed, t))
        for extra in (1, 4, 15, 17):
            a.append('fa:%d:%d:%d:%s:%d' % (nb, 8, extra, seed, now + 5))
        a.append('fa:%d:%d:16:%s:%d' % (nb, 8, seed, now + 5))
    for n in (0, 15, 16, 31, 32, 33, 48):
        a.append('ft:' + hexs(rb(rng, n)))
    return a


PAYLOAD_EDGES = [0, 1, 3, 4, 5, 7, 8, 11, 12, 15, 16, 17, 19, 20, 21, 31, 32, 33, 36, 63, 64, 65]


def times_for(now, rng):
    return [now, now + 1, now + 3600, now - 1, now - 3600, 0, -1, 2 ** 31 - 1, 2 ** 31, 2 ** 32, I64MAX, I64MIN, now + 2 ** 32,
            now - 2 ** 32, rng.randrange(I64MIN, I64MAX)]


def chunked(ops, n):
    for i in range(0, len(ops), n):
        yield ops[i:i + n]


def gen_scn(ctx):
    rng = ctx.rng
    cases = []
    cfgs = configs(ctx)
    per = ctx.scale(250, 600)

    def emit(cfgA, cfgB, now, saves, cands):
        for part in chunked(cands, per):
            cases.append('scn %s %s now=%d %s %s' % (cfgA, cfgB, now, ' '.join(saves), ' '.join(part)))

    # 1. every single-bit flip / truncation / extension of a small valid cookie, per configuration
    for ci_, cfg in enumerate(cfgs):
        now = rng.choice([0, 1, 1000000000, 2 ** 31, 2 ** 32 + 5, 1700000000])
        plen = rng.choice([0, 1, 3, 4, 5, 12]) if ctx.quick() else rng.choice(PAYLOAD_EDGES)
        data = rb(rng, plen)
        t = now + rng.choice([0, 1, 100, 2 ** 31])
        save = 'S:%s:%d' % (hexs(data), t)
        clen = cipher_len(cfg, plen + 8)
        tlen = text_len(clen)
        dl = mac_dlen(cfg)
        full = (not ctx.quick()) or ci_ % 3 == 0
        cands = ['c:0,0,$']
        cands += fam_bflips(0, clen, rng, None if full else 96)
        cands += fam_cflips(0, tlen, rng, None if full else 96)
        cands += fam_trunc(0, clen, tlen, rng, None if full else 60)
        cands += fam_ext(0, rng, clen)
        if not cfg.startswith('hmac/'):
            cands += fam_blocks(0, clen, dl)
        cands += fam_raw(rng, dl, not cfg.startswith('hmac/'))
        cands += fam_forged(rng, cfg, now)
        emit(cfg, '=', now, [save], cands)
        # the same cookie presented to a fresh encryptor object built from the same configuration
        emit(cfg, cfg, now, [save], ['c:0,0,$', 'bflip:0:%d:%d' % (rng.randrange(clen), rng.randrange(8)), 'b:0,0,-1'])

    # 2. round trips over payload sizes and expiry times (several saves per encryptor: IV chaining)
    for cfg in cfgs:
        now = rng.choice([0, 5, 1000000000, 2 ** 31 - 1, 2 ** 33])
        ops = []
        k = 0
        sizes = rng.sample(PAYLOAD_EDGES, 6) if ctx.quick() else PAYLOAD_EDGES
        for plen in sizes:
            t = rng.choice(times_for(now, rng))
            ops.append('S:%s:%d' % (hexs(rb(rng, plen)), t))
            ops.append('c:%d,0,$' % k)
            k += 1
        # same payload twice (an encrypting backend must not repeat itself), loads at later clocks
        d = hexs(rb(rng, 24))
        ops += ['S:%s:%d' % (d, now + 10), 'S:%s:%d' % (d, now + 10), 'c:%d,0,$' % k, 'c:%d,0,$' % (k + 1),
                'now=%d' % (now + 10), 'c:%d,0,$' % k, 'now=%d' % (now + 11), 'c:%d,0,$' % k, 'c:%d,0,$' % (k + 1),
                'now=%d' % now]
        k += 2
        for pl in (0, 1, 7, 8, 9):
            ops += ['X:%s' % hexs(rb(rng, pl)), 'c:%d,0,$' % k]
            k += 1
        cases.append('scn %s = now=%d %s' % (cfg, now, ' '.join(ops)))

    # 3. splices of two valid cookies
    for cfg in (rng.sample(cfgs, 8) if ctx.quick() else cfgs):
        now = 1000000000
        p0, p1 = rng.choice([0, 4, 5, 20]), rng.choice([4, 5, 20, 21, 37])
        saves = ['S:%s:%d' % (hexs(rb(rng, p0)), now + 5), 'S:%s:%d' % (hexs(rb(rng, p1)), now + 7)]
        c0, c1 = cipher_len(cfg, p0 + 8), cipher_len(cfg, p1 + 8)
        dl = mac_dlen(cfg)
        aes = not cfg.startswith('hmac/')
        cands = fam_splice(0, 1, c0, c1, dl, rng, aes) + fam_splice(1, 0, c1, c0, dl, rng, aes)
        if aes:
            cands += fam_splice(0, 1, c0, c1, dl, rng, False)
        emit(cfg, '=', now, saves, cands)

    # 4. cross-key / cross-algorithm transplants
    for cfg in (rng.sample(cfgs, 14) if ctx.quick() else cfgs + cfgs):
        now = 1000000000
        p = cfg.split('/')
        others = []
        if p[0] == 'hmac':
            others.append('hmac/%s/%s' % (p[1], flip_key(p[2], rng)))
            others.append('hmac/%s/%s' % (p[1], p[2] + '00'))                 # same HMAC key after zero padding
            others.append('hmac/%s/%s' % (p[1], p[2][:-2]) if len(p[2]) > 34 else 'hmac/%s/%s' % (p[1], p[2] + '01'))
            others.append('hmac/%s/%s' % (rng.choice([a for a in ALGS if a != p[1]]), p[2]))
            others.append('hmac/%s/%s' % (p[1].upper(), p[2]))                 # same algorithm, other spelling
            others.append('aes/aes/%s/%s/%s' % (p[2][:32], p[1], p[2]))
        elif p[0] == 'aes':
            others.append('aes/%s/%s/%s/%s' % (p[1], flip_key(p[2], rng), p[3], p[4]))
            others.append('aes/%s/%s/%s/%s' % (p[1], p[2], p[3], flip_key(p[4], rng)))
            others.append('aes/%s/%s/%s/%s' % (p[1], p[2], rng.choice([a for a in ALGS if a != p[3]]), p[4]))
            others.append('aes/%s/%s/%s/%s' % (p[1], p[2], p[3], p[4] + '00'))
            others.append('hmac/%s/%s' % (p[3], p[4] if len(p[4]) >= 32 else p[4] + '00' * 16))
            if len(p[4]) == 40 and p[3] == 'sha1':
                others.append('aesk/%s/%s' % (p[1].lower().replace('-', ''), p[2] + p[4]))
        else:
            others.append('aesk/%s/%s' % (p[1], flip_key(p[2], rng)))
            others.append('aesk/%s/%s' % (p[1], p[2] + '00'))
            m = material(cfg)
            if m:
                # the same key material spelled as separate keys
                others.append('aes/%s/%s/sha1/%s' % (p[1], hexs(m[1]), hexs(m[3].rstrip(b'\0').ljust(20, b'\0'))))
        plen = rng.choice([0, 5, 12, 20])
        saves = ['S:%s:%d' % (hexs(rb(rng, plen)), now + 50)]
        clen = cipher_len(cfg, plen + 8)
        for o in others:
            cands = ['c:0,0,$', 'b:0,0,$', 'bflip:0:%d:0' % rng.randrange(clen), 'b:0,0,-1', 'b:0,0,$+h00']
            cases.append('scn %s %s now=%d %s %s' % (cfg, o, now, ' '.join(saves), ' '.join(cands)))

    # 5. configurations that must be refused or that cannot be used
    K16 = rkey(rng, 16)
    for bad in ['hmac/sha1/' + rkey(rng, 15), 'hmac/md5/' + rkey(rng, 1), 'hmac/sha256/-', 'hmac/sha1/' + rkey(rng, 8),
                'hmac/sha3/' + K16, 'hmac/SHA1/' + K16, 'hmac/Sha256/' + K16, 'hmac/sha-1/' + K16,
                'aes/aes/%s/sha1/%s' % (rkey(rng, 15), K16), 'aes/aes192/%s/sha1/%s' % (K16, K16), 'aes/aes256/%s/md5/%s' % (rkey(rng, 24), K16),
                'aes/aes512/%s/sha1/%s' % (K16, K16), 'aes/des/%s/sha1/%s' % (K16, K16), 'aes/aes/%s/sha3/%s' % (K16, K16),
                'aes/aes/%s/sha1/-' % K16, 'aes/aes/%s/SHA512/%s' % (K16, K16),
                'aesk/aes/' + rkey(rng, 15), 'aesk/aes256/' + rkey(rng, 31), 'aesk/aes192/' + rkey(rng, 23), 'aesk/aes1/' + rkey(rng, 36),
                'aesk/aes/-', 'aesk/aes/' + rkey(rng, 16), 'aesk/aes/' + rkey(rng, 36), 'aesk/aes/' + rkey(rng, 35), 'aesk/aes/' + rkey(rng, 37)]:
        ops = ['S:%s:%d' % (hexs(rb(rng, 5)), 2000), 'c:0,0,$', 'raw:-', 'raw:43', 'raw:44', 'raw:4341414141', 'raw:' + hexs(b'C' + b64e(rb(rng, 60)))]
        # an encryptor that raised once is left half initialised (aes_cipher::load keeps the cbc object without a key):
        # only the first use of an unusable configuration is compared, one operation per scenario
        for op in ops[:1] + ops[2:]:
            cases.append('scn %s = now=1000 %s' % (bad, op))
        for op in ops[1:]:
            cases.append('scn hmac/sha1/%s %s now=1000 %s %s' % (K16, bad, ops[0], op))

    # 6. large payloads (sampled mutations)
    big = [1000, 4096, 65536] if ctx.quick() else [1000, 4096, 16383, 65535, 65536, 65537, 100000]
    simple = [c for c in cfgs if not c.startswith('aesk/')]
    for plen in big:
        for cfg in ([rng.choice([c for c in simple if c.startswith('hmac/')]), rng.choice([c for c in simple if c.startswith('aes/')])]
                    if ctx.quick() else rng.sample(cfgs, 6)):
            now = 1000000000
            clen = cipher_len(cfg, plen + 8)
            tlen = text_len(clen)
            cands = ['c:0,0,$'] + fam_bflips(0, clen, rng, 3) + fam_cflips(0, tlen, rng, 2) + fam_trunc(0, clen, tlen, rng, 2)
            cands += ['b:0,0,$+h00', 'b:0,0,-16', 'b:0,16,$']
            cases.append('scn %s = now=%d S:%s:%d %s' % (cfg, now, hexs(rb(rng, plen)), now + 1, ' '.join(cands)))
    rng.shuffle(cases)      # spreads the expensive lines over the parallel workers
    return cases


def hx(s):
    return hexs(s.encode('latin-1') if isinstance(s, str) else s)


def gen_pool(ctx):
    rng = ctx.rng
    cases = []

    def line(now, opts, timeout, kvs, ops, expire='fixed'):
        a = dict(now=str(now), timeout=str(timeout), expire=expire)
        for k, v in opts.items():
            a[k] = hx(v)
        a['kv'] = ';'.join('%s:%s' % (hexs(k), hexs(v)) for k, v in kvs)
        a['prim'] = pool_prim_token(a)
        order = ['prim', 'now', 'enc', 'mac', 'cbc', 'key', 'hkey', 'ckey', 'keyfile', 'hkeyfile', 'ckeyfile', 'timeout', 'expire', 'kv']
        return 'pool ' + ' '.join('%s=%s' % (k, a[k]) for k in order if k in a) + ' ' + ' '.join(ops)

    def kvset():
        n = rng.choice([1, 1, 2, 3])
        ks = sorted(set(bytes(rng.choice(b'abcdefgh_xyz') for _ in range(rng.randrange(1, 6))) for _ in range(n)))
        ks = [k for k in ks if not k.startswith(b'_')] or [b'k']
        return [(k, rb(rng, rng.choice([0, 1, 5, 17]))) for k in ks]

    def hk(n):
        return rb(rng, n).hex()

    good = []
    for alg in ALGS:
        good.append(dict(enc='hmac-' + alg, key=hk(rng.choice([16, 20, 64, 70]))))
        good.append(dict(mac=alg, hkey=hk(rng.choice([16, 32, 100]))))
        good.append(dict(mac=alg, cbc=rng.choice(['aes', 'aes128', 'aes-128']), hkey=hk(rng.choice([16, 20, 64])), ckey=hk(16)))
    good += [dict(enc='hmac', key=hk(16)), dict(enc='hmac', key=hk(20).upper()), dict(enc='hmac-SHA256', key=hk(32)),
             dict(enc='aes', key=hk(36)), dict(enc='aes', key=hk(16)), dict(enc='aes', key=hk(32)), dict(enc='aes', key=hk(40)),
             dict(enc='aes128', key=hk(36)), dict(enc='aes-128', key=hk(17)), dict(enc='aes192', key=hk(44)), dict(enc='aes192', key=hk(24)),
             dict(enc='aes-192', key=hk(33)), dict(enc='aes256', key=hk(52)), dict(enc='aes-256', key=hk(32)), dict(enc='aes256', key=hk(64)),
             dict(mac='sha1', cbc='aes192', hkey=hk(20), ckey=hk(24)), dict(mac='sha512', cbc='aes256', hkey=hk(64), ckey=hk(32)),
             dict(mac='md5', cbc='AES-256', hkey=hk(5), ckey=hk(32)), dict(mac='SHA1', cbc='AES', hkey=hk(20), ckey=hk(16))]
    # keys read from files: trailing blanks and line ends are dropped, everything else must be hex
    good += [dict(enc='hmac', keyfile=hk(20) + '\n'), dict(enc='hmac-sha256', keyfile=hk(32) + ' \t\r\n\n'),
             dict(enc='aes', keyfile=hk(36).upper() + '\r\n'), dict(mac='sha1', hkeyfile=hk(16)),
             dict(mac='sha256', cbc='aes', hkeyfile=hk(32) + '\n', ckeyfile=hk(16) + '\n'),
             dict(mac='sha1', cbc='aes256', hkey=hk(20), ckeyfile=hk(32) + '  '),
             dict(enc='hmac', key='zz', keyfile=hk(16) + '\n')]        # the file wins over the inline key
    for opts in good:
        now = rng.choice([1000, 1000000000, 2 ** 31 + 7])
        timeout = rng.choice([1, 10, 3600, 86400])
        kvs = kvset()
        prim = pool_prim_token({k: hx(v) for k, v in opts.items()})
        plen = len(save_data(kvs))
        clen = cipher_len(prim, plen + 8) if prim != '-' else 40
        tlen = text_len(clen)
        ops = ['c:0,0,$', 'now=%d' % (now + timeout), 'c:0,0,$', 'now=%d' % (now + timeout + 1), 'c:0,0,$', 'now=%d' % now]
        ops += fam_bflips(0, clen, rng, ctx.scale(24, 200)) + fam_cflips(0, tlen, rng, ctx.scale(16, 100))
        ops += fam_trunc(0, clen, tlen, rng, ctx.scale(16, 100))
        ops += ['b:0,0,$+h00', 'c:0,0,$+h41', 'c:0,0,$+h3d', 'c:0,1,$', 'raw:-', 'raw:43', 'raw:4341414141']
        ops += ['raw:' + hexs(b'C' + b64e(rb(rng, n))) for n in (19, 20, 36, 52, 68, 84)]
        cases.append(line(now, opts, timeout, kvs, ops, rng.choice(['fixed', 'renew', 'browser'])))
    # empty session: nothing is issued
    cases.append(line(1000, dict(enc='hmac', key=hk(16)), 10, [], ['raw:-', 'raw:43']))
    # configurations that must be refused
    K = hk(16)
    bad = [dict(), dict(cbc='aes', ckey=K), dict(cbc='aes', ckey=K, hkey=K), dict(enc='hmac', mac='sha1', key=K, hkey=K),
           dict(enc='aes', cbc='aes', key=hk(36), ckey=K), dict(enc='hmac', cbc='aes', key=K, ckey=K), dict(enc='aes', mac='sha1', key=hk(36), hkey=K),
           dict(enc='des', key=K), dict(enc='HMAC', key=K), dict(enc='AES', key=hk(36)), dict(enc='hma', key=K), dict(enc='none', key=K),
           dict(enc='hmac', key=hk(15)), dict(enc='hmac', key=hk(8)), dict(enc='hmac', key=''), dict(enc='hmac-sha256', key=hk(15)),
           dict(enc='hmac-md5', key=hk(1)), dict(mac='sha1', hkey=hk(15)), dict(mac='sha512', hkey=''), dict(mac='md5', hkey=hk(2)),
           dict(enc='hmac', key=K + 'a'), dict(enc='hmac', key=K[:-1] + 'g'), dict(enc='hmac', key='zz' * 16), dict(mac='sha1', hkey=K + '0'),
           dict(mac='sha1', cbc='aes', hkey=K, ckey=K + 'x1'), dict(mac='sha1', cbc='aes', hkey='x' + K, ckey=K),
           dict(enc='hmac-sha3', key=K), dict(enc='hmac-', key=K), dict(enc='hmac-sha1x', key=K), dict(mac='sha2', hkey=K),
           dict(enc='aes', key=hk(15)), dict(enc='aes', key=''), dict(enc='aes256', key=hk(31)), dict(enc='aes192', key=hk(23)),
           dict(enc='aes512', key=hk(64)), dict(enc='aes-', key=hk(36)), dict(enc='aesx', key=hk(36)), dict(enc='aes1', key=hk(36)),
           dict(mac='sha1', cbc='aes', hkey=K, ckey=hk(15)), dict(mac='sha1', cbc='aes', hkey=K, ckey=hk(17)), dict(mac='sha1', cbc='aes256', hkey=K, ckey=hk(16)),
           dict(mac='sha1', cbc='aes192', hkey=K, ckey=hk(32)), dict(mac='sha1', cbc='des', hkey=K, ckey=K), dict(mac='sha3', cbc='aes', hkey=K, ckey=K),
           dict(mac='sha1', cbc='aes', hkey=K, ckey=''), dict(mac='sha1', cbc='aes', hkey='', ckey=K)]
    bad += [dict(enc='hmac', keyfile=''), dict(enc='hmac', keyfile='\n'), dict(enc='hmac', keyfile=' \n\t'), dict(enc='hmac', keyfile='\n' + K),
            dict(enc='hmac', keyfile=K[:16] + ' ' + K[16:]), dict(enc='hmac', keyfile=K + 'a\n'), dict(enc='hmac', keyfile=hk(15) + '\n'),
            dict(enc='hmac', keyfile=K + '\n#'), dict(mac='sha1', hkeyfile=''), dict(mac='sha1', cbc='aes', hkey=K, ckeyfile=''),
            dict(mac='sha1', cbc='aes', hkeyfile='', ckey=K), dict(mac='sha1', cbc='aes', hkey=K, ckeyfile=hk(17) + '\n'),
            dict(enc='aes', keyfile=hk(15) + '\n'), dict(enc='hmac', keyfile=K + '\x00')]
    for opts in bad:
        cases.append(line(1000, opts, 10, [(b'a', b'b')], ['c:0,0,$', 'raw:43']))
    return cases


def gen_kat(ctx):
    rng = ctx.rng
    cases = ['kat aes %s %s' % kv for kv in KAT_AES]
    for alg in ALGS:
        for kl in (0, 1, 16, 20, 63, 64, 65, 127, 128, 129, 200):
            for ml in (0, 1, 55, 56, 64, 111, 112, 128, 300):
                if ctx.quick() and rng.random() < 0.6:
                    continue
                cases.append('kat %s %s %s' % (alg, rkey(rng, kl), rkey(rng, ml)))
    return cases


def gen_cases(ctx):
    return gen_kat(ctx) + gen_scn(ctx) + gen_pool(ctx)


# ------------------------------------------------------------------------------------------
# classification / coverage
# ------------------------------------------------------------------------------------------
def cand_kind(tok):
    k = tok.split(':', 1)[0]
    if k in ('b', 'c'):
        body = tok.split(':', 1)[1]
        if body in ('0,0,$', '1,0,$') or re.fullmatch(r'\d+,0,\$', body):
            return 'identity'
        if '+' not in body:
            return 'truncation'
        if re.fullmatch(r'\d+,0,\$\+h[0-9a-f]*', body) or body.startswith('h'):
            return 'extension'
        return 'splice'
    return {'bflip': 'bitflip-cipher', 'cflip': 'bitflip-text', 'raw': 'arbitrary', 'fa': 'forged-mac', 'ft': 'forged-mac'}.get(k, k)


def run_differential(ctx, cases, exe, mexe):
    import time, hashlib as hl
    cov = ctx.coverage
    t0 = time.time()
    rc, out_i, err = vlib.run_lines_parallel(exe, cases, env={'ASAN_OPTIONS': 'detect_leaks=0:abort_on_error=0'})
    t1 = time.time()
    cov['impl_wall_s'] = round(t1 - t0, 2)
    if len(out_i) < len(cases):
        out_i = out_i + ['<missing>'] * (len(cases) - len(out_i))
    for i, o in enumerate(out_i):
        if o.startswith('<missing') and (i == 0 or not out_i[i - 1].startswith('<missing')):
            out_i[i] = '<crash rc=%s> %s' % (rc, err[-300:].replace('\n', ' | '))
    if any(o.startswith('<crash') or o.startswith('<missing') for o in out_i):
        ctx.broke('implementation harness stopped answering (rc=%s)' % rc, err[-2000:])
    hist = cov.setdefault('distribution', {})
    seen = set()
    nev = 0
    mlines, midx = [], []
    first_blocks = {}
    for i, c in enumerate(cases):
        o = out_i[i]
        # across scenarios: every encrypting-encryptor object starts from a fresh random IV, so the first cipher block
        # of its first cookie never repeats (same key material) -- equal payloads must not give equal cookies
        if not crashed(o) and o.startswith('ok') and c.startswith('scn '):
            mat = material(c.split(' ')[1])
            c0 = first_c0(parse_impl(o)[1])
            if mat and mat[0] == 'aes' and c0:
                k0 = (mat, c0)
                if k0 in first_blocks and first_blocks[k0] != c:
                    ctx.fail('aes-nonce-repeated', 'two encryptor objects with the same keys started from the same IV '
                             '(first cipher blocks equal): equal payloads give equal cookies\n  first block: ' + c0,
                             reduce_case(first_blocks[k0], -1) + '\n' + reduce_case(c, -1))
                first_blocks.setdefault(k0, c)
        for key, desc, ti in oracle_all(c, o):
            red = reduce_case(c, ti)
            ctx.fail(key, desc + '\n  case: %s\n  impl: %s' % (red[:600], o[:300]), red)
        if not crashed(o) and not c.startswith('kat '):
            r = check_prims(parse_impl(o)[2])
            if r:
                ctx.fail(r[0], r[1], reduce_case(c, -1) if not c.startswith('pool ') else c)
        if crashed(o):
            continue
        head, items, prims, extra = parse_impl(o)
        ct = c.split(' ')
        if ct[0] == 'kat':
            nev += 1
            hist['kat:' + ct[1]] = hist.get('kat:' + ct[1], 0) + 1
            mlines.append(c)
            midx.append(i)
            continue
        fam = ct[1].split('/')[0] if ct[0] == 'scn' else 'pool'
        cfgL = (ct[1] if ct[2] == '=' else ct[2]) if ct[0] == 'scn' else ct[1]
        nev += max(1, len(items))
        if head != 'ok':
            k = '%s:%s' % (fam, head.split(':')[0])
            hist[k] = hist.get(k, 0) + 1
        else:
            start = 4 if ct[0] == 'scn' else pool_split(ct)[1]
            it = iter(items)
            if ct[0] == 'pool':
                next(it, None)
            for tok in ct[start:]:
                if tok.startswith('now='):
                    continue
                item = next(it, None)
                if item is None:
                    break
                if is_op(tok):
                    k = '%s:save' % fam
                else:
                    v = item[2] or '?'
                    k = '%s:%s:%s' % (fam, cand_kind(tok), v[0] if v[0] in 'AR' else v[:3])
                    if item[1]:
                        ck = unhex(item[1])
                        # non-trivial: the cookie reaches the encryptor (tag letter present, valid base64 length)
                        if ck[:1] == b'C' and len(ck) % 4 != 2:
                            seen.add(hl.md5((cfgL + '|' + item[1]).encode()).digest())
                hist[k] = hist.get(k, 0) + 1
        mlines.append(model_line(c, o))
        midx.append(i)
    cov['evaluations'] = cov.get('evaluations', 0) + nev
    cov['scenario_lines'] = cov.get('scenario_lines', 0) + len(cases)
    cov['distinct_nontrivial'] = cov.get('distinct_nontrivial', 0) + len(seen)
    ndiff = 0
    out_m = None
    if mexe and mlines:
        rc_m, out_m, err_m = vlib.run_lines_parallel(mexe, mlines)
        cov['model_wall_s'] = round(time.time() - t1, 2)
        if len(out_m) != len(mlines):
            ctx.broke('model driver produced %d lines for %d cases' % (len(out_m), len(mlines)), err_m[-2000:])
            out_m = None
    if out_m is not None:
        for j, i in enumerate(midx):
            a = canon_impl(cases[i], out_i[i])
            b = out_m[j]
            if a != b:
                ndiff += 1
                if ndiff <= 5:
                    at, bt = a.split(' '), b.split(' ')
                    k = next((x for x in range(min(len(at), len(bt))) if at[x] != bt[x]), min(len(at), len(bt)))
                    ct = cases[i].split(' ')
                    start = 4 if ct[0] == 'scn' else pool_split(ct)[1] if ct[0] == 'pool' else len(ct)
                    ops_idx = [x for x in range(start, len(ct)) if not ct[x].startswith('now=')]
                    off = k - 1 - (1 if ct[0] == 'pool' else 0)
                    ti = ops_idx[off] if 0 <= off < len(ops_idx) else None
                    ctx.broke('correspondence model vs implementation: differ on case',
                              'operation: %s\nimpl:  %s\nmodel: %s\ncase:  %s' % (
                                  ct[ti] if ti is not None else '(header)', ' '.join(at[k:k + 1])[:300], ' '.join(bt[k:k + 1])[:300],
                                  reduce_case(cases[i], ti)[:1500]))
    cov['correspondence_differences'] = cov.get('correspondence_differences', 0) + ndiff
    if len(cov.get('samples', [])) < 6:
        step = max(1, len(cases) // 5)
        for i in range(0, len(cases), step):
            cov.setdefault('samples', []).append({'case': cases[i][:400], 'impl': canon_impl(cases[i], out_i[i])[:300]})


def run(ctx):
    errs = vlib.gen_coq(GEN)
    for n, e in errs:
        ctx.broke('translator cxx2v failed on %s (tie to source broken)' % n, e)
    res = vlib.coq_props('C05')
    ctx.proof(res)
    ctx.coverage['trusted_base'] = [
        'Coq 8.16.1 kernel',
        'extraction: ExtrOcamlBasic only, OCaml 4.13.1; ocaml/C05_driver.ml (primitive tables, line protocol)',
        'harness/C05_cookies.cpp (drives the real session_cookies / hmac_cipher / aes_cipher / session_pool / session_interface; '
        'computes HMAC tags and raw AES block decryptions through cppcms::crypto for the model; forged-MAC candidates)',
        'checks/C05.py (generators, oracle, specification-side key material and base64url/save_data codecs in Python)',
        'hand model of the C++ control flow (coq/C05/Defs.v), tied by correspondence only (no cxx2v leaf in the anchored functions)',
        'base64url model of C15 (coq/C15/Defs.v, linked to src/base64.cpp by C15)']
    ctx.assumptions = [
        'HMAC is an arbitrary function with fixed output length dlen(a); AES block functions satisfy D k (E k b) = b and map 16 bytes to 16 bytes '
        '(Section hypotheses, visible as premises of the theorems)',
        'issued_only: existential unforgeability is a hypothesis on the concrete history (every presented body with a correct tag was issued)',
        'confidentiality (payload / payload-equality hiding) is NOT proved: computational property of AES-CBC with unpredictable chained IV',
        'x86-64: little-endian uint32_t / time_t, 8-byte time_t, bit-field layout of the packed session header',
        'payloads shorter than 2^32 - 12 bytes (uint32_t length field)']
    # the anchored sources of the working tree are compiled into the harness executable with AddressSanitizer (their
    # definitions take precedence over the copies in libcppcms.so): out-of-range reads in the code under test abort
    R = vlib.REPO
    exe, err = vlib.build_harness('C05_cookies', ['C05_cookies.cpp', R + '/src/session_cookies.cpp', R + '/src/hmac_encryptor.cpp',
                                                  R + '/src/aes_encryptor.cpp'],
                                  extra=['-fsanitize=address', '-fno-omit-frame-pointer'])
    if not exe:
        ctx.broke('harness build failed', err)
        return
    ctx.coverage['sanitizer_run'] = ('harness + src/session_cookies.cpp + src/hmac_encryptor.cpp + src/aes_encryptor.cpp of the working tree '
                                     'compiled with -fsanitize=address; base64, crypto, aes, session_pool, session_interface from the regular '
                                     'library build' + ('' if ctx.quick() else '; all cases run a second time against the regular library only'))
    mexe, err = vlib.build_model('C05', 'C05_driver.ml', 'c05m')
    if not mexe:
        ctx.broke('model extraction/build failed', err)
    if ctx.replay_cases is not None:
        cases = ctx.replay_cases
    else:
        cases = vlib.corpus_cases('C05') + gen_cases(ctx)
    ctx.coverage['rule'] = (
        'A case line is a scenario on the real code: an encryptor configuration (hmac-{md5,sha1,sha224,sha256,sha384,sha512} with key lengths '
        '16..200, aes-{128,192,256} with separate cbc/hmac keys over every hash, combined-key aes with split and derived keys), an interposed '
        'clock, saves through session_cookies::save (or a whole session_pool + session_interface for pool lines), then candidate cookies '
        'loaded through session_cookies::load: the issued cookie itself, EVERY single-bit flip of its cipher text and of its text, EVERY '
        'truncation, extensions by 1..17 bytes and by whole blocks, block swaps/drops/duplications, splices of two valid cookies at every '
        'block boundary, transplants to encryptors with a flipped key bit / other hash / other cipher / equivalent key material, arbitrary '
        'and non-canonical base64 strings, and cipher texts with a correct MAC but malformed structure (forged with the key, to drive the '
        'checks after MAC verification). evaluations = saves + candidate loads + configuration-only lines. A candidate is non-trivial when '
        'it reaches the encryptor (tag letter C and a valid base64 length); distinct = distinct (loading configuration, cookie string).')
    ctx.coverage['exhaustive'] = False
    ctx.coverage['exhaustive_parts'] = ['all single-bit flips of cipher text and cookie text, all truncations of a small valid cookie, '
                                        'for a third of the configurations in quick and all in thorough']
    run_differential(ctx, cases, exe, mexe)
    if not ctx.quick() and ctx.replay_cases is None:
        pexe, err = vlib.build_harness('C05_cookies_plain', ['C05_cookies.cpp'])
        if not pexe:
            ctx.broke('plain harness build failed', err)
            return
        ev, dn = ctx.coverage.get('evaluations', 0), ctx.coverage.get('distinct_nontrivial', 0)
        run_differential(ctx, cases, pexe, mexe)
        ctx.coverage['evaluations_regular_library'] = ctx.coverage['evaluations'] - ev
        ctx.coverage['distinct_nontrivial'] = dn      # same cases: do not count twice
